"""Deterministic, seeded simulator of build histories on the REAL Workflow + Scheduler.

The simulator drives ``stepup.core.workflow.Workflow`` and ``stepup.core.scheduler.Scheduler`` on an
in-memory SQLite database with the same calls (and the same transaction granularity) that the
director RPC handlers, the executor job coroutines, the builder and the startup code make.  There
are no real files, no subprocesses, no sleeps and no threads: a *job* is a small Python record with
a scripted *program* (static / define / amend / hold / release, then an outcome), and one action of
one job is executed per simulator event, randomly interleaved with scheduler ticks and with the
actions of the other running jobs.

Public API
----------
``snapshot(sim) -> dict``
    Canonical JSON-able dump of the scheduling tables (must be called inside a transaction of
    ``sim.db``; ``await sim.snap()`` wraps it in a read-only transaction of its own).
``gen_plan(rng) -> Plan``
    Generate the scripted programs of a whole (initial) workflow.
``choose_targets(rng, plan) -> (targets, target_dirs)``
    Pick a random target set (possibly empty) for a plan.
``Sim(rng, *, targets=(), target_dirs=(), resources=None, defer_cap=3, njob=None,
      keep_going=None, plan=None, check_before=False)``
    ``await sim.start()``, ``await sim.step_once()`` (one event, returns False when the history is
    over), ``sim.close()``, ``sim.events``, ``sim.stats``.
``async run_history(rng, size, **kw) -> dict``
    ``{"config": ..., "events": [...], "stats": {...}}``.
``run(coro, timeout=60.0)``
    ``asyncio.run`` with a global timeout.
``with_before(events)``
    Iterator over the events with ``before`` filled in (see below).

Event records
-------------
Every event is ``{"op", "args", "before", "after", ...}``.  The simulator is the only writer of the
database, hence the ``before`` snapshot of an event always equals the ``after`` snapshot of the
previous event.  To bound memory ``before`` is stored as ``None`` for every event (the first event,
``boot``, has no ``before`` at all); use ``with_before`` to fill it in.  With ``check_before=True``
the equality is verified with a real snapshot at every event (debugging aid).

ops (``args`` in parentheses, extra fields after the arrow):

``boot``                    initial transaction: static plan.py + boot step (left PENDING).
``tick``                    the real ``Scheduler.pop_next_job()`` -> ``after_meta`` (snapshot taken
                            right before ``_get_next_step``, i.e. after the three ``_update_meta_*``
                            calls, inside the same transaction; ``None`` when draining),
                            ``choice`` (node id or None), ``new_state`` (int or None), ``job``
                            (``"run"|"check"|"validate"|None``).
``start`` (step)            ``execute_job`` first transaction: ``reset_for_rerun``.
``early_fail`` (step, inp_hashes)  ``_new_run`` on unexpected input changes: TWO transactions, so
                            two events (other events may come in between): ``early_fail`` =
                            ``update_file_hashes(.., FAILED)``, later ``end`` with
                            ``kind="early_fail"`` = ``mark_completed(None, False)``; afterwards
                            the scheduler drains.
``static`` (step, paths)    ``declare_static_files`` + ``update_file_hashes(.., CONFIRMED)``.
``define`` (creator, label, inp, out, vol, need, resources, duration) -> ``node``, ``recycle``
                            (``"new"|"full"|"partial"``).
``amend`` (step, inp, out, vol, force_unfresh) -> ``unavailable``, ``unfresh``.
``hold`` / ``release`` (step)
``end`` (step, kind, cause, out_hashes{path: known}, wants_defer, stored_hash) ->
                            ``interrupted_defer``, ``new_state``, ``drain``.
``skip`` (step, ok, out_hashes)  ``try_skip_job`` success / mismatch branch.
``validate`` (step, changed)     ``validate_dynamic_job`` branches.
``phase_end``               pure snapshot -> ``cleanup`` (bool: will the cleanup pass run).
``revert``                  real ``revert_optional_steps`` -> ``to_be_deleted`` ([[path, "none"|"hash"]]).
``delete_detached``         ``wf.delete_detached()`` -> ``to_be_deleted`` likewise (dict cleared after).
``build_completed``         ``sched.build_completed()``.
``set_targets`` (targets, target_dirs, resources)  attribute assignment + ``sched.initialize``.
``mark_pending`` (step)     ``wf.mark_step_pending`` of an attached FAILED step.
``external`` (path, known)  ``update_file_hashes({path: hash|unknown}, EXTERNAL)``.
``reconcile``               ``wf.reconcile_targets()`` (GraphError -> ``rejected``).
``undrain``                 ``sched.draining = False`` (new scheduler / ``start_build_phase``).

``rejected``: legitimate API rejection (``GraphError``), transaction rolled back, history goes on
(the job that was rejected aborts like a crashed client: open holds are released, it ends FAILED).
``error``: traceback text of any other exception; the history stops there.

Scripted plans (``plan.scripted``, harness/sched_families.py): the programs carry ``versions`` and the
plan lists what happens between the phases; a ``["wait"]`` action lets a turn of a job pass without a
request to the director (a long-running command).  Nothing is mutated at random in such a plan; the
interleaving of ticks and job actions stays random.

Deviations from the real system (all deliberate, none changes what the real code does):
* ``Scheduler.start_times/stop_times`` are filled with a logical clock instead of
  ``time.monotonic_ns()`` (same pruning logic as ``record_run_started/stopped``), so that
  ``ran_concurrently`` is deterministic.
* Whether a skip / validation succeeds, whether a step fails, and which output hashes "changed on
  disk" are random instead of being derived from file contents.
* A restart re-uses the connection (``sched.initialize`` + ``reconcile_targets``) instead of
  re-opening the database (so ``Workflow.initialize`` / ``_check_consistency`` do not run again).
  After a ``rejected`` ``reconcile`` the history simply goes on (the real director exits).
* An ``external`` change of a CONFIRMED static file may mark the programs of the steps that have it
  as an initial input as *edited*: their next hash check fails and the program is mutated before
  the rerun (this emulates an edited script / plan; it only biases the random choices).

Stats
-----
``stats`` counts ``op.<name>`` (events), ``job.<kind>``, ``tick.dispatch|none``, ``end.<kind>``,
``skip.ok|fail``, ``define.new|full|partial``, ``mutate.<kind>``, ``phase.restart|watch``,
``rejected``, ``error`` and shape facts ``shape.*``: per tick (on ``after_meta``) ``opt_chain2``
(>= 2 attached OPTIONAL steps feeding a non-OPTIONAL step), ``implied_need_raised|target|
via_dyn_edge``, ``hold_spans_tick``, ``check_bypasses_hold``, ``deferred_at_tick``,
``detached_step_at_tick``, ``detached_opt_consumer_at_tick``, ``resource_blocked``,
``resource_step_dispatched``; per event ``dyn_edge``, ``dyn_edge_from_optional``, ``defer``,
``cap_exceeded``, ``recycled_child``, ``dropped_child``, ``dropped_opt_consumer`` (a creator rerun
no longer defines a child that consumed an optional output), ``rerun_without_opt_amend`` (a
successful rerun that no longer amends the optional outputs it amended in its previous successful
run), ``target_phase``, ``dir_target_phase``, ``target_change``.
"""
from __future__ import annotations

import asyncio
import contextlib
import copy
import hashlib
import random
import traceback
from collections import Counter
from typing import Any

import attrs
from path import Path

from stepup.core.enums import FileState, HashUpdateCause, Need, StepState
from stepup.core.exceptions import GraphError
from stepup.core.finalize import revert_optional_steps
from stepup.core.hash import FileHash, StepHash
from stepup.core.job import ValidateDynamicJob
from stepup.core.scheduler import Scheduler
from stepup.core.sqlite3 import DBSession
from stepup.core.step import Step
from stepup.core.workflow import _HASH_TRANSITIONS, Workflow

__all__ = (
    "Plan", "Sim", "choose_targets", "gen_plan", "run", "run_history", "snapshot", "with_before",
)

OPTIONAL = Need.OPTIONAL.value
DEFAULT = Need.DEFAULT.value
PLAN = Need.PLAN.value
BOOT_LABEL = "./plan.py"
RESOURCES = "r1:2,r2:1"
DIRS_OUT = ("a", "b", "out")
DIRS_STATIC = ("a", "b", "src")
DIR_TARGETS = ("a/", "b/", "out/")


_OUTCOME_CACHE: dict = {}


def _validate_unchanged_outcome() -> tuple[str, bool | str]:
    """(state name, deferred) of `Executor.validate_dynamic_job` when the digest is unchanged, read from
    the repository's executor.py (translator/gen_sched.py: executor_outcomes, fail closed).  `deferred` is
    a literal or "unusable_dynamic_input" (= step.has_unusable_dynamic_input() in the outcome transaction)."""
    if "v" not in _OUTCOME_CACHE:
        from translator import gen_sched
        _OUTCOME_CACHE["v"] = gen_sched.executor_outcomes()["validate_unchanged"]
    return _OUTCOME_CACHE["v"]


# ---------------------------------------------------------------------------------------------
# Snapshot
# ---------------------------------------------------------------------------------------------

_SQL_STEPS = """
SELECT node.i, node.label, step.state, step.need, step.deferred, step.defer_count, step._holding,
       node.detached, node.creator, step._safe, step._safe_ignoring_hold, step._implied_need,
       step._ready, step._has_hash,
       EXISTS (SELECT 1 FROM step_hash WHERE step_hash.node = step.node),
       step._check_safe, step._check_after, step._check_ready, step.duration, step._tail_time
FROM step JOIN node ON node.i = step.node ORDER BY node.i
"""
_SQL_RESOURCES = "SELECT node, name, units FROM step_resource ORDER BY node, name"
_SQL_FILES = """
SELECT node.i, node.label, file.state, node.detached, node.creator, file.hash IS NOT NULL
FROM file JOIN node ON node.i = file.node ORDER BY node.i
"""
_SQL_OTHERS = """
SELECT i, kind, label, detached, creator FROM node WHERE kind IN ('root', 'st') ORDER BY i
"""
_SQL_DEPS = """
SELECT source, sink, EXISTS (SELECT 1 FROM dynamic_dep WHERE dynamic_dep.i = dependency.i)
FROM dependency ORDER BY source, sink
"""


def _whole(value: float) -> int:
    value = float(value)
    assert value.is_integer(), f"non-integer duration/tail time: {value!r}"
    return int(value)


def snapshot(sim: "Sim") -> dict:
    """Return the canonical dump of the scheduling tables (pure read, inside a transaction)."""
    db = sim.db
    resources: dict[int, list] = {}
    for node, name, units in db.execute(_SQL_RESOURCES):
        resources.setdefault(node, []).append([name, units])
    steps = []
    for row in db.execute(_SQL_STEPS):
        (i, label, state, need, deferred, defer_count, holding, detached, creator, safe, safe_nh,
         ineed, ready, has_hash, hash_stored, chk_safe, chk_after, chk_ready, duration, tail) = row
        steps.append({
            "key": i, "label": label, "state": state, "need": need, "deferred": int(deferred),
            "defer_count": defer_count, "holding": holding, "detached": int(detached),
            "creator": creator, "safe": int(safe), "safe_nh": int(safe_nh), "ineed": ineed,
            "ready": int(ready), "has_hash": int(has_hash), "hash_stored": int(hash_stored),
            "chk_safe": int(chk_safe), "chk_after": int(chk_after), "chk_ready": int(chk_ready),
            "duration": _whole(duration), "tail": _whole(tail),
            "resources": resources.get(i, []),
        })
    files = [
        {"key": i, "label": label, "state": state, "detached": int(detached), "creator": creator,
         "hash": int(has)}
        for i, label, state, detached, creator, has in db.execute(_SQL_FILES)
    ]
    others = [
        {"key": i, "kind": kind, "label": label, "detached": int(detached), "creator": creator}
        for i, kind, label, detached, creator in db.execute(_SQL_OTHERS)
    ]
    deps = [{"src": src, "snk": snk, "dyn": int(dyn)} for src, snk, dyn in db.execute(_SQL_DEPS)]
    targets = [row[0] for row in db.execute("SELECT path FROM target_path ORDER BY path")]
    target_dirs = [
        [path, upper]
        for path, upper in db.execute("SELECT path, upper FROM target_dir ORDER BY path")
    ]
    avail = [
        [name, units]
        for name, units in db.execute("SELECT name, units FROM available_resource ORDER BY name")
    ]
    return {
        "steps": steps, "files": files, "others": others, "deps": deps, "targets": targets,
        "target_dirs": target_dirs, "avail": avail,
        "threshold": sim.wf.need_threshold.value, "defer_cap": sim.wf.defer_cap,
        "draining": bool(sim.sched.draining),
    }


def with_before(events):
    """Iterate over events with ``before`` filled in from the previous event's ``after``."""
    prev = None
    for ev in events:
        if ev.get("before") is None and prev is not None:
            ev = dict(ev)
            ev["before"] = prev
        prev = ev["after"]
        yield ev


# ---------------------------------------------------------------------------------------------
# Instrumented scheduler (no behaviour change: one optional callback before _get_next_step)
# ---------------------------------------------------------------------------------------------


@attrs.define
class _HookedScheduler(Scheduler):
    pre_select_hook: Any = attrs.field(init=False, default=None)

    def _get_next_step(self):
        hook = self.pre_select_hook
        if hook is not None:
            hook()
        return Scheduler._get_next_step(self)


# ---------------------------------------------------------------------------------------------
# Plan generation
# ---------------------------------------------------------------------------------------------


def _fh(path: str, salt: int = 0) -> FileHash:
    digest = hashlib.sha256(f"{path}#{salt}".encode()).digest()
    return FileHash(digest, 0o644, 1.0, len(path) ** 2 + salt, len(path))


def _step_hash(label: str, salt: int = 0) -> StepHash:
    inp = hashlib.sha256(f"inp:{label}#{salt}".encode()).digest()
    out = hashlib.sha256(f"out:{label}#{salt}".encode()).digest()
    return StepHash(inp, None, out, None)


class Plan:
    """The scripted programs of all steps, keyed by label, plus registries used to wire them.

    A program is ``{"label", "planner", "actions", "p_fail", "always_defer", "leak_hold", "runs",
    "successes"}`` where actions are lists: ``["static", [paths]]``, ``["define", spec]``,
    ``["amend", {"inp", "out", "vol"}]``, ``["hold"]``, ``["release"]``.
    """

    def __init__(self, rng: random.Random):
        self.rng = rng
        self.programs: dict[str, dict] = {}
        self.outputs: dict[str, dict] = {}  # path -> {"label", "need", "ord"}
        self.statics: list[str] = []
        self.order: dict[str, int] = {}
        self.nstep = 0
        self.npath = 0
        # scripted plans (harness/sched_families.py): programs carry "versions" (list of action lists,
        # selected by prog["version"]) and "fail_versions"; `phases` lists what happens between the build
        # phases ({"restart", "targets", "dirs", "resources", "edits", "edited", "versions"}); nothing
        # is mutated at random and the history ends when the script does
        self.scripted = False
        self.phases: list[dict] = []

    # -- naming

    def new_label(self, prefix: str) -> str:
        self.nstep += 1
        label = f"{prefix}{self.nstep}"
        self.order[label] = self.nstep
        return label

    def new_path(self, kind: str, dirs=DIRS_OUT) -> str:
        self.npath += 1
        return f"{self.rng.choice(dirs)}/{kind}{self.npath}.txt"

    # -- programs

    def leaf_program(self, label: str, actions=None, **kw) -> dict:
        prog = {
            "label": label, "planner": False, "actions": list(actions or []), "p_fail": 0.0,
            "always_defer": False, "leak_hold": False, "runs": 0, "successes": 0,
        }
        prog.update(kw)
        return prog

    def mkdef(self, label, inp=(), out=(), vol=(), need=DEFAULT, resources=None, duration=None,
              program=None) -> list:
        rng = self.rng
        if duration is None and rng.random() < 0.35:
            duration = float(rng.randint(1, 5))
        for path in out:
            self.outputs[path] = {"label": label, "need": need, "ord": self.order[label]}
        if program is None:
            program = self.leaf_program(label)
            if rng.random() < 0.08:
                program["p_fail"] = 0.6
        self.programs[label] = program
        spec = {
            "label": label, "inp": sorted(inp), "out": sorted(out), "vol": sorted(vol),
            "need": need, "resources": resources, "duration": duration,
        }
        return ["define", spec]

    def gen_planner(self, label: str, depth: int) -> dict:
        rng = self.rng
        prog = {
            "label": label, "planner": True, "actions": [], "p_fail": 0.0, "always_defer": False,
            "leak_hold": False, "runs": 0, "successes": 0, "depth": depth,
        }
        self.programs[label] = prog
        nstatic = rng.randint(2, 3) if depth == 0 else rng.randint(1, 2)
        statics = [self.new_path("s", DIRS_STATIC) for _ in range(nstatic)]
        self.statics.extend(statics)
        prog["statics"] = statics
        prog["actions"].append(["static", list(statics)])
        nmotif = rng.randint(2, 4) if depth == 0 else rng.randint(1, 2)
        for _ in range(nmotif):
            prog["actions"].extend(self.gen_motif(statics, depth))
        self.add_holds(prog)
        if rng.random() < 0.05:
            prog["p_fail"] = 0.5
        return prog

    def add_holds(self, prog: dict) -> None:
        rng = self.rng
        acts = prog["actions"]
        if rng.random() >= 0.5 or len(acts) < 2:
            return
        i = rng.randint(1, max(1, (len(acts) - 1) // 2))
        acts.insert(i, ["hold"])
        if rng.random() < 0.3:  # nested
            j = rng.randint(i + 1, len(acts))
            acts.insert(j, ["hold"])
            k = rng.randint(j + 1, len(acts))
            acts.insert(k, ["release"])
        if rng.random() < 0.15:
            prog["leak_hold"] = True  # the client dies before releasing
        else:
            k = rng.randint(i + 2, len(acts)) if len(acts) >= i + 2 else len(acts)
            acts.insert(k, ["release"])

    MOTIFS = (
        ("simple", 2.0), ("chain", 3.5), ("diamond", 1.0), ("orphan", 1.0), ("amend_opt", 3.5),
        ("amend_static", 2.4), ("undeclared", 0.6), ("resource", 1.5), ("planner", 1.6),
        ("volatile", 0.5), ("cross", 1.0), ("always_defer", 1.6), ("stuck_defer", 0.5),
        ("shared_opt", 2.5),
    )

    def gen_motif(self, statics: list[str], depth: int, only=None) -> list:
        rng = self.rng
        names = [n for n, _ in self.MOTIFS if only is None or n in only]
        weights = [w for n, w in self.MOTIFS if only is None or n in only]
        name = rng.choices(names, weights)[0]
        if name == "planner" and depth >= 2 and rng.random() < 0.6:
            name = "chain"
        if name == "planner" and depth >= 3:
            name = "simple"
        if name == "cross" and not self.outputs:
            name = "simple"
        return getattr(self, "_m_" + name)(statics, depth)

    def _opt_need(self, p_optional: float) -> int:
        return OPTIONAL if self.rng.random() < p_optional else DEFAULT

    def _m_simple(self, statics, depth):
        rng = self.rng
        inp = [rng.choice(statics)] if rng.random() < 0.8 else []
        return [self.mkdef(self.new_label("c"), inp, [self.new_path("o")],
                           need=self._opt_need(0.15))]

    def _m_chain(self, statics, depth):
        rng = self.rng
        nopt = 2 if rng.random() < 0.65 else 1
        defs = []
        prev = [rng.choice(statics)] if rng.random() < 0.7 else []
        for _ in range(nopt):
            out = self.new_path("o")
            defs.append(self.mkdef(self.new_label("p"), prev, [out], need=OPTIONAL))
            prev = [out]
        out = [self.new_path("o")] if rng.random() < 0.7 else []
        defs.append(self.mkdef(self.new_label("c"), prev, out, need=DEFAULT))
        if rng.random() < 0.3:
            defs.reverse()  # consumers declared before their producers
        return defs

    def _m_diamond(self, statics, depth):
        rng = self.rng
        x = self.new_path("o")
        y1 = self.new_path("o")
        y2 = self.new_path("o")
        defs = [self.mkdef(self.new_label("p"), [rng.choice(statics)], [x], need=OPTIONAL)]
        defs.append(self.mkdef(self.new_label("p"), [x], [y1], need=OPTIONAL))
        defs.append(self.mkdef(self.new_label("m"), [x], [y2], need=self._opt_need(0.5)))
        defs.append(self.mkdef(self.new_label("c"), [y1, y2], [self.new_path("o")], need=DEFAULT))
        return defs

    def _m_orphan(self, statics, depth):
        rng = self.rng
        return [self.mkdef(self.new_label("p"), [rng.choice(statics)], [self.new_path("o")],
                           need=OPTIONAL)]

    def _m_amend_opt(self, statics, depth):
        rng = self.rng
        defs = []
        prev = []
        if rng.random() < 0.4:
            w = self.new_path("o")
            defs.append(self.mkdef(self.new_label("p"), [rng.choice(statics)], [w], need=OPTIONAL))
            prev = [w]
        x = self.new_path("o")
        defs.append(self.mkdef(self.new_label("p"), prev, [x], need=OPTIONAL))
        label = self.new_label("c")
        actions = [["amend", {"inp": [x], "out": [], "vol": []}]]
        if rng.random() < 0.3:
            actions.append(["amend", {"inp": [], "out": [self.new_path("o")], "vol": []}])
        if rng.random() < 0.45:
            actions.append(["amend", {"inp": [rng.choice(statics)], "out": [], "vol": []}])
        rng.shuffle(actions)
        out = [self.new_path("o")] if rng.random() < 0.6 else []
        inp = [rng.choice(statics)] if rng.random() < 0.8 else []
        defs.append(self.mkdef(label, inp, out, need=DEFAULT,
                               program=self.leaf_program(label, actions)))
        if rng.random() < 0.3:
            defs.reverse()
        return defs

    def _m_shared_opt(self, statics, depth):
        """One OPTIONAL output with several consumers of different need: an OPTIONAL consumer that
        nothing needs (initial input), sometimes a second one, and a DEFAULT consumer that amends it
        (or takes it as an initial input). Program mutations (drop_amend, inputs, drop) later make the
        higher-need consumer lose its edge while the lower-need one stays."""
        rng = self.rng
        x = self.new_path("o")
        defs = [self.mkdef(self.new_label("p"), [rng.choice(statics)] if rng.random() < 0.8 else [], [x],
                           need=OPTIONAL)]
        for _ in range(1 if rng.random() < 0.7 else 2):
            out = [self.new_path("o")] if rng.random() < 0.7 else []
            defs.append(self.mkdef(self.new_label("m"), [x], out, need=OPTIONAL))
        label = self.new_label("c")
        out = [self.new_path("o")] if rng.random() < 0.6 else []
        if rng.random() < 0.7:
            actions = [["amend", {"inp": [x], "out": [], "vol": []}]]
            defs.append(self.mkdef(label, [rng.choice(statics)], out, need=DEFAULT,
                                   program=self.leaf_program(label, actions)))
        else:
            defs.append(self.mkdef(label, [x, rng.choice(statics)], out, need=DEFAULT))
        rng.shuffle(defs)
        return defs

    def _m_amend_static(self, statics, depth):
        rng = self.rng
        label = self.new_label("c")
        actions = [["amend", {"inp": [rng.choice(statics)], "out": [], "vol": []}]]
        return [self.mkdef(label, [rng.choice(statics)], [self.new_path("o")], need=DEFAULT,
                           program=self.leaf_program(label, actions))]

    def _m_undeclared(self, statics, depth):
        return [self.mkdef(self.new_label("c"), [self.new_path("u")], [self.new_path("o")],
                           need=DEFAULT)]

    def _m_resource(self, statics, depth):
        rng = self.rng
        defs = []
        for _ in range(rng.randint(1, 2)):
            res = rng.choice([{"r1": 1}, {"r1": 2}, {"r1": 2}, {"r1": 3}, {"r2": 1},
                              {"r1": 1, "r2": 1}, {"rX": 1}])
            defs.append(self.mkdef(self.new_label("c"), [rng.choice(statics)],
                                   [self.new_path("o")], need=DEFAULT, resources=dict(res)))
        return defs

    def _m_planner(self, statics, depth):
        rng = self.rng
        label = self.new_label("q")
        need = PLAN if rng.random() < 0.2 else DEFAULT
        program = self.gen_planner(label, depth + 1)
        return [self.mkdef(label, [rng.choice(statics)], [], need=need, program=program)]

    def _m_volatile(self, statics, depth):
        rng = self.rng
        return [self.mkdef(self.new_label("c"), [rng.choice(statics)], [self.new_path("o")],
                           [self.new_path("v")], need=DEFAULT)]

    def _m_cross(self, statics, depth):
        rng = self.rng
        path = rng.choice(sorted(self.outputs))
        return [self.mkdef(self.new_label("c"), [path], [self.new_path("o")], need=DEFAULT)]

    def _m_always_defer(self, statics, depth):
        rng = self.rng
        x = self.new_path("o")
        defs = [self.mkdef(self.new_label("p"), [], [x], need=self._opt_need(0.5))]
        label = self.new_label("c")
        actions = [["amend", {"inp": [x], "out": [], "vol": []}]]
        program = self.leaf_program(label, actions, always_defer=True)
        defs.append(self.mkdef(label, [rng.choice(statics)], [], need=DEFAULT, program=program))
        return defs

    def _m_stuck_defer(self, statics, depth):
        rng = self.rng
        label = self.new_label("c")
        actions = [["amend", {"inp": [self.new_path("u")], "out": [], "vol": []}]]
        return [self.mkdef(label, [rng.choice(statics)], [self.new_path("o")], need=DEFAULT,
                           program=self.leaf_program(label, actions))]

    # -- mutation (an "edited plan" between two runs of the same step)

    def mutate(self, prog: dict) -> str | None:
        rng = self.rng
        acts = prog["actions"]
        if not prog["planner"]:
            amends = [a for a in acts if a[0] == "amend"]
            kinds = ["drop_amend"] * 3 if amends else []
            kinds += ["add_amend", "p_fail"]
            kind = rng.choice(kinds)
            if kind == "drop_amend":
                acts.remove(rng.choice(amends))
                prog["always_defer"] = False
            elif kind == "add_amend":
                pool = [p for p, info in sorted(self.outputs.items())
                        if info["ord"] < self.order.get(prog["label"], 0)]
                pool = pool or list(self.statics)
                acts.append(["amend", {"inp": [rng.choice(pool)], "out": [], "vol": []}])
            else:
                prog["p_fail"] = 0.0 if prog["p_fail"] > 0 else 0.5
            return kind
        defs = [a for a in acts if a[0] == "define"]
        statics = prog.get("statics") or list(self.statics[:1])
        kinds = ["add", "add"]
        if defs:
            kinds += ["drop", "drop", "drop", "need", "need", "inputs", "resources", "duration"]
        kinds.append("static")
        kind = rng.choice(kinds)
        if kind == "drop":
            opt_out = {p for p, info in self.outputs.items() if info["need"] == OPTIONAL}
            pref = [a for a in defs if any(p in opt_out for p in a[1]["inp"])]
            victim = rng.choice(pref) if pref and rng.random() < 0.7 else rng.choice(defs)
            acts.remove(victim)
        elif kind == "add":
            new = self.gen_motif(statics, prog.get("depth", 0) + 1,
                                 only=("simple", "chain", "orphan", "amend_opt", "cross"))
            pos = rng.randint(1, len(acts))
            acts[pos:pos] = new
        elif kind == "need":
            spec = rng.choice(defs)[1]
            if spec["need"] != PLAN:
                spec["need"] = DEFAULT if spec["need"] == OPTIONAL else OPTIONAL
                for path in spec["out"]:
                    if path in self.outputs:
                        self.outputs[path]["need"] = spec["need"]
        elif kind == "inputs":
            spec = rng.choice(defs)[1]
            extra = [s for s in statics if s not in spec["inp"]]
            removable = [s for s in spec["inp"] if s in statics]
            if extra and (not removable or rng.random() < 0.5):
                spec["inp"] = sorted([*spec["inp"], rng.choice(extra)])
            elif removable:
                spec["inp"] = sorted(p for p in spec["inp"] if p != removable[0])
        elif kind == "resources":
            spec = rng.choice(defs)[1]
            spec["resources"] = None if spec["resources"] else {"r1": rng.randint(1, 3)}
        elif kind == "duration":
            spec = rng.choice(defs)[1]
            spec["duration"] = float(rng.randint(1, 6))
        elif kind == "static":
            for act in acts:
                if act[0] == "static":
                    if len(act[1]) > 1 and rng.random() < 0.5:
                        act[1].remove(rng.choice(act[1]))
                    else:
                        path = self.new_path("s", DIRS_STATIC)
                        act[1].append(path)
                        self.statics.append(path)
                        prog.setdefault("statics", []).append(path)
                    break
        return kind


def gen_plan(rng: random.Random) -> Plan:
    """Generate the programs of a complete initial workflow (boot step = ``./plan.py``)."""
    plan = Plan(rng)
    plan.order[BOOT_LABEL] = 0
    plan.gen_planner(BOOT_LABEL, 0)
    return plan


def choose_targets(rng: random.Random, plan: Plan, p_none: float = 0.5):
    """Return ``(targets, target_dirs)`` as sorted lists of str (possibly both empty)."""
    if rng.random() < p_none:
        return [], []
    targets: list[str] = []
    dirs: list[str] = []
    outs = sorted(plan.outputs)
    for _ in range(rng.choice((0, 1, 1, 2))):
        r = rng.random()
        if r < 0.03 and plan.statics:
            targets.append(rng.choice(plan.statics))  # forbidden target
        elif r < 0.15 or not outs:
            targets.append(f"{rng.choice(DIRS_OUT)}/nonexistent{rng.randint(1, 3)}.txt")
        else:
            targets.append(rng.choice(outs))
    for _ in range(rng.choice((0, 0, 1, 1, 2))):
        dirs.append(rng.choice(DIR_TARGETS))
    if not targets and not dirs:
        if outs and rng.random() < 0.5:
            targets.append(rng.choice(outs))
        else:
            dirs.append(rng.choice(DIR_TARGETS))
    return sorted(set(targets)), sorted(set(dirs))


# ---------------------------------------------------------------------------------------------
# The simulator
# ---------------------------------------------------------------------------------------------


class _JobRec:
    __slots__ = ("job", "step", "kind", "phase", "prog", "actions", "pc", "wants_defer", "abort",
                 "hold_depth", "defined")

    def __init__(self, job, kind):
        self.job = job
        self.step = job.step
        self.kind = kind  # "run" | "check" | "validate"
        self.phase = "new"  # "new" -> "acts" -> finished (removed)
        self.prog = None
        self.actions = []
        self.pc = 0
        self.wants_defer = False
        self.abort = False
        self.hold_depth = 0
        self.defined = []


async def _null_reporter(*args, **kwargs):
    return None


class Sim:
    def __init__(self, rng: random.Random, *, targets=(), target_dirs=(),
                 resources: str | None = None, defer_cap: int = 3, njob: int | None = None,
                 keep_going: bool | None = None, plan: Plan | None = None,
                 check_before: bool = False):
        self.rng = rng
        self.plan = plan if plan is not None else gen_plan(rng)
        self.targets = sorted(str(p) for p in targets)
        self.target_dirs = sorted(str(p) for p in target_dirs)
        self.resources = resources
        self.defer_cap = defer_cap
        self.njob = njob if njob is not None else rng.randint(1, 3)
        self.keep_going = keep_going if keep_going is not None else rng.random() < 0.6
        self.check_before = check_before
        self.events: list[dict] = []
        self.stats: Counter = Counter()
        self.jobs: list[_JobRec] = []
        self.finished = False
        self.woken = True
        self.last_tick_none = False
        self.queue: list = []  # scripted operations of finalize / new phase
        self.clock = 0
        self.dispatched_at_phase_start = 0
        self.nphase = 1
        self.salt = 0
        self.last_snap: dict | None = None
        self.last_validate_unchanged: dict[int, bool] = {}
        self._stack = contextlib.ExitStack()
        self.db: DBSession | None = None
        self.wf: Workflow | None = None
        self.sched: _HookedScheduler | None = None

    # -- lifecycle

    async def start(self):
        self.db = self._stack.enter_context(DBSession.open(":memory:"))
        self.wf = Workflow(
            self.db, dir_queue=None,
            targets=frozenset(Path(p) for p in self.targets),
            target_dirs=frozenset(Path(p) for p in self.target_dirs),
            defer_cap=self.defer_cap,
        )
        await self.wf.initialize()
        self.sched = _HookedScheduler(self.wf, db=self.db)
        await self.sched.initialize(self.resources)

        def boot():
            self._confirm_static(self.wf.root, ["plan.py"])
            self.wf.define_step(self.wf.root, BOOT_LABEL, inp_paths=["plan.py"], need=Need.PLAN,
                                _safe=True)
            return {}

        await self._event("boot", {}, boot)
        if self.targets:
            self.stats["shape.target_phase"] += 1
        if self.target_dirs:
            self.stats["shape.dir_target_phase"] += 1

    def close(self):
        self._stack.close()

    async def snap(self) -> dict:
        async with self.db:
            return snapshot(self)

    # -- helpers

    def _confirm_static(self, creator, paths):
        unconfirmed = self.wf.declare_static_files(creator, paths)
        self.wf.update_file_hashes(
            {p: _fh(p) for p in unconfirmed}, cause=HashUpdateCause.CONFIRMED
        )

    def _next_salt(self) -> int:
        self.salt += 1
        return self.salt

    def _run_started(self, step_i: int) -> None:
        """`Scheduler.record_run_started` with a logical clock."""
        self.sched.run_counter += 1
        self.clock += 1
        self.sched.start_times[step_i] = self.clock

    def _run_stopped(self, step_i: int, *, succeeded: bool) -> None:
        """`Scheduler.record_run_stopped` with a logical clock."""
        sched = self.sched
        sched.start_times.pop(step_i, None)
        self.clock += 1
        if succeeded:
            sched.stop_times[step_i] = self.clock
        if len(sched.start_times) == 0:
            sched.stop_times.clear()
        else:
            oldest_start = min(sched.start_times.values())
            for other_step_i, stop_time in list(sched.stop_times.items()):
                if stop_time < oldest_start:
                    del sched.stop_times[other_step_i]

    async def _event(self, op: str, args: dict, fn, *, is_async: bool = False):
        """Run one operation (``fn`` inside one transaction, or ``await fn()`` which manages its
        own transactions), record the event and return it."""
        ev: dict = {"op": op, "args": args, "before": None}
        if self.check_before and self.last_snap is not None:
            now = await self.snap()
            assert now == self.last_snap, f"state changed between events before {op}"
        extra = None
        try:
            if is_async:
                extra = await fn()
            else:
                async with self.db:
                    extra = fn()
        except GraphError as exc:
            ev["rejected"] = f"{type(exc).__name__}: {exc}"
            self.stats["rejected"] += 1
        except Exception:  # noqa: BLE001
            ev["error"] = traceback.format_exc()
            self.finished = True
            self.stats["error"] += 1
        if extra:
            ev.update(extra)
        ev["after"] = await self.snap()
        self.last_snap = ev["after"]
        self.events.append(ev)
        self.stats["op." + op] += 1
        return ev

    # -- main loop

    async def step_once(self) -> bool:
        """Perform one event. Return False when the history cannot (or must not) continue."""
        if self.finished:
            return False
        if self.queue:
            fn = self.queue.pop(0)
            await fn()
            return not self.finished
        rng = self.rng
        cands: list[tuple[str, Any]] = []
        weights: list[float] = []
        if len(self.jobs) < self.njob:
            if self.woken or not self.last_tick_none:
                cands.append(("tick", None))
                weights.append(3.0)
            elif self.jobs:
                cands.append(("tick", None))
                weights.append(0.3)
        for jr in self.jobs:
            cands.append(("job", jr))
            weights.append(1.0)
        if not cands:
            # Nothing runs and the last tick returned None: the build phase is over.
            self._plan_finalize()
            return await self.step_once()
        kind, jr = rng.choices(cands, weights)[0]
        if kind == "tick":
            await self._tick()
        else:
            await self._job_event(jr)
        return not self.finished

    # -- tick

    async def _tick(self):
        holder: dict = {}

        def hook():
            holder["after_meta"] = snapshot(self)

        ev: dict = {"op": "tick", "args": {}, "before": None}
        if self.check_before and self.last_snap is not None:
            assert await self.snap() == self.last_snap
        self.sched.pre_select_hook = hook
        job = None
        try:
            job = await self.sched.pop_next_job()
        except Exception as exc:  # noqa: BLE001
            ev["error"] = traceback.format_exc()
            ev["exception"] = f"{type(exc).__name__}: {exc}"
            self.finished = True
            self.stats["error"] += 1
        finally:
            self.sched.pre_select_hook = None
        ev["after_meta"] = holder.get("after_meta")
        ev["after"] = await self.snap()
        self.last_snap = ev["after"]
        if job is None:
            ev["choice"] = None
            ev["new_state"] = None
            ev["job"] = None
            self.last_tick_none = True
            self.woken = False
            self.stats["tick.none"] += 1
        else:
            kind = (
                "validate" if isinstance(job, ValidateDynamicJob)
                else ("run" if job.step_hash is None else "check")
            )
            ev["choice"] = job.step.i
            ev["job"] = kind
            ev["new_state"] = next(
                (s["state"] for s in ev["after"]["steps"] if s["key"] == job.step.i), None
            )
            self.jobs.append(_JobRec(job, kind))
            self.last_tick_none = False
            self.stats["tick.dispatch"] += 1
            self.stats["job." + kind] += 1
        self.events.append(ev)
        self.stats["op.tick"] += 1
        if ev["after_meta"] is not None:
            self._shape_facts(ev)

    # -- job events

    def _finish_job(self, jr: _JobRec):
        self.sched.record_job_completed(jr.job)  # as Builder.handle_done_tasks
        self.jobs.remove(jr)
        self.woken = True

    async def _job_event(self, jr: _JobRec):
        if jr.kind == "check":
            await self._skip(jr)
        elif jr.kind == "validate":
            await self._validate(jr)
        elif jr.phase == "new":
            await self._start(jr)
        elif jr.phase.startswith("early_end"):
            await self._early_end(jr)
        else:
            await self._action(jr)

    def _reset_to_pending(self, step: Step):
        """`Executor._reset_step_to_pending` (body of its transaction)."""
        step.reset_for_rerun()
        step.delete_hash()
        step.set_state(StepState.PENDING)

    async def _skip(self, jr: _JobRec):
        rng = self.rng
        step = jr.step
        ok = rng.random() < 0.6 or self.plan.scripted
        prog = self.plan.programs.get(step.label)
        if prog is not None and prog.get("edited"):
            ok = False  # the script itself changed: the input digest must differ
        args = {"step": step.i, "ok": ok, "out_hashes": []}

        def fn():
            if ok:
                new_out = {}
                for rec in step.out_paths():
                    if rec.state == FileState.PLANNED or (
                        rec.state == FileState.OUTDATED and rng.random() < 0.5
                    ):
                        new_out[str(rec.path)] = _fh(rec.path, self._next_salt())
                args["out_hashes"] = sorted(new_out)
                self.wf.update_file_hashes(new_out, cause=HashUpdateCause.SUCCEEDED)
                step.mark_completed(jr.job.step_hash, False)
            else:
                self._reset_to_pending(step)
            return {}

        await self._event("skip", args, fn)
        self.stats["skip.ok" if ok else "skip.fail"] += 1
        self._finish_job(jr)

    async def _validate(self, jr: _JobRec):
        step = jr.step
        changed = self.rng.random() < 0.8 or self.last_validate_unchanged.get(step.i, False)
        prog = self.plan.programs.get(step.label)
        if prog is not None and prog.get("edited"):
            changed = True  # the script itself changed: the input digest must differ
        self.last_validate_unchanged[step.i] = not changed
        if not changed:
            self.stats["validate.unchanged"] += 1

        def fn():
            if changed:
                self._reset_to_pending(step)
            else:
                # validate_dynamic_job, "no relevant input changed": what the executor of the
                # repository does there (read from its source by the translator; PENDING and deferred
                # since d760e3e, D36: without the flag the same validation job is handed out for ever)
                state_name, deferred = _validate_unchanged_outcome()
                if deferred == "unusable_dynamic_input":
                    # the repair of D39: the flag is computed in this transaction by the repository's own
                    # Step.has_unusable_dynamic_input (its query is pinned by the translator)
                    deferred = bool(step.has_unusable_dynamic_input())
                step.set_state(StepState[state_name], deferred)
                args["deferred"] = bool(deferred)
            return {}

        args = {"step": step.i, "changed": changed}
        await self._event("validate", args, fn)
        self._finish_job(jr)

    def _program_for_run(self, label: str) -> dict:
        plan = self.plan
        prog = plan.programs.get(label)
        if prog is None:  # a label the plan does not know (cannot happen by construction)
            prog = plan.leaf_program(label)
            plan.programs[label] = prog
        edited = prog.pop("edited", False)
        if plan.scripted:
            if "versions" in prog:
                prog["actions"] = copy.deepcopy(prog["versions"][min(prog.get("version", 0), len(prog["versions"]) - 1)])
            prog["runs"] += 1
            return prog
        if edited == "drop_opt_amend":
            gone = set(prog.get("last_dyn_opt", []))
            keep = [a for a in prog["actions"] if not (a[0] == "amend" and gone & set(a[1]["inp"]))]
            if len(keep) != len(prog["actions"]):
                prog["actions"] = keep
                prog["always_defer"] = False
                self.stats["mutate.drop_amend"] += 1
        if prog["runs"] > 0:
            if edited == "drop_opt_amend":
                p = 0.0
            elif edited:
                p = 0.9
            elif prog["planner"]:
                p = 0.6 if prog["successes"] > 0 else 0.15
                if label == BOOT_LABEL and prog["successes"] > 0:
                    p = 0.8
            else:
                p = 0.5 if prog["successes"] > 0 else 0.0
            n = 0
            while self.rng.random() < p and n < 2:
                kind = plan.mutate(prog)
                self.stats[f"mutate.{kind}"] += 1
                n += 1
        prog["runs"] += 1
        return prog

    async def _start(self, jr: _JobRec):
        step = jr.step
        prog = self._program_for_run(step.label)
        jr.prog = prog
        jr.actions = copy.deepcopy(prog["actions"])
        first_boot = step.label == BOOT_LABEL and prog["successes"] == 0
        if (not self.plan.scripted and self.rng.random() < 0.03 and len(jr.job.inp_hashes) > 0
                and not first_boot):
            await self._early_fail(jr)
            return
        self._run_started(step.i)  # Executor.execute_job, before _new_run

        def fn():
            step.reset_for_rerun()
            return {}

        await self._event("start", {"step": step.i}, fn)
        jr.phase = "acts"

    async def _early_fail(self, jr: _JobRec):
        """`Executor._new_run` when input hashes changed unexpectedly (two transactions)."""
        rng = self.rng
        step = jr.step
        self._run_started(step.i)
        path = rng.choice(sorted(jr.job.inp_hashes))
        known = rng.random() < 0.5
        args = {"step": step.i, "inp_hashes": {path: known}}

        def fn1():
            # Only apply combinations the real transition table accepts (the state of the input
            # may have moved on since dispatch).
            row = self.db.execute(
                "SELECT file.state FROM file JOIN node ON node.i = file.node "
                "WHERE node.kind = 'file' AND node.label = ?", (path,)
            ).fetchone()
            if row is None or (HashUpdateCause.FAILED, FileState(row[0]), known) not in (
                _HASH_TRANSITIONS
            ):
                args["inp_hashes"] = {}
                return {}
            fh = _fh(path, self._next_salt()) if known else FileHash.unknown()
            self.wf.update_file_hashes({path: fh}, cause=HashUpdateCause.FAILED)
            return {}

        await self._event("early_fail", args, fn1)
        jr.phase = "early_end" if args["inp_hashes"] else "early_end_nodrain"

    async def _early_end(self, jr: _JobRec):
        """`Executor._finalize_failed_run` (second transaction of an early failure)."""
        step = jr.step

        def fn2():
            step.mark_completed(None, False)
            state = step.get_state()
            return {"interrupted_defer": False, "new_state": state.value}

        await self._event(
            "end",
            {"step": step.i, "kind": "early_fail", "cause": None, "out_hashes": {},
             "wants_defer": False, "stored_hash": False},
            fn2,
        )
        self._run_stopped(step.i, succeeded=False)
        # _report_run (FAIL tag) and _drain_for_unexpected_input_changes
        drain = jr.phase == "early_end" or not self.keep_going
        self.events[-1]["drain"] = drain
        if drain and "error" not in self.events[-1]:
            self.sched.draining = True
            self.events[-1]["after"]["draining"] = True
            self.last_snap = self.events[-1]["after"]
        self._finish_job(jr)

    async def _action(self, jr: _JobRec):
        # Skip over actions that the client library would never send.
        while jr.pc < len(jr.actions):
            act = jr.actions[jr.pc]
            if jr.abort and act[0] != "release":
                jr.pc += 1
                continue
            if act[0] == "release" and jr.hold_depth == 0:
                jr.pc += 1
                continue
            break
        if jr.pc >= len(jr.actions):
            # A crashed/aborted client still leaves its `with hold():` blocks (finally: release),
            # unless the program says that the process died without doing so.
            if jr.hold_depth > 0 and not jr.prog["leak_hold"]:
                await self._hold_release(jr, "release")
                return
            await self._end(jr)
            return
        act = jr.actions[jr.pc]
        jr.pc += 1
        name = act[0]
        if name == "static":
            await self._static(jr, act[1])
        elif name == "define":
            await self._define(jr, act[1])
        elif name == "amend":
            await self._amend(jr, act[1])
        elif name in ("hold", "release"):
            await self._hold_release(jr, name)
        elif name == "wait":
            return  # the command is busy: this turn passes without a request to the director
        else:
            raise AssertionError(f"unknown action {name}")

    def _after_job_rpc(self, jr: _JobRec, ev: dict):
        if "rejected" in ev:
            jr.abort = True  # the exception propagates to the client, which dies

    async def _static(self, jr: _JobRec, paths):
        step = jr.step

        def fn():
            self._confirm_static(step, paths)
            return {}

        ev = await self._event("static", {"step": step.i, "paths": sorted(paths)}, fn)
        self._after_job_rpc(jr, ev)
        self.woken = True  # hash jobs were submitted

    async def _define(self, jr: _JobRec, spec: dict):
        step = jr.step
        wf = self.wf
        label = spec["label"]
        args = {
            "creator": step.i, "label": label, "inp": list(spec["inp"]), "out": list(spec["out"]),
            "vol": list(spec["vol"]), "need": spec["need"],
            "resources": dict(spec["resources"]) if spec["resources"] else None,
            "duration": spec["duration"],
        }

        def fn():
            old, detached = wf.find_and_detached(Step, label)
            recycle = "new"
            if old is not None and detached:
                full = old.can_recycle(
                    inp_paths=args["inp"], env_deps=[], out_paths=args["out"],
                    vol_paths=args["vol"],
                )
                recycle = "full" if full else "partial"
            wf.define_step(
                step, label, inp_paths=args["inp"], out_paths=args["out"], vol_paths=args["vol"],
                need=Need(args["need"]), resources=args["resources"], duration=args["duration"],
            )
            child = wf.find(Step, label)
            return {"node": child.i, "recycle": recycle}

        ev = await self._event("define", args, fn)
        self._after_job_rpc(jr, ev)
        if "rejected" not in ev and "error" not in ev:
            jr.defined.append(label)
            self.stats["define." + ev["recycle"]] += 1
            if ev["recycle"] == "full":
                self.stats["shape.recycled_child"] += 1
        self.woken = True

    async def _amend(self, jr: _JobRec, spec: dict):
        step = jr.step
        inp = sorted(spec["inp"])
        if jr.hold_depth > 0:
            inp = []  # api.amend raises AmendWhileHoldingError client side
        out = sorted(spec["out"])
        vol = sorted(spec["vol"])
        if not (inp or out or vol):
            await self._action(jr)
            return
        force = bool(jr.prog["always_defer"]) and bool(inp)
        rc = (lambda producer_i, consumer_i: True) if force else self.sched.ran_concurrently
        args = {"step": step.i, "inp": inp, "out": out, "vol": vol, "force_unfresh": force}
        before = self.last_snap

        def fn():
            unavailable, unfresh, _to_check = self.wf.amend_step(
                step, inp_paths=inp, out_paths=out, vol_paths=vol, ran_concurrently=rc
            )
            return {
                "unavailable": sorted(str(p) for p in unavailable),
                "unfresh": sorted(str(p) for p in unfresh),
            }

        ev = await self._event("amend", args, fn)
        self._after_job_rpc(jr, ev)
        if ev.get("unavailable") or ev.get("unfresh"):
            jr.wants_defer = True  # Executor.defer
            jr.abort = True  # api.amend raises InputNotFoundError
        if "unavailable" in ev and before is not None:
            self._amend_facts(step.i, before, ev["after"])

    async def _hold_release(self, jr: _JobRec, name: str):
        step = jr.step

        def fn():
            if name == "hold":
                step.hold()
            else:
                step.release()
            return {}

        ev = await self._event(name, {"step": step.i}, fn)
        if "rejected" not in ev and "error" not in ev:
            jr.hold_depth += 1 if name == "hold" else -1
        else:
            jr.hold_depth = 0
            self._after_job_rpc(jr, ev)
        if name == "release":
            self.woken = True

    async def _end(self, jr: _JobRec):
        rng = self.rng
        step = jr.step
        prog = jr.prog
        wants_defer = jr.wants_defer
        failed = jr.abort and not wants_defer
        if not failed and not wants_defer and rng.random() < prog["p_fail"]:
            failed = True
        if not wants_defer and prog.get("version", 0) in prog.get("fail_versions", ()):
            failed = True
        success = not failed and not wants_defer
        kind = "success" if success else ("defer" if wants_defer else "fail")
        args = {
            "step": step.i, "kind": kind,
            "cause": (HashUpdateCause.SUCCEEDED if success else HashUpdateCause.FAILED).value,
            "out_hashes": {}, "wants_defer": wants_defer, "stored_hash": success,
        }

        def fn():
            hashes = {}
            for rec in sorted(step.out_paths(), key=lambda r: r.path):
                path = str(rec.path)
                if success:
                    if rec.state == FileState.PLANNED or (
                        rec.state == FileState.OUTDATED and rng.random() < 0.6
                    ):
                        hashes[path] = _fh(path, self._next_salt())
                else:
                    r = rng.random()
                    if r < 0.35:
                        hashes[path] = _fh(path, self._next_salt())
                    elif r < 0.5:
                        hashes[path] = FileHash.unknown()
            args["out_hashes"] = {p: not fh.is_unknown for p, fh in hashes.items()}
            cause = HashUpdateCause.SUCCEEDED if success else HashUpdateCause.FAILED
            self.wf.update_file_hashes(hashes, cause=cause)
            new_hash = _step_hash(step.label, self._next_salt()) if success else None
            interrupted = step.mark_completed(new_hash, wants_defer)
            self._run_stopped(step.i, succeeded=new_hash is not None)
            state = step.get_state()
            return {"interrupted_defer": bool(interrupted), "new_state": state.value}

        ev = await self._event("end", args, fn)
        if "error" in ev:
            return
        interrupted = ev.get("interrupted_defer", False)
        tag_fail = interrupted or (not wants_defer and not success)
        drain = tag_fail and not self.keep_going  # Executor._report_run
        ev["drain"] = bool(drain)
        if drain:
            self.sched.draining = True
            ev["after"]["draining"] = True
            self.last_snap = ev["after"]
        self.stats["end." + kind] += 1
        if wants_defer:
            self.stats["shape.defer"] += 1
        if interrupted:
            self.stats["shape.cap_exceeded"] += 1
        if success:
            prog["successes"] += 1
            self._end_facts(jr, ev["after"])
        self._finish_job(jr)

    # -- finalize and new phases

    def _plan_finalize(self):
        self.queue.append(self._phase_end)

    def _cleanup_allowed(self, snap: dict) -> bool:
        if snap["targets"] or snap["target_dirs"] or snap["draining"]:
            return False
        for s in snap["steps"]:
            if s["detached"]:
                continue
            if s["state"] == StepState.FAILED.value:
                return False
            if s["state"] == StepState.PENDING.value and s["ineed"] > snap["threshold"]:
                return False
        return True

    @staticmethod
    def _tbd(wf: Workflow) -> list:
        return [[str(p), "none" if h is None else "hash"] for p, h in sorted(wf.to_be_deleted.items())]

    async def _phase_end(self):
        async def fn():
            return {}

        ev = await self._event("phase_end", {"phase": self.nphase}, fn, is_async=True)
        cleanup = self._cleanup_allowed(ev["after"])
        ev["cleanup"] = cleanup
        if cleanup:
            self.queue.append(self._revert)
            self.queue.append(self._delete_detached)
        self.queue.append(self._build_completed)

    async def _revert(self):
        async def fn():
            await revert_optional_steps(self.wf, _null_reporter)
            tbd = self._tbd(self.wf)
            self.wf.to_be_deleted.clear()
            return {"to_be_deleted": tbd}

        await self._event("revert", {}, fn, is_async=True)

    async def _delete_detached(self):
        def fn():
            self.wf.delete_detached()
            tbd = self._tbd(self.wf)
            self.wf.to_be_deleted.clear()
            return {"to_be_deleted": tbd}

        await self._event("delete_detached", {}, fn)
        self.wf.to_be_deleted.clear()

    async def _build_completed(self):
        async def fn():
            await self.sched.build_completed()
            return {}

        await self._event("build_completed", {}, fn, is_async=True)
        if self.finished:
            return
        # Usually go on with a new phase; stop more readily after a phase in which nothing ran.
        idle = self.stats["tick.dispatch"] == self.dispatched_at_phase_start
        if self.plan.scripted:
            if self.plan.phases:
                self._plan_scripted_phase(self.plan.phases.pop(0))
            else:
                self.finished = True
        elif self.rng.random() < (0.6 if idle else 0.97):
            self._plan_new_phase()
        else:
            self.finished = True

    def _plan_new_phase(self):
        rng = self.rng
        snap = self.last_snap
        self.nphase += 1
        self.dispatched_at_phase_start = self.stats["tick.dispatch"]
        self.last_validate_unchanged.clear()
        restart = rng.random() < 0.6
        ops = []
        failed = [
            s["key"] for s in snap["steps"]
            if not s["detached"] and s["state"] == StepState.FAILED.value
        ]
        edits = self._choose_edits(snap, at_least_one=not failed)
        if restart:
            targets, dirs = self.targets, self.target_dirs
            resources = self.resources
            if rng.random() < 0.55:
                targets, dirs = choose_targets(rng, self.plan, p_none=0.35)
                if rng.random() < 0.15:
                    resources = None if resources else RESOURCES
            ops.append(lambda: self._set_targets(targets, dirs, resources))
            if snap["draining"]:
                ops.append(self._undrain)
            for key in failed:
                ops.append(lambda key=key: self._mark_pending(key))
            for path, known in edits:
                ops.append(lambda path=path, known=known: self._external(path, known))
            ops.append(self._reconcile)
        else:
            for path, known in edits:
                ops.append(lambda path=path, known=known: self._external(path, known))
            for key in failed:
                ops.append(lambda key=key: self._mark_pending(key))
            if snap["draining"]:
                ops.append(self._undrain)
        self.queue.extend(ops)
        self.woken = True
        self.last_tick_none = False
        self.stats["phase.restart" if restart else "phase.watch"] += 1

    def _plan_scripted_phase(self, ph: dict):
        """The operations between two build phases of a scripted plan, in the order of a restart
        (`stepup build` again: targets, failed steps, changed files, reconcile_targets) or of the watch
        phase (changed files, failed steps)."""
        snap = self.last_snap
        self.nphase += 1
        self.dispatched_at_phase_start = self.stats["tick.dispatch"]
        self.last_validate_unchanged.clear()
        restart = bool(ph.get("restart", True))
        failed = [
            s["key"] for s in snap["steps"]
            if not s["detached"] and s["state"] == StepState.FAILED.value
        ]
        for label, idx in sorted(ph.get("versions", {}).items()):
            self.plan.programs[label]["version"] = idx
        for label in ph.get("edited", ()):
            self.plan.programs[label]["edited"] = True
        edits = [(path, bool(known)) for path, known in ph.get("edits", ())]
        ops = []
        if restart:
            targets = sorted(ph.get("targets", self.targets))
            dirs = sorted(ph.get("dirs", self.target_dirs))
            resources = ph.get("resources", self.resources)
            ops.append(lambda: self._set_targets(targets, dirs, resources))
            if snap["draining"]:
                ops.append(self._undrain)
            for key in failed:
                ops.append(lambda key=key: self._mark_pending(key))
            for path, known in edits:
                ops.append(lambda path=path, known=known: self._external(path, known))
            ops.append(self._reconcile)
        else:
            for path, known in edits:
                ops.append(lambda path=path, known=known: self._external(path, known))
            for key in failed:
                ops.append(lambda key=key: self._mark_pending(key))
            if snap["draining"]:
                ops.append(self._undrain)
        self.queue.extend(ops)
        self.woken = True
        self.last_tick_none = False
        self.stats["phase.restart" if restart else "phase.watch"] += 1

    def _choose_edits(self, snap: dict, at_least_one: bool):
        rng = self.rng
        steps = {s["key"]: s for s in snap["steps"]}
        consumers: dict[int, list[int]] = {}
        for dep in snap["deps"]:
            if dep["snk"] in steps:
                consumers.setdefault(dep["src"], []).append(dep["snk"])
        dyn_sinks = {dep["snk"] for dep in snap["deps"] if dep["dyn"] and dep["snk"] in steps}
        dyn_sources = {dep["src"] for dep in snap["deps"] if dep["dyn"] and dep["snk"] in steps}
        cands = []
        weights = []
        for f in snap["files"]:
            if f["detached"]:
                continue
            state = f["state"]
            if state not in (FileState.CONFIRMED.value, FileState.MISSING.value,
                             FileState.BUILT.value, FileState.OUTDATED.value):
                continue
            cons = consumers.get(f["key"], [])
            w = 1.0 + (1.5 if cons else 0.0)
            if any(c in dyn_sinks for c in cons):
                w += 3.0
            if f["key"] in dyn_sources:
                w += 5.0
            if f["label"] == "plan.py":
                continue
            cands.append(f)
            weights.append(w)
        edits: list[tuple[str, bool]] = []
        if rng.random() < 0.6:
            edits.append(("plan.py", True))
        edits.extend(self._targeted_edits(snap, steps))
        n = rng.choice((0, 1, 1, 2, 3))
        if at_least_one and not edits and n == 0:
            n = 1
        chosen = set()
        for _ in range(n):
            if not cands:
                break
            f = rng.choices(cands, weights)[0]
            if f["label"] in chosen or any(f["label"] == e[0] for e in edits):
                continue
            chosen.add(f["label"])
            if f["state"] == FileState.MISSING.value:
                known = True
            elif f["key"] in dyn_sources and f["state"] == FileState.CONFIRMED.value:
                known = rng.random() < 0.35
            else:
                known = rng.random() < 0.7
            edits.append((f["label"], known))
        plan_ok = any(
            f["label"] == "plan.py" and not f["detached"]
            and f["state"] == FileState.CONFIRMED.value for f in snap["files"]
        )
        if not plan_ok:
            edits = [e for e in edits if e[0] != "plan.py"]
        return edits

    def _targeted_edits(self, snap: dict, steps: dict) -> list[tuple[str, bool]]:
        """Edits that emulate a user working on a step that amended its inputs: either the script
        of the step is edited such that it no longer amends the outputs of optional steps, or a
        static file that it amended is deleted (which leads to a ValidateDynamicJob)."""
        rng = self.rng
        files = {f["key"]: f for f in snap["files"]}
        edits: list[tuple[str, bool]] = []
        succeeded = [
            s for s in snap["steps"]
            if not s["detached"] and s["state"] == StepState.SUCCEEDED.value
        ]
        # (a) edit the script (= a CONFIRMED initial input) of a step that amended optional outputs
        cands = []
        for s in succeeded:
            prog = self.plan.programs.get(s["label"])
            if prog is None or not prog.get("last_dyn_opt"):
                continue
            inps = sorted(
                files[d["src"]]["label"] for d in snap["deps"]
                if d["snk"] == s["key"] and not d["dyn"] and d["src"] in files
                and not files[d["src"]]["detached"]
                and files[d["src"]]["state"] == FileState.CONFIRMED.value
            )
            if inps:
                cands.append((s["label"], inps))
        if cands and rng.random() < 0.8:
            label, inps = rng.choice(cands)
            edits.append((rng.choice(inps), True))
            self.plan.programs[label]["edited"] = "drop_opt_amend"
        # (b) delete a static file that is a dynamic input of a succeeded step
        cands = sorted({
            files[d["src"]]["label"] for d in snap["deps"]
            if d["dyn"] and d["snk"] in steps and d["src"] in files
            and steps[d["snk"]]["state"] == StepState.SUCCEEDED.value
            and not steps[d["snk"]]["detached"] and not files[d["src"]]["detached"]
            and files[d["src"]]["state"] == FileState.CONFIRMED.value
        })
        cands = [c for c in cands if not any(c == e[0] for e in edits)]
        if cands and rng.random() < 0.75:
            edits.append((rng.choice(cands), False))
        return edits

    async def _set_targets(self, targets, dirs, resources):
        changed = (list(targets), list(dirs)) != (self.targets, self.target_dirs)
        self.targets = list(targets)
        self.target_dirs = list(dirs)
        self.resources = resources

        async def fn():
            self.wf.targets = frozenset(Path(p) for p in self.targets)
            self.wf.target_dirs = frozenset(Path(p) for p in self.target_dirs)
            await self.sched.initialize(self.resources)
            return {}

        await self._event(
            "set_targets",
            {"targets": list(self.targets), "target_dirs": list(self.target_dirs),
             "resources": self.resources},
            fn, is_async=True,
        )
        if changed:
            self.stats["shape.target_change"] += 1
        if self.targets:
            self.stats["shape.target_phase"] += 1
        if self.target_dirs:
            self.stats["shape.dir_target_phase"] += 1

    async def _undrain(self):
        async def fn():
            self.sched.draining = False
            return {}

        await self._event("undrain", {}, fn, is_async=True)

    async def _mark_pending(self, key: int):
        def fn():
            row = self.db.execute("SELECT label FROM node WHERE i = ?", (key,)).fetchone()
            self.wf.mark_step_pending(Step(self.wf, key, row[0]))
            return {}

        await self._event("mark_pending", {"step": key}, fn)
        self.woken = True

    async def _external(self, path: str, known: bool):
        args = {"path": path, "known": known}

        def fn():
            row = self.db.execute(
                "SELECT file.state, node.detached FROM file JOIN node ON node.i = file.node "
                "WHERE node.kind = 'file' AND node.label = ?", (path,)
            ).fetchone()
            # An earlier edit of the same batch may have moved the file to another state.
            if row is None or row[1] or (
                HashUpdateCause.EXTERNAL, FileState(row[0]), known
            ) not in _HASH_TRANSITIONS:
                args["skipped"] = True
                return {}
            fh = _fh(path, self._next_salt()) if known else FileHash.unknown()
            self.wf.update_file_hashes({path: fh}, cause=HashUpdateCause.EXTERNAL)
            if known and FileState(row[0]) == FileState.CONFIRMED and not self.plan.scripted:
                # A changed static input may be the script of its consumers: "edited plan".
                sql = (
                    "SELECT snode.label FROM node AS fnode "
                    "JOIN dependency ON dependency.source = fnode.i "
                    "JOIN node AS snode ON snode.i = dependency.sink "
                    "WHERE fnode.kind = 'file' AND fnode.label = ? AND snode.kind = 'step' "
                    "AND NOT EXISTS (SELECT 1 FROM dynamic_dep WHERE dynamic_dep.i = dependency.i) "
                    "ORDER BY snode.label"
                )
                for (label,) in self.db.execute(sql, (path,)).fetchall():
                    prog = self.plan.programs.get(label)
                    if prog is None or prog.get("edited"):
                        continue
                    if self.rng.random() < (0.75 if path == "plan.py" else 0.5):
                        prog["edited"] = True
            return {}

        await self._event("external", args, fn)
        self.woken = True

    async def _reconcile(self):
        def fn():
            self.wf.reconcile_targets()
            return {}

        await self._event("reconcile", {}, fn)

    # -- shape facts

    @staticmethod
    def _graph(snap: dict):
        steps = {s["key"]: s for s in snap["steps"]}
        files = {f["key"]: f for f in snap["files"]}
        producers: dict[int, list[int]] = {}  # file -> producing steps
        inputs: dict[int, list[tuple[int, int]]] = {}  # step -> [(file, dyn)]
        for dep in snap["deps"]:
            if dep["src"] in steps and dep["snk"] in files:
                producers.setdefault(dep["snk"], []).append(dep["src"])
            elif dep["src"] in files and dep["snk"] in steps:
                inputs.setdefault(dep["snk"], []).append((dep["src"], dep["dyn"]))
        return steps, files, producers, inputs

    def _shape_facts(self, ev: dict):
        snap = ev["after_meta"]
        steps, files, producers, inputs = self._graph(snap)
        facts = set()

        def opt_producers(step_key):
            res = []
            for fkey, dyn in inputs.get(step_key, []):
                for p in producers.get(fkey, []):
                    ps = steps[p]
                    if ps["need"] == OPTIONAL and not ps["detached"]:
                        res.append((p, dyn))
            return res

        dyn_sources = {dep["src"] for dep in snap["deps"] if dep["dyn"] and dep["src"] in files}
        outputs: dict[int, list[int]] = {}
        for fkey, plist in producers.items():
            for p in plist:
                outputs.setdefault(p, []).append(fkey)
        running_res: Counter = Counter()
        for s in snap["steps"]:
            if s["state"] == StepState.RUNNING.value:
                for name, units in s["resources"]:
                    running_res[name] += units
        avail = dict(snap["avail"])
        for s in snap["steps"]:
            key = s["key"]
            if s["holding"] > 0:
                facts.add("hold_spans_tick")
            if s["deferred"]:
                facts.add("deferred_at_tick")
            if s["detached"]:
                facts.add("detached_step_at_tick")
                if opt_producers(key):
                    facts.add("detached_opt_consumer_at_tick")
                continue
            if s["ineed"] > s["need"]:
                facts.add("implied_need_raised")
                if s["ineed"] == Need.TARGET.value:
                    facts.add("implied_need_target")
                if any(fkey in dyn_sources for fkey in outputs.get(key, [])):
                    facts.add("implied_need_via_dyn_edge")
            if s["need"] != OPTIONAL:
                for p1, _dyn in opt_producers(key):
                    if any(True for _ in opt_producers(p1)):
                        facts.add("opt_chain2")
            if s["resources"] and s["state"] == StepState.PENDING.value and not s["has_hash"]:
                eligible = (
                    s["safe"] and not s["deferred"] and s["ready"]
                    and s["ineed"] > max(OPTIONAL, snap["threshold"])
                )
                blocked = any(
                    name not in avail or avail[name] - running_res[name] < units
                    for name, units in s["resources"]
                )
                if eligible and blocked:
                    facts.add("resource_blocked")
        if ev.get("choice") is not None:
            chosen = steps.get(ev["choice"])
            if chosen is not None and chosen["resources"] and ev["job"] == "run":
                facts.add("resource_step_dispatched")
            if chosen is not None and chosen["has_hash"] and not chosen["safe"]:
                facts.add("check_bypasses_hold")
        for fact in sorted(facts):
            self.stats["shape." + fact] += 1

    def _amend_facts(self, step_i: int, before: dict, after: dict):
        old = {(d["src"], d["snk"]) for d in before["deps"] if d["dyn"]}
        steps, files, producers, _inputs = self._graph(after)
        for d in after["deps"]:
            if d["dyn"] and d["snk"] == step_i and (d["src"], d["snk"]) not in old:
                self.stats["shape.dyn_edge"] += 1
                if any(steps[p]["need"] == OPTIONAL for p in producers.get(d["src"], [])):
                    self.stats["shape.dyn_edge_from_optional"] += 1

    def _end_facts(self, jr: _JobRec, after: dict):
        """Facts about a successfully completed run, compared to the previous successful run of the
        same step (remembered in the program, because `reset_for_rerun` may already have happened
        in an earlier skip/validate transaction)."""
        step_i = jr.step.i
        prog = jr.prog
        steps, files, producers, inputs = self._graph(after)
        now_dyn_opt = sorted(
            files[fkey]["label"] for fkey, dyn in inputs.get(step_i, [])
            if dyn and any(steps[p]["need"] == OPTIONAL for p in producers.get(fkey, []))
        )
        last_dyn_opt = prog.get("last_dyn_opt", [])
        if last_dyn_opt and not any(path in now_dyn_opt for path in last_dyn_opt):
            self.stats["shape.rerun_without_opt_amend"] += 1
        prog["last_dyn_opt"] = now_dyn_opt
        dropped = [label for label in prog.get("last_defined", []) if label not in jr.defined]
        prog["last_defined"] = list(jr.defined)
        if dropped:
            self.stats["shape.dropped_child"] += 1
            by_label = {s["label"]: s for s in after["steps"]}
            for label in dropped:
                s = by_label.get(label)
                if s is None or not s["detached"]:
                    continue
                if any(
                    steps[p]["need"] == OPTIONAL
                    for fkey, _dyn in inputs.get(s["key"], [])
                    for p in producers.get(fkey, [])
                ):
                    self.stats["shape.dropped_opt_consumer"] += 1
                    break


# ---------------------------------------------------------------------------------------------
# Drivers
# ---------------------------------------------------------------------------------------------


async def run_history(rng: random.Random, size: int, **kw) -> dict:
    """Run one random history of (about) ``size`` events and return it.

    Keyword arguments override the random configuration: ``targets``, ``target_dirs``,
    ``resources``, ``defer_cap``, ``njob``, ``keep_going``, ``plan``, ``check_before``.
    A multi-event operation (``early_fail`` + ``end``) may overshoot ``size`` by one event.
    """
    plan = kw.pop("plan", None) or gen_plan(rng)
    if "targets" in kw or "target_dirs" in kw:
        targets = list(kw.pop("targets", ()))
        target_dirs = list(kw.pop("target_dirs", ()))
    else:
        targets, target_dirs = choose_targets(rng, plan, p_none=0.6)
    resources = kw.pop("resources", RESOURCES if rng.random() < 0.8 else None)
    defer_cap = kw.pop("defer_cap", rng.choice((1, 2, 3)))
    njob = kw.pop("njob", rng.randint(1, 3))
    keep_going = kw.pop("keep_going", rng.random() < 0.6)
    check_before = kw.pop("check_before", False)
    if kw:
        raise TypeError(f"unexpected keyword arguments: {sorted(kw)}")
    sim = Sim(
        rng, targets=targets, target_dirs=target_dirs, resources=resources, defer_cap=defer_cap,
        njob=njob, keep_going=keep_going, plan=plan, check_before=check_before,
    )
    config = {
        "size": size, "targets": list(targets), "target_dirs": list(target_dirs),
        "resources": resources, "defer_cap": defer_cap, "njob": njob, "keep_going": keep_going,
        "nplan_steps": len(plan.programs),
    }
    try:
        await sim.start()
        while len(sim.events) < size:
            if not await sim.step_once():
                break
            # Yield to the event loop (no delay), so that the timeout of `run` can fire.
            await asyncio.sleep(0)
    finally:
        sim.close()
    stats = dict(sorted(sim.stats.items()))
    stats["events"] = len(sim.events)
    stats["phases"] = sim.nphase
    return {"config": config, "events": sim.events, "stats": stats}


def run(coro, timeout: float = 60.0):
    """``asyncio.run`` with a global timeout, so nothing can hang."""

    async def _guard():
        return await asyncio.wait_for(coro, timeout)

    return asyncio.run(_guard())
