"""C13, call sites: drive the REAL Executor code path that builds the ingredient maps of the step hash.

A system-level configuration (`sysc`, JSON-able dict) is set up for real:
  * files with the given content and mode in a fresh directory (the process chdir's into it),
  * a real Workflow + Scheduler on an in-memory database (harness/wfutil.WF), the inputs declared
    static and confirmed with their real FileHash, the step defined with Workflow.define_step
    (command, workdir, shell, env_deps, env_overrides, inputs, outputs),
  * os.environ patched for the variables of the pool, an Executor with the given infra_env.
Then the job is derived by the real Scheduler._derive_job, and both call sites are executed:
  Executor._compute_inp_step_hash(run, job.inp_hashes, job.env_deps)   (CHECKING / before the command)
  Executor._compute_full_step_hash(run)                                (after the command)
with a recording object in place of the hashlib object inside HashWords, so that the bytes fed to
SHA-256 are available next to the digests.
"""
from __future__ import annotations

import asyncio
import contextlib
import copy
import hashlib
import os
import tempfile

from .common import coq_str

ENV_POOL = ["C13_A", "C13_B", "C13_é", "__env_overrides__", "__env_vars__", "None", "C13 SP", "c13_a"]
OVR_POOL = ["C13_O1", "C13_O2", "__env_overrides__", "C13_A", "None", "c13_a"]
ENV_VALUES = ["", "None", "0", "v", " ", "é", "__env_overrides__", "a=b", "False"]
FILE_POOL = ["a.txt", "b c.dat", "é.bin", "__env_vars__", "u", "sub/in.txt", "sub/deep/x", "__env_overrides__"]
OUT_POOL = ["out.txt", "o2", "sub/out"]
COMMANDS = ["make x", "./run.py", "echo ${C13_A-unset}", "a  #wd=b", "c # wd=", "é", "x", "x ", "cp a b", "  # wd",
            "__shell__", ""]
WORKDIRS = [".", ".", "sub/", "sub/deep/", "../x/", "é/", "./", "x", "/abs/dir/", "b  # wd=c/"]
MODES = [0o644, 0o600, 0o755, 0o444]


class Rep:
    """Reporter stand-in (nothing is reported on the paths exercised here)."""

    async def __call__(self, *a, **k):
        pass

    def job_started(self, *a):
        pass

    def job_stopped(self, *a):
        pass

    async def update_progress(self, *a):
        pass


# ---------------------------------------------------------------------------------------------
# generator
# ---------------------------------------------------------------------------------------------


def gen_sys(rng):
    files = []
    for p in rng.sample(FILE_POOL, rng.choice([0, 1, 1, 2, 3])):
        files.append([p, rng.randbytes(rng.choice([0, 1, 5, 40])).hex(), rng.choice(MODES)])
    deps = rng.sample(ENV_POOL, rng.choice([0, 1, 2, 2, 3]))
    environ, infra = [], []
    for n in ENV_POOL:
        r = rng.random()
        if n in deps:
            # tracked: undefined / defined in environ / in infra / in both
            k = rng.choice(["undef", "env", "env", "env", "infra", "both"])
        else:
            k = "env" if r < 0.25 else "infra" if r < 0.3 else "undef"
        if k in ("env", "both"):
            environ.append([n, rng.choice(ENV_VALUES)])
        if k in ("infra", "both"):
            infra.append([n, rng.choice(ENV_VALUES)])
    ovrs = [[n, rng.choice(ENV_VALUES)] for n in rng.sample([o for o in OVR_POOL if o not in deps],
                                                            rng.choice([0, 0, 1, 2]))]
    outs = []
    for p in rng.sample(OUT_POOL, rng.choice([0, 1, 1, 2])):
        outs.append([p, None if rng.random() < 0.3 else rng.randbytes(rng.choice([0, 3, 20])).hex(), rng.choice(MODES)])
    return {"command": rng.choice(COMMANDS), "workdir": rng.choice(WORKDIRS), "shell": rng.random() < 0.5,
            "files": files, "env_deps": deps, "environ": environ, "infra": infra, "ovrs": ovrs, "outs": outs}


def effective(sysc, name):
    d = dict(sysc["environ"])
    d.update(dict(sysc["infra"]))
    return d.get(name)


DIFFERENT = ["command", "workdir", "workdir_vs_dot", "shell", "file_add", "file_remove", "file_rename", "file_content",
             "file_append", "file_chmod", "track_add", "track_remove", "env_value", "env_empty_vs_unset",
             "env_None_vs_unset", "env_infra_defines", "env_infra_wins", "ovr_add", "ovr_remove", "ovr_value",
             "ovr_empty_vs_absent", "env_to_ovr"]
SAME = ["untracked_env_change", "environ_masked_by_infra", "supply_order", "explained"]
OUTPUT = ["out_content", "out_missing", "out_chmod", "out_add"]


def prepare(rng, s, kind):
    """Make sure `kind` is applicable to a copy of s (add the ingredient it needs)."""
    s = copy.deepcopy(s)
    if kind.startswith("file_") and kind != "file_add" and not s["files"]:
        s["files"].append(["a.txt", b"seed".hex(), 0o644])
    if kind in ("env_value", "env_empty_vs_unset", "env_None_vs_unset", "env_infra_defines", "env_infra_wins",
                "track_remove", "env_to_ovr", "environ_masked_by_infra") and not s["env_deps"]:
        s["ovrs"] = [o for o in s["ovrs"] if o[0] != "C13_A"]
        s["env_deps"].append("C13_A")
    if kind in ("ovr_remove", "ovr_value") and not s["ovrs"]:
        free = [o for o in OVR_POOL if o not in s["env_deps"]]
        s["ovrs"].append([free[0], "v"])
    if kind.startswith("out_") and kind != "out_add" and not s["outs"]:
        s["outs"].append(["out.txt", b"result".hex(), 0o644])
    return s


def _setenv(lst, name, value):
    lst[:] = [kv for kv in lst if kv[0] != name]
    if value is not None:
        lst.append([name, value])


def mutate(rng, s, kind):
    """A configuration that differs from s in exactly the named ingredient, or None."""
    d = copy.deepcopy(s)
    if kind == "command":
        d["command"] = rng.choice([c for c in COMMANDS if c != s["command"]])
    elif kind == "workdir":
        d["workdir"] = rng.choice([w for w in WORKDIRS if w != s["workdir"]])
    elif kind == "workdir_vs_dot":
        d["workdir"] = "sub/" if s["workdir"] == "." else "."
    elif kind == "shell":
        d["shell"] = not s["shell"]
    elif kind == "file_add":
        free = [p for p in FILE_POOL if p not in [f[0] for f in s["files"]]]
        d["files"].append([rng.choice(free), rng.randbytes(3).hex(), 0o644])
    elif kind == "file_remove":
        d["files"].pop(rng.randrange(len(d["files"])))
    elif kind == "file_rename":
        free = [p for p in FILE_POOL if p not in [f[0] for f in s["files"]]]
        d["files"][rng.randrange(len(d["files"]))][0] = rng.choice(free)
    elif kind == "file_content":
        f = d["files"][rng.randrange(len(d["files"]))]
        old = bytes.fromhex(f[1])
        f[1] = (bytes((b + 1) % 256 for b in old) if old else b"x").hex()
    elif kind == "file_append":
        f = d["files"][rng.randrange(len(d["files"]))]
        f[1] = (bytes.fromhex(f[1]) + b"\0").hex()
    elif kind == "file_chmod":
        f = d["files"][rng.randrange(len(d["files"]))]
        f[2] = rng.choice([m for m in MODES if m != f[2]])
    elif kind == "track_add":
        free = [n for n in ENV_POOL if n not in s["env_deps"] and n not in [o[0] for o in s["ovrs"]]]
        if not free:
            return None
        d["env_deps"].append(rng.choice(free))
    elif kind == "track_remove":
        d["env_deps"].pop(rng.randrange(len(d["env_deps"])))
    elif kind in ("env_value", "env_empty_vs_unset", "env_None_vs_unset"):
        n = rng.choice(s["env_deps"])
        cur = effective(s, n)
        _setenv(d["infra"], n, None)
        if kind == "env_value":
            _setenv(s["infra"], n, None)
            base = cur if cur is not None else "v"
            _setenv(s["environ"], n, base)
            _setenv(d["environ"], n, base + rng.choice(["x", " ", "\x01"]))
        else:
            val = "" if kind == "env_empty_vs_unset" else "None"
            _setenv(s["infra"], n, None)
            _setenv(s["environ"], n, val)
            _setenv(d["environ"], n, None)
            if rng.random() < 0.5:
                s["environ"], d["environ"] = d["environ"], s["environ"]
    elif kind == "env_infra_defines":
        n = rng.choice(s["env_deps"])
        _setenv(s["infra"], n, None)
        _setenv(s["environ"], n, None)
        _setenv(d["environ"], n, None)
        _setenv(d["infra"], n, rng.choice(ENV_VALUES))
    elif kind == "env_infra_wins":
        n = rng.choice(s["env_deps"])
        _setenv(s["infra"], n, None)
        _setenv(s["environ"], n, "from-environ")
        _setenv(d["environ"], n, "from-environ")
        _setenv(d["infra"], n, rng.choice(ENV_VALUES))
    elif kind == "ovr_add":
        free = [o for o in OVR_POOL if o not in s["env_deps"] and o not in [x[0] for x in s["ovrs"]]]
        if not free:
            return None
        d["ovrs"].append([rng.choice(free), rng.choice(ENV_VALUES)])
    elif kind == "ovr_remove":
        d["ovrs"].pop(rng.randrange(len(d["ovrs"])))
    elif kind == "ovr_value":
        o = d["ovrs"][rng.randrange(len(d["ovrs"]))]
        o[1] = o[1] + "y"
    elif kind == "ovr_empty_vs_absent":
        free = [o for o in OVR_POOL if o not in s["env_deps"] and o not in [x[0] for x in s["ovrs"]]]
        if not free:
            return None
        d["ovrs"].append([rng.choice(free), ""])
    elif kind == "env_to_ovr":
        # tracked variable with value v  versus  override of the same name with the same value
        n = rng.choice(s["env_deps"])
        if n in [o[0] for o in s["ovrs"]]:
            return None
        v = rng.choice(ENV_VALUES)
        _setenv(s["infra"], n, None)
        _setenv(d["infra"], n, None)
        _setenv(s["environ"], n, v)
        _setenv(d["environ"], n, v)
        d["env_deps"].remove(n)
        d["ovrs"].append([n, v])
    elif kind == "untracked_env_change":
        free = [n for n in ENV_POOL if n not in s["env_deps"]]
        n = rng.choice(free)
        _setenv(d["environ"], n, (dict(s["environ"]).get(n) or "") + "z")
    elif kind == "environ_masked_by_infra":
        n = rng.choice(s["env_deps"])
        _setenv(s["infra"], n, "wins")
        _setenv(d["infra"], n, "wins")
        _setenv(s["environ"], n, "")
        _setenv(d["environ"], n, None if rng.random() < 0.5 else "other")
    elif kind == "supply_order":
        for k in ("files", "env_deps", "environ", "infra", "ovrs", "outs"):
            d[k] = list(reversed(d[k]))
    elif kind == "explained":
        d["explained"] = True
    elif kind == "out_content":
        o = d["outs"][rng.randrange(len(d["outs"]))]
        o[1] = (bytes.fromhex(o[1] or "") + b"!").hex()
    elif kind == "out_missing":
        o = d["outs"][rng.randrange(len(d["outs"]))]
        o[1] = None if o[1] is not None else b"now here".hex()
    elif kind == "out_chmod":
        o = d["outs"][rng.randrange(len(d["outs"]))]
        if o[1] is None:
            o[1] = b"x".hex()
            s["outs"][d["outs"].index(o)][1] = b"x".hex()
        o[2] = rng.choice([m for m in MODES if m != o[2]])
    elif kind == "out_add":
        free = [p for p in OUT_POOL if p not in [o[0] for o in s["outs"]]]
        if not free:
            return None
        d["outs"].append([rng.choice(free), b"new".hex(), 0o644])
    else:
        raise AssertionError(kind)
    return d


# ---------------------------------------------------------------------------------------------
# running the real code
# ---------------------------------------------------------------------------------------------


@contextlib.contextmanager
def patched_environ(environ):
    names = set(ENV_POOL) | set(OVR_POOL)
    saved = {n: os.environ.get(n) for n in names}
    try:
        for n in names:
            os.environ.pop(n, None)
        for n, v in environ:
            os.environ[n] = v
        yield
    finally:
        for n, v in saved.items():
            if v is None:
                os.environ.pop(n, None)
            else:
                os.environ[n] = v


class _Recorder:
    def __init__(self, sink):
        self.h = hashlib.sha256()
        self.buf = bytearray()
        self.sink = sink

    def update(self, b):
        self.h.update(b)
        self.buf += b

    def digest(self):
        self.sink.append(bytes(self.buf))
        return self.h.digest()


@contextlib.contextmanager
def recording(sink):
    import stepup.core.hash as H

    class RecHashWords(H.HashWords):
        def __init__(self):
            super().__init__()
            self._hash = _Recorder(sink)

    orig = H.HashWords
    H.HashWords = RecHashWords
    try:
        yield
    finally:
        H.HashWords = orig


def _write_files(entries):
    sigs = []
    for path, content, mode in entries:
        if content is None:
            sigs.append((path, (b"u", 0, 0)))
            continue
        data = bytes.fromhex(content)
        parent = os.path.dirname(path)
        if parent:
            os.makedirs(parent, exist_ok=True)
        with open(path, "wb") as fh:
            fh.write(data)
        os.chmod(path, mode)
        sigs.append((path, (hashlib.sha256(data).digest(), os.stat(path).st_mode, len(data))))
    return sigs


async def _run_async(sysc, record):
    from stepup.core.enums import HashUpdateCause
    from stepup.core.executor import Executor, Run
    from stepup.core.hash import FileHash
    from stepup.core.step import Step

    from . import wfutil

    inp_sigs = _write_files(sysc["files"])
    out_sigs = _write_files(sysc["outs"])
    res = {"inp_sigs": inp_sigs, "out_sigs": out_sigs}
    async with wfutil.WF() as w:
        async with w.db:
            paths = [f[0] for f in sysc["files"]]
            unconfirmed = w.wf.declare_static_files(w.plan, paths)
            w.wf.update_file_hashes({p: FileHash.unknown().refreshed(p) for p in unconfirmed},
                                    cause=HashUpdateCause.CONFIRMED)
            w.wf.define_step(w.plan, sysc["command"], inp_paths=paths, env_deps=list(sysc["env_deps"]),
                             out_paths=[o[0] for o in sysc["outs"]], workdir=sysc["workdir"], shell=sysc["shell"],
                             env_overrides=dict(sysc["ovrs"]) if sysc["ovrs"] else None)
            steps = list(w.plan.products(Step))
            if len(steps) != 1:
                raise RuntimeError(f"expected one step, found {steps}")
            step = steps[0]
            res["label"] = step.label
            job = w.sched._derive_job(step)
        with patched_environ(sysc["environ"]):
            ex = Executor(scheduler=w.sched, workflow=w.wf, db=w.db, reporter=Rep(),
                          explain_rerun=bool(sysc.get("explained")), keep_going=False, live_progress=False,
                          write_joblog=False, infra_env=dict(sysc["infra"]))
            sink = []
            with recording(sink) if record else contextlib.nullcontext():
                run = Run(step, job_i=job.job_i)
                sh, new = await ex._compute_inp_step_hash(run, job.inp_hashes, job.env_deps)
            if sh is None:
                raise RuntimeError(f"_compute_inp_step_hash gave no hash: {run.inp_messages} {new}")
            res["inp"] = (sh.inp_digest, sink[0] if record else None)
            if run.inp_digest != sh.inp_digest:
                raise RuntimeError("run.inp_digest is not the digest of the returned step hash")
            sink2 = []
            with recording(sink2) if record else contextlib.nullcontext():
                run2 = Run(step, job_i=job.job_i + 1000)
                sh2, new_i, _new_o = await ex._compute_full_step_hash(run2)
            if sh2 is None:
                raise RuntimeError(f"_compute_full_step_hash gave no hash: {run2.inp_messages} {new_i}")
            res["full"] = (sh2.inp_digest, sink2[0] if record else None, sh2.out_digest, sink2[1] if record else None)
            # the CHECKING path: the output digest is added to the first hash
            sh3, _ = await ex._compute_out_step_hash(Run(step, job_i=job.job_i + 2000), sh)
            res["out_check"] = None if sh3 is None else sh3.out_digest
    return res


class Runner:
    """Runs configurations inside a private directory tree; restores cwd on exit."""

    def __enter__(self):
        self._tmp = tempfile.TemporaryDirectory(prefix="verif-c13-exec-")
        self._cwd = os.getcwd()
        self._n = 0
        self._loop = asyncio.new_event_loop()  # one loop for all runs (closing a loop is the costly part)
        return self

    def __exit__(self, *a):
        os.chdir(self._cwd)
        try:
            self._loop.run_until_complete(self._loop.shutdown_default_executor())
        finally:
            self._loop.close()
            self._tmp.cleanup()

    def run(self, sysc, record=True):
        self._n += 1
        d = os.path.join(self._tmp.name, f"c{self._n}", "project")
        os.makedirs(d)
        os.chdir(d)
        try:
            return self._loop.run_until_complete(asyncio.wait_for(_run_async(sysc, record), 300))
        finally:
            os.chdir(self._cwd)


# ---------------------------------------------------------------------------------------------
# Gallina literals
# ---------------------------------------------------------------------------------------------


def _q(s):
    return coq_str(s.encode() if isinstance(s, str) else s)


def _q_files(sigs):
    return "[" + "; ".join(f"({_q(p)}, mk_fsig {_q(t[0])} {t[1]} {t[2]})" for p, t in sigs) + "]"


def _q_map(items):
    return "[" + "; ".join(f"({_q(k)}, {_q(v)})" for k, v in items) + "]"


def q_sys(sysc, inp_sigs, out_sigs):
    return (f"(mk_sys {_q(sysc['command'])} {_q(sysc['workdir'])} {'true' if sysc['shell'] else 'false'} "
            f"{_q_files(inp_sigs)} [{'; '.join(_q(n) for n in sysc['env_deps'])}] {_q_map(sysc['environ'])} "
            f"{_q_map(sysc['infra'])} {_q_map(sysc['ovrs'])} {_q_files(out_sigs)})")


def static_sigs(sysc):
    """The (path, signature) lists of a configuration without touching the disk (regular files)."""
    def one(entries):
        out = []
        for path, content, mode in entries:
            if content is None:
                out.append((path, (b"u", 0, 0)))
            else:
                data = bytes.fromhex(content)
                out.append((path, (hashlib.sha256(data).digest(), 0o100000 | mode, len(data))))
        return out
    return one(sysc["files"]), one(sysc["outs"])


# ---------------------------------------------------------------------------------------------
# the skip decision: the REAL Executor.try_skip_job on a recorded hash chosen by the harness
# ---------------------------------------------------------------------------------------------

SKIP_TWEAKS = ["same", "inp_first_byte", "inp_last_byte", "inp_after_8", "inp_after_16", "out_first_byte",
               "out_last_byte", "out_after_8", "out_after_16", "out_middle", "out_none", "swapped", "both_last_byte"]


def tweak_hash(sh, tweak):
    """A recorded StepHash that differs from the current one `sh` in the named way (same = no difference)."""
    import attrs

    def flip(b, i):
        return b[:i] + bytes([b[i] ^ 0x01]) + b[i + 1:]

    def after(b, k):
        return b[:k] + bytes(x ^ 0xA5 for x in b[k:])

    i, o = sh.inp_digest, sh.out_digest
    if tweak == "same":
        return sh
    new = {"inp_first_byte": (flip(i, 0), o), "inp_last_byte": (flip(i, len(i) - 1), o), "inp_after_8": (after(i, 8), o),
           "inp_after_16": (after(i, 16), o), "out_first_byte": (i, flip(o, 0)), "out_last_byte": (i, flip(o, len(o) - 1)),
           "out_after_8": (i, after(o, 8)), "out_after_16": (i, after(o, 16)), "out_middle": (i, flip(o, 13)),
           "out_none": (i, None), "swapped": (o, i), "both_last_byte": (flip(i, 31), flip(o, 31))}[tweak]
    return attrs.evolve(sh, inp_digest=new[0], out_digest=new[1])


async def _skip_async(sysc, tweak):
    from stepup.core.enums import HashUpdateCause, StepState
    from stepup.core.executor import Executor, Run
    from stepup.core.hash import FileHash
    from stepup.core.step import Step

    from . import wfutil

    _write_files(sysc["files"])
    _write_files(sysc["outs"])
    async with wfutil.WF() as w:
        async with w.db:
            paths = [f[0] for f in sysc["files"]]
            unconfirmed = w.wf.declare_static_files(w.plan, paths)
            w.wf.update_file_hashes({p: FileHash.unknown().refreshed(p) for p in unconfirmed},
                                    cause=HashUpdateCause.CONFIRMED)
            w.wf.define_step(w.plan, sysc["command"], inp_paths=paths, env_deps=list(sysc["env_deps"]),
                             out_paths=[o[0] for o in sysc["outs"]], workdir=sysc["workdir"], shell=sysc["shell"],
                             env_overrides=dict(sysc["ovrs"]) if sysc["ovrs"] else None)
            step = list(w.plan.products(Step))[0]
            job = w.sched._derive_job(step)
        with patched_environ(sysc["environ"]):
            ex = Executor(scheduler=w.sched, workflow=w.wf, db=w.db, reporter=Rep(),
                          explain_rerun=bool(sysc.get("explained")), keep_going=False, live_progress=False,
                          write_joblog=False, infra_env=dict(sysc["infra"]))
            cur, new_i, _ = await ex._compute_full_step_hash(Run(step, job_i=job.job_i + 1000))
            if cur is None:
                raise RuntimeError(f"_compute_full_step_hash gave no hash: {new_i}")
            recorded = tweak_hash(cur, tweak)
            async with w.db:
                step.set_state(StepState.CHECKING)
            await ex.try_skip_job(job.job_i, step, job.inp_hashes, job.env_deps, recorded)
            async with w.db:
                state = step.get_state()
                stored = step.get_hash()
    return {"current": (cur.inp_digest, cur.out_digest), "recorded": (recorded.inp_digest, recorded.out_digest),
            "skipped": state == StepState.SUCCEEDED, "state": state.name,
            "stored": None if stored is None else (stored.inp_digest, stored.out_digest)}


def run_skip(runner, sysc, tweak):
    """Run the real try_skip_job; returns the digests and whether the step was skipped."""
    runner._n += 1
    d = os.path.join(runner._tmp.name, f"k{runner._n}", "project")
    os.makedirs(d)
    os.chdir(d)
    try:
        return runner._loop.run_until_complete(asyncio.wait_for(_skip_async(sysc, tweak), 300))
    finally:
        os.chdir(runner._cwd)
