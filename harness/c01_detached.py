"""C01: histories in which steps complete, or things change, WHILE A STEP IS DETACHED, followed by an
identical re-declaration (full recycle).  Random generation reaches these shapes rarely, so they
are generated on purpose.

Ingredients (combined at random per case):
  * children of a sub-plan whose output content does not depend on (all of) their inputs
    (identical reproduction after an input change), next to children whose output does;
  * a sub-plan that, in the disturbed build, re-defines its children and then FAILS, or DEFERS and is
    re-executed, while the children are still running (gates decide the completion order), so
    that children finish -- successfully or not -- while they are detached;
  * the static inputs of the children are declared by the main plan, which is not rerun;
    consumers of the children's outputs live in the main plan and/or in the sub-plan;
  * while the children sit detached: nothing, or a source / tracked variable changes, or a new
    glob match appears;
  * then the sub-plan script is restored (the children are re-declared unchanged), optionally
    followed by one more no-change build.
The final incremental result is compared with a from-scratch build as for every other case.
"""
from __future__ import annotations

import random

from . import c01_oracle as co
from . import e3


def gen_detached_case(rng: random.Random) -> tuple[dict, dict]:
    """(case, description)"""
    nchild = rng.randint(1, 3)
    sources = {f"s{i}.txt": f"s{i} v0\n" for i in range(nchild)}
    children, commands, consumers = [], {}, []
    desc = {"children": []}
    for i in range(nchild):
        label = f"S{i}"
        inp = [f"s{i}.txt"]
        if i > 0 and rng.random() < 0.4:
            inp.append(f"o{i - 1}.txt")          # a chain inside the sub-plan
        kind = rng.choice(["const", "const", "auto", "partial"])
        env = ["VA"] if rng.random() < 0.3 else []
        step = {"op": "step", "label": label, "inp": inp, "out": [f"o{i}.txt"]}
        if env:
            step["env"] = env
        if kind == "const":
            cmd = [{"op": "read", "paths": inp, "required": True},
                   {"op": "write", "path": f"o{i}.txt", "content": f"constant {i}\n"}]
        elif kind == "partial":   # the output depends on the first input only
            cmd = [{"op": "getenv", "name": n} for n in env] + \
                  [{"op": "read", "paths": inp[:1], "required": True}, {"op": "write", "path": f"o{i}.txt"}]
        else:
            cmd = [{"op": "getenv", "name": n} for n in env] + [{"op": "auto"}]
        commands[label] = cmd
        children.append(step)
        desc["children"].append({"label": label, "kind": kind, "env": env, "inp": inp})
        if rng.random() < 0.7:
            consumers.append({"op": "step", "label": f"C{i}", "inp": [f"o{i}.txt"], "out": [f"c{i}.txt"]})
    sub_consumer = []
    if rng.random() < 0.3:
        sub_consumer = [{"op": "step", "label": "D", "inp": [f"o{nchild - 1}.txt"], "out": ["d.txt"]}]
    use_glob = rng.random() < 0.25
    sub = list(children) + sub_consumer
    if use_glob:
        sources["g_1.txt"] = "g1\n"
        sub = sub + [{"op": "glob", "pattern": "g_*.txt", "static": True, "foreach": [
            {"op": "step", "label": "cp {m} c_{stem}.out", "inp": ["{m}"], "out": ["c_{stem}.out"]}]}]
    main = [{"op": "static", "paths": sorted(p for p in sources if p.startswith("s")) + ["p1.py"]},
            {"op": "plan", "label": "./p1.py"}] + consumers
    env0 = {"VA": "a"}
    project = e3.Project(sources=dict(sources), env=dict(env0),
                         program={"scripts": {"plan.py": main, "p1.py": sub}, "commands": dict(commands)})
    # ---- the disturbed build
    mode = rng.choice(["fail", "fail", "defer", "main-fail"])
    edits = []
    changed = [i for i in range(nchild) if rng.random() < 0.7]
    for i in changed:
        edits.append({"op": "write", "path": f"s{i}.txt", "content": f"s{i} v1\n"})
    failing = [i for i in range(nchild) if rng.random() < 0.25]
    cmds1 = dict(commands)
    for i in failing:
        cmds1[f"S{i}"] = commands[f"S{i}"] + [{"op": "exit", "rc": 1}]
        edits.append({"op": "command", "label": f"S{i}", "actions": cmds1[f"S{i}"]})
    main1 = None
    if mode == "fail":
        sub1 = list(children) + [{"op": "gate", "name": "g1"}, {"op": "exit", "rc": 1}]
    elif mode == "main-fail":
        # the MAIN plan re-declares the sub-plan and then fails: the sub-plan and everything below
        # it is detached; after the repair the sub-plan is fully recycled and does not run again
        sub1 = None
        main1 = main + [{"op": "gate", "name": "g1"}, {"op": "exit", "rc": 1}]
        edits.append({"op": "script", "path": "plan.py", "actions": main1})
    else:
        # the sub-plan amends an input that is not built yet: it defers and is executed again
        # when the input has been built, while its children may still be running
        sub1 = list(children) + [{"op": "gate", "name": "g1"},
                                 {"op": "amend", "inp": [f"c{nchild - 1}x.txt"]}] + sub_consumer
        edits.append({"op": "script", "path": "plan.py", "actions": main + [
            {"op": "step", "label": "X", "inp": ["s0.txt"], "out": [f"c{nchild - 1}x.txt"]}]})
    if sub1 is not None:
        edits.append({"op": "script", "path": "p1.py", "actions": sub1})
    creator_end = "end:./plan.py" if mode == "main-fail" else "end:./p1.py"
    gates = ["g1", creator_end] + [f"end:S{i}" for i in range(nchild)]
    rng.shuffle(gates)
    if rng.random() < 0.7:      # usually: the creator ends before its children
        gates = ["g1", creator_end] + [g for g in gates if g not in ("g1", creator_end)]
    history = [{"edits": edits, "build": {"njob": nchild + 3, "schedule": {"order": gates, "policy": "fifo"}}}]
    # ---- while detached
    between = rng.choice(["nothing", "nothing", "source", "env", "glob"])
    if between == "source":
        i = rng.randrange(nchild)
        history.append({"edits": [{"op": "write", "path": f"s{i}.txt", "content": f"s{i} v2\n"}]})
    elif between == "env":
        history.append({"edits": [{"op": "setenv", "name": "VA", "value": "b"}]})
    elif between == "glob" and use_glob:
        history.append({"edits": [{"op": "write", "path": "g_2.txt", "content": "g2\n"}]})
    # ---- identical re-declaration
    restore = [{"op": "script", "path": "p1.py", "actions": sub}]
    if main1 is not None:
        restore.append({"op": "script", "path": "plan.py", "actions": main})
    for i in failing:
        restore.append({"op": "command", "label": f"S{i}", "actions": commands[f"S{i}"]})
    history.append({"edits": restore})
    if rng.random() < 0.3:
        history.append({"edits": []})
    desc.update({"mode": mode, "changed": changed, "failing": failing, "between": between,
                 "gates": gates, "glob": use_glob})
    return co.case_json(project, history), desc
