"""E2: graph operations at transaction granularity.

A seeded *online* generator drives the real Workflow + Scheduler (in-memory SQLite) through the
transaction alphabet of model/Graph.v, following the protocols of the executor, the director
handlers, startup and finalize, and records after every transaction the canonical dump of the
database.  The recorded trace is then replayed by the Gallina model inside Coq, which must
reproduce every outcome class and every dump.
"""
from __future__ import annotations

import asyncio
import contextlib
import hashlib
import json
import sqlite3
import time

from stepup.core.enums import FileState, HashUpdateCause, Need, StepState
from stepup.core.exceptions import ConsistencyError
from stepup.core.file import File
from stepup.core.hash import FileHash, StepHash
from stepup.core.scheduler import Scheduler
from stepup.core.sqlite3 import DBSession
from stepup.core.static_tree import StaticTree
from stepup.core.step import Step
from stepup.core.workflow import Workflow

try:
    from stepup.core.exceptions import UsageError
except ImportError:  # pragma: no cover
    UsageError = ()

from .common import coq_bool, coq_list, coq_str

FILES = [f"f{i}" for i in range(8)] + ["d/g0", "d/g1", "d/e/h0", "t/x"]
TREES = ["d/", "d/e/", "t/"]
STEPS = [f"s{i}" for i in range(7)]
ENVS = ["E0", "E1"]

_HASH_CACHE: dict[int, FileHash] = {}
_DIGEST_TO_ID: dict[bytes, int] = {}


def fh(i: int | None) -> FileHash:
    if i is None:
        return FileHash.unknown()
    if i not in _HASH_CACHE:
        digest = hashlib.sha256(b"content-%d" % i).digest()
        _HASH_CACHE[i] = FileHash(digest, 0o644, 1.0 + i, 10 + i, 100 + i)
        _DIGEST_TO_ID[digest] = i
    return _HASH_CACHE[i]


def hash_id(hash_json: str | None):
    if hash_json is None:
        return None
    h = FileHash.from_json(hash_json)
    if h.is_unknown:
        return "U"
    return _DIGEST_TO_ID.get(bytes(h.digest), "?")


QUERY_DEADLINE_S = 6.0


def classify(exc: BaseException) -> str:
    if isinstance(exc, UsageError):
        return "usage"
    if isinstance(exc, sqlite3.OperationalError) and "interrupted" in str(exc):
        return "hang"
    return "internal"


class Impl:
    """The real implementation side."""

    def __init__(self, defer_cap=3):
        self.stack = contextlib.ExitStack()
        self.defer_cap = defer_cap

    async def start(self):
        self.db = self.stack.enter_context(DBSession.open(":memory:"))
        self.wf = Workflow(self.db, dir_queue=None, defer_cap=self.defer_cap)
        await self.wf.initialize()
        self.sched = Scheduler(self.wf, db=self.db)
        await self.sched.initialize(None)
        # watchdog: a statement that runs longer than QUERY_DEADLINE_S (a recursive query that
        # does not terminate) is interrupted by SQLite and recorded as outcome "hang"
        self._deadline = None

        def progress():
            return 1 if (self._deadline is not None and time.monotonic() > self._deadline) else 0

        self.db._con.set_progress_handler(progress, 200000)

    def close(self):
        self.stack.close()

    # -- lookups ------------------------------------------------------------------------------
    def node(self, key):
        kind, label = key
        if kind == "root":
            return self.wf.root
        cls = {"file": File, "step": Step, "st": StaticTree}[kind]
        return self.wf.find(cls, label)

    # -- one transaction ----------------------------------------------------------------------
    async def apply(self, op) -> tuple[str, str]:
        self._deadline = time.monotonic() + QUERY_DEADLINE_S
        try:
            async with self.db:
                self._do(op)
            return "ok", ""
        except BaseException as e:  # noqa: BLE001 - classification is the point
            if isinstance(e, (KeyboardInterrupt, SystemExit, asyncio.CancelledError)):
                raise
            return classify(e), f"{type(e).__name__}: {e}"
        finally:
            self._deadline = None

    def _do(self, op):
        wf = self.wf
        name = op[0]
        if name == "declare_static":
            _, creator, paths = op
            wf.declare_static_files(self.node(creator), list(paths))
        elif name == "update_hashes":
            _, cause, hs = op
            wf.update_file_hashes({p: fh(h) for p, h in hs}, cause=HashUpdateCause[cause])
        elif name == "define_step":
            _, creator, label, inp, env, out, vol, need = op
            wf.define_step(self.node(creator), label, inp_paths=list(inp), env_deps=list(env),
                           out_paths=list(out), vol_paths=list(vol), need=Need[need])
        elif name == "amend_step":
            _, label, inp, env, out, vol = op
            wf.amend_step(self.node(("step", label)), inp_paths=list(inp), env_deps=list(env),
                          out_paths=list(out), vol_paths=list(vol),
                          ran_concurrently=lambda a, b: False)
        elif name == "register_tree":
            _, creator, path = op
            wf.register_static_tree(self.node(creator), path)
        elif name == "reset_for_rerun":
            self.node(("step", op[1])).reset_for_rerun()
        elif name == "exec_end":
            _, label, pre, cause, hs, success, wants_defer = op
            step = self.node(("step", label))
            if pre:
                wf.update_file_hashes({p: fh(h) for p, h in pre}, cause=HashUpdateCause.FAILED)
            wf.update_file_hashes({p: fh(h) for p, h in hs}, cause=HashUpdateCause[cause])
            new_hash = StepHash.from_inp(label, {}, {}, explained=False) if success else None
            step.mark_completed(new_hash, wants_defer)
        elif name == "reset_to_pending":
            step = self.node(("step", op[1]))
            step.reset_for_rerun()
            step.delete_hash()
            step.set_state(StepState.PENDING)
        elif name == "validate_pending":
            # Executor.validate_dynamic_job (84081f2): the flag is decided in this transaction
            step = self.node(("step", op[1]))
            step.set_state(StepState.PENDING, step.has_unusable_dynamic_input())
        elif name == "mark_step_pending":
            wf.mark_step_pending(self.node(("step", op[1])))
        elif name == "delete_detached":
            wf.delete_detached()
        elif name == "hold":
            self.node(("step", op[1])).hold()
        elif name == "release":
            self.node(("step", op[1])).release()
        elif name == "skip_overtaken":
            # Executor.try_skip_job, `overtaken` branch: keep the hash and check again
            self.node(("step", op[1])).set_state(StepState.PENDING)
        elif name == "mark_steps_pending":
            # second transaction of startup.reset_interrupted_steps / rescan_env_vars / start_build_phase
            for l in op[1]:
                wf.mark_step_pending(self.node(("step", l)))
        elif name == "invalidate_steps":
            # Watcher.run_once / startup.rescan_nglobs: the real process_nglob_changes; the steps whose
            # registration changed are an observation
            # (observed as the registrations whose persisted matches changed)
            q = "SELECT nglob.i, node.label, data FROM nglob JOIN node ON node.i = nglob.node"
            before = {i: (l, dt) for i, l, dt in self.db.execute(q)}
            self.last_invalidated = []
            wf.process_nglob_changes(set(op[2]), set(op[3]))
            self.last_invalidated = sorted({l for i, l, dt in self.db.execute(q) if before.get(i, (l, None))[1] != dt})
        elif name == "init_boot":
            # initialize_boot hashes the real ./plan.py: run it in a scratch directory that holds a plan.py
            # with the content of hash id op[1], or no plan.py at all (unknown hash) for None
            import os
            import tempfile
            old_cwd = os.getcwd()
            with tempfile.TemporaryDirectory(prefix="c09-e2-boot-") as tmp:
                if op[1] is not None:
                    fh(op[1])                                    # registers the digest -> id
                    with open(os.path.join(tmp, "plan.py"), "wb") as fobj:
                        fobj.write(b"content-%d" % op[1])
                os.chdir(tmp)
                try:
                    wf.initialize_boot()
                finally:
                    os.chdir(old_cwd)
        elif name == "frame":
            kind = op[1]
            if kind == "nglob":
                from stepup.core.nglob import NamedGlob
                ng = NamedGlob(op[3])
                ng.extend(op[4])
                wf.register_nglob(self.node(("step", op[2])), ng)
            elif kind == "env_value":
                # the statement of startup.rescan_env_vars
                self.db.execute("UPDATE env_var SET value = ? WHERE name = ?", (op[2], op[3]))
            elif kind == "reconcile":
                wf.reconcile_targets()
            elif kind == "duration":
                self.node(("step", op[2])).set_duration(1.5)
            else:
                raise AssertionError(kind)
        elif name == "check_consistency":
            # Trellis.initialize on a non-fresh database: the consistency check with its repair, in
            # production mode (STEPUP_DEBUG off: a SUCCEEDED step with an unbuilt output is rerun)
            import os
            old = os.environ.pop("STEPUP_DEBUG", None)
            try:
                wf._check_consistency()
            finally:
                if old is not None:
                    os.environ["STEPUP_DEBUG"] = old
        elif name == "reset_interrupted":
            db = self.db
            db.execute("UPDATE step SET state = ? WHERE state = ?",
                       (StepState.FAILED.value, StepState.RUNNING.value))
            db.execute("UPDATE step SET state = ? WHERE state = ?",
                       (StepState.PENDING.value, StepState.CHECKING.value))
            for step in wf.steps(StepState.FAILED):
                wf.mark_step_pending(step)
        else:
            raise AssertionError(f"unknown op {name}")

    async def optional_labels(self):
        """The attached steps that finalize.revert_optional_steps will select (it reads the scheduling
        cache _implied_need, which is outside the model)."""
        async with self.db:
            return tuple(sorted(l for (l,) in self.db.execute(
                "SELECT label FROM step JOIN node ON step.node = node.i WHERE _implied_need = ? AND NOT node.detached",
                (Need.OPTIONAL.value,))))

    async def apply_self_tx(self, fn) -> tuple[str, str]:
        """A real coroutine of the package that opens its own transaction(s)."""
        self._deadline = time.monotonic() + QUERY_DEADLINE_S
        try:
            await fn()
            return "ok", ""
        except BaseException as e:  # noqa: BLE001
            if isinstance(e, (KeyboardInterrupt, SystemExit, asyncio.CancelledError)):
                raise
            return classify(e), f"{type(e).__name__}: {e}"
        finally:
            self._deadline = None

    async def revert_optional(self):
        from stepup.core.finalize import revert_optional_steps

        async def reporter(*args, **kwargs):
            return None

        r = await self.apply_self_tx(lambda: revert_optional_steps(self.wf, reporter))
        self.wf.to_be_deleted.clear()
        return r

    async def reset_interrupted_real(self):
        """The real startup.reset_interrupted_steps: two transactions; the reporter is called between
        them (only when there are FAILED steps), which is where the intermediate dump is taken.
        Returns [(op, outcome, detail, dump)] with one or two entries."""
        from stepup.core.startup import reset_interrupted_steps
        mid = []

        async def reporter(*args, **kwargs):
            mid.append(await self.dump())

        oc, detail = await self.apply_self_tx(lambda: reset_interrupted_steps(self.wf, reporter))
        final = await self.dump()
        if not mid:
            return [(("reset_interrupted_raw",), oc, detail, final)]
        d = mid[0]
        det = {k: x for k, _, x in d["nodes"]}
        failed = tuple(sorted(l for l, st, *_ in d["steps"]
                              if st == StepState.FAILED.value and not det.get(("step", l), True)))
        return [(("reset_interrupted_raw",), "ok", "", d), (("mark_steps_pending", failed), oc, detail, final)]

    async def dispatch(self):
        """The real Scheduler.pop_next_job; returns (label, kind) or None, or ('!', error)."""
        self._deadline = time.monotonic() + QUERY_DEADLINE_S
        try:
            job = await self.sched.pop_next_job()
        except BaseException as e:  # noqa: BLE001
            return ("!", f"{type(e).__name__}: {e}")
        finally:
            self._deadline = None
        if job is None:
            return None
        kind = type(job).__name__
        return (job.step.label, kind, job.step_hash is not None)

    async def strict_check(self):
        """Trellis + Workflow consistency check with the repair turned into an error."""
        import os
        old = os.environ.get("STEPUP_DEBUG")
        os.environ["STEPUP_DEBUG"] = "1"
        try:
            async with self.db:
                self.wf._check_consistency()
            return None
        except BaseException as e:  # noqa: BLE001
            return f"{type(e).__name__}: {e}"
        finally:
            if old is None:
                os.environ.pop("STEPUP_DEBUG", None)
            else:
                os.environ["STEPUP_DEBUG"] = old

    # -- canonical dump -----------------------------------------------------------------------
    # DUMP_COLUMNS (module level, below the class) lists the columns these queries read; the
    # writer inventory (translator/gen_writers.py) classifies every write statement of the package
    # against it.
    async def dump(self):
        async with self.db:
            return self._dump()

    def _dump(self):
        db = self.db
        ids = {i: (kind, label) for i, kind, label in db.execute("SELECT i, kind, label FROM node")}
        nodes = sorted((ids[i], ids.get(c), bool(d))
                       for i, c, d in db.execute("SELECT i, creator, detached FROM node"))
        files = sorted((ids[n][1], FileState(s).value, hash_id(h))
                       for n, s, h in db.execute("SELECT node, state, hash FROM file"))
        steps = sorted((ids[n][1], s, need, bool(d), dc, hold, bool(hh))
                       for n, s, need, d, dc, hold, hh in db.execute(
                           "SELECT node, state, need, deferred, defer_count, _holding, _has_hash FROM step"))
        deps = sorted((ids[a], ids[b], bool(dy)) for a, b, dy in db.execute(
            "SELECT source, sink, EXISTS(SELECT 1 FROM dynamic_dep WHERE dynamic_dep.i = dependency.i) "
            "FROM dependency"))
        shash = sorted(ids[n][1] for (n,) in db.execute("SELECT node FROM step_hash"))
        envs = sorted((ids[n][1], name, bool(dy)) for n, name, dy in db.execute(
            "SELECT node, name, dynamic FROM env_var"))
        return {"nodes": nodes, "files": files, "steps": steps, "deps": deps, "shash": shash, "envs": envs}

    def query(self, sql, args=()):
        return self.db._con.execute(sql, args).fetchall() if hasattr(self.db, "_con") else None


# The columns of the persistent tables that Impl._dump reads = what model/Graph.v describes.
# `i` of node/dependency is only used to resolve references (keys are (kind, label)); step_hash
# and dynamic_dep are read for the presence of a row only (their key column).
DUMP_COLUMNS = {
    "node": ("i", "kind", "label", "creator", "detached"),
    "file": ("node", "state", "hash"),
    "step": ("node", "state", "need", "deferred", "defer_count", "_holding", "_has_hash"),
    "dependency": ("i", "source", "sink"),
    "dynamic_dep": ("i",),
    "step_hash": ("node",),
    "env_var": ("node", "name", "dynamic"),
}


def _check_dump_columns():
    """The SELECTs of Impl._dump mention exactly DUMP_COLUMNS (kept in sync by construction)."""
    import inspect
    import re
    src = inspect.getsource(Impl._dump)
    sel = {}
    for cols, table in re.findall(r'SELECT ([\w, ]+?) FROM (\w+)"', src):
        sel.setdefault(table, set()).update(c.strip() for c in cols.split(","))
    sel.setdefault("dependency", set()).add("i")        # dynamic_dep.i = dependency.i (sub-select)
    for m in re.finditer(r'"SELECT source, sink, EXISTS\(SELECT 1 FROM dynamic_dep WHERE dynamic_dep\.i = dependency\.i\) "', src):
        sel.setdefault("dependency", set()).update({"source", "sink"})
        sel.setdefault("dynamic_dep", set()).add("i")
    want = {t: set(c) for t, c in DUMP_COLUMNS.items()}
    if sel != want:
        raise AssertionError(f"harness/e2.py: DUMP_COLUMNS {want} != columns read by _dump {sel}")


def dependency_cycle(d):
    """Independent check on a dump of the real database: the dependency relation over ALL rows
    (attached or not: a detached step keeps its edges and is revived by a recycle without any
    cycle check) is acyclic.  Iterative DFS with colours; returns a cycle as text or None."""
    succ = {}
    for a, b, _ in d["deps"]:
        succ.setdefault(a, []).append(b)
    colour = {}
    for root in sorted(succ):
        if colour.get(root):
            continue
        stack = [(root, iter(sorted(succ.get(root, ()))))]
        colour[root] = 1
        path = [root]
        while stack:
            node, it = stack[-1]
            nxt = next(it, None)
            if nxt is None:
                colour[node] = 2
                stack.pop()
                path.pop()
                continue
            c = colour.get(nxt, 0)
            if c == 1:
                cyc = path[path.index(nxt):] + [nxt]
                return " -> ".join(f"{k[0]}:{k[1]}" for k in cyc)
            if c == 0:
                colour[nxt] = 1
                path.append(nxt)
                stack.append((nxt, iter(sorted(succ.get(nxt, ())))))
    return None



# ---------------------------------------------------------------------------------------------
# Online generator
# ---------------------------------------------------------------------------------------------


class Gen:
    def __init__(self, rng, impl: Impl, length: int, startup: bool = False):
        # startup = True: the "startup" family of traces (alphabet op_c of model/GraphCheck.v): a
        # restart runs the consistency check before reset_interrupted, and a run is sometimes recorded
        # as successful although an output was never reported (outside the build-loop protocol: this
        # is the damage Workflow._check_consistency exists to repair)
        self.startup = startup
        self.rng = rng
        self.impl = impl
        self.length = length
        self.trace = []      # (op, outcome, detail, dump)
        self.jobs = {}       # label -> phase: 'run0' (dispatched RUN, not reset), 'run' (command running), 'check', 'validate'
        self.next_hash = 1
        self.opcount = {}
        self.defs = {}       # label -> (inp, env, out, vol, need) of the last accepted define_step

    def newhash(self):
        self.next_hash += 1
        return self.next_hash

    async def snapshot(self):
        d = await self.impl.dump()
        self.d = d
        self.fstate = {l: s for l, s, _ in d["files"]}
        self.fhash = {l: h for l, _, h in d["files"]}
        self.sstate = {l: s for l, s, *_ in d["steps"]}
        self.detached = {k: det for k, _, det in d["nodes"]}
        self.creator = {k: c for k, c, _ in d["nodes"]}
        return d

    def shape(self, op):
        """Argument shape of a transaction, judged on the state BEFORE it (for the distribution that
        goes into the evidence)."""
        n = op[0]
        det = lambda k: self.detached.get(k, None)
        if n == "define_step":
            _, c, l, i, e, o, v, nd = op
            k = ("step", l)
            if k not in self.detached:
                how = "new"
            elif not self.detached[k]:
                how = "exists-attached"
            elif self.defs.get(l) == (tuple(i), tuple(e), tuple(o), tuple(v), nd):
                how = "detached-same-spec"
            else:
                how = "detached-changed-spec"
            return (f"{how}:creator-{'root' if c[0] == 'root' else ('detached' if det(c) else 'attached')}"
                    f":inp{min(len(i), 2)}:out{min(len(o), 2)}:vol{len(v)}:env{len(e)}:{nd}")
        if n == "amend_step":
            _, l, i, e, o, v = op
            return f"inp{min(len(i), 2)}:env{len(e)}:out{len(o)}:vol{len(v)}:{'detached' if det(('step', l)) else 'attached'}"
        if n == "exec_end":
            _, l, pre, cause, hs, ok, wd = op
            kind = "success" if ok else ("defer" if wd else "failed")
            return (f"{kind}:pre{min(len(pre), 1)}:hashes{min(len(hs), 2)}:"
                    f"{'detached' if det(('step', l)) else 'attached'}:from-{self.sstate.get(l)}")
        if n == "update_hashes":
            return f"{op[1]}:n{min(len(op[2]), 3)}:" + "+".join(sorted({('known' if h is not None else 'unknown') for _, h in op[2]}))
        if n == "declare_static":
            under = any("/" in p for p in op[2])
            return f"creator-{op[1][0]}:n{len(op[2])}:{'under-dir' if under else 'plain'}"
        if n in ("reset_for_rerun", "reset_to_pending", "validate_pending", "mark_step_pending", "hold", "release",
                 "skip_overtaken"):
            l = op[1]
            return f"{'detached' if det(('step', l)) else 'attached'}:from-{self.sstate.get(l)}"
        if n in ("mark_steps_pending", "invalidate_steps", "revert_optional"):
            return f"n{min(len(op[1]), 3)}"
        if n == "frame":
            return op[1]
        return ""

    async def record(self, op):
        shape = self.shape(op) if hasattr(self, "d") else ""
        if op[0] == "revert_optional":
            # the selection of the implementation (scheduling cache) is a parameter of the model op
            op = ("revert_optional", await self.impl.optional_labels())
            shape = self.shape(op)
            outcome, detail = await self.impl.revert_optional()
        else:
            outcome, detail = await self.impl.apply(op)
        if op[0] == "invalidate_steps":
            # ... as are the registrations that process_nglob_changes found changed
            op = ("invalidate_steps", tuple(self.impl.last_invalidated), op[2], op[3])
            shape = self.shape(op)
        d = await self.snapshot()
        self.trace.append((op, outcome, detail, d))
        self.opcount[op[0] + ":" + outcome] = self.opcount.get(op[0] + ":" + outcome, 0) + 1
        if shape:
            k = f"shape:{op[0]}:{shape}"
            self.opcount[k] = self.opcount.get(k, 0) + 1
        if dependency_cycle(d):
            # the stored graph is cyclic (reported by the oracle): nothing after this point is
            # meaningful and recursive statements may not terminate; end the trace here
            self.length = min(self.length, len(self.trace))
        return outcome

    def running(self):
        return [l for l, s in self.sstate.items() if s == StepState.RUNNING.value and self.jobs.get(l) == "run"]

    def subset(self, pool, lo=0, hi=3):
        k = self.rng.randint(lo, min(hi, len(pool)))
        return tuple(sorted(self.rng.sample(pool, k)))

    def outputs_of(self, label):
        """Visible regular outputs of a step as Step.out_paths() sees them."""
        k = ("step", label)
        step_det = self.detached.get(k, True)
        res = []
        for a, b, dy in self.d["deps"]:
            if a == k and b[0] == "file":
                st = self.fstate.get(b[1])
                if st in (FileState.PLANNED.value, FileState.BUILT.value, FileState.OUTDATED.value):
                    if step_det or not self.detached.get(b, True):
                        res.append(b[1])
        return sorted(res)

    def success_hashes(self, label):
        """new_out_hashes of a successful run: every PLANNED output gets a hash; an OUTDATED output
        is either rewritten with new content (new id) or reproduced identically (the executor
        only reports hashes that differ from the stored ones, so it is omitted and relies on
        Step.mark_completed to become BUILT again)."""
        hs = []
        for p in self.outputs_of(label):
            st = self.fstate[p]
            if st == FileState.PLANNED.value:
                hs.append((p, self.newhash()))
            elif st == FileState.OUTDATED.value:
                if self.fhash.get(p) is None or self.rng.random() < 0.5:
                    hs.append((p, self.newhash()))
        return tuple(hs)

    async def boot(self):
        await self.snapshot()
        await self.record(("declare_static", ("root", ""), ("plan.py",)))
        await self.record(("update_hashes", "CONFIRMED", (("plan.py", 1),)))
        await self.record(("define_step", ("root", ""), "./plan.py", ("plan.py",), (), (), (), "PLAN"))
        # define_step with _safe is what initialize_boot does; emulate by flagging safe through SQL
        async with self.impl.db:
            self.impl.db.execute("UPDATE step SET _safe = 1, _safe_ignoring_hold = 1, _check_safe = 0")

    # -- directed scenario -------------------------------------------------------------------
    async def dispatch_until(self, label, limit=6):
        """Call the real pop_next_job until `label` is dispatched; jobs of other steps are
        finished at once in the most ordinary way.  Returns the phase of `label` or None."""
        for _ in range(limit):
            if self.jobs.get(label) in ("run0", "check", "validate"):
                return self.jobs[label]
            before = set(self.jobs)
            await self.g_dispatch()
            new = [l for l in self.jobs if l not in before]
            if not new:
                return None
            other = new[0]
            if other == label:
                return self.jobs[label]
            phase = self.jobs[other]
            if phase == "run0":
                await self.record(("reset_for_rerun", other))
                self.jobs.pop(other, None)
                await self.record(("exec_end", other, (), "SUCCEEDED", self.success_hashes(other), True, False))
            elif phase == "check":
                self.jobs.pop(other, None)
                await self.record(("exec_end", other, (), "SUCCEEDED", self.success_hashes(other), True, False))
            else:
                self.jobs.pop(other, None)
                await self.record(("validate_pending", other))
        return None

    async def run_to_running(self, label):
        """Bring `label` from PENDING to a RUNNING job whose command is executing."""
        phase = await self.dispatch_until(label)
        if phase == "check":
            self.jobs.pop(label, None)
            await self.record(("reset_to_pending", label))
            phase = await self.dispatch_until(label)
        if phase == "validate":
            self.jobs.pop(label, None)
            await self.record(("reset_to_pending", label))
            phase = await self.dispatch_until(label)
        if phase != "run0":
            return False
        await self.record(("reset_for_rerun", label))
        self.jobs[label] = "run"
        return self.sstate.get(label) == StepState.RUNNING.value

    async def scenario(self):
        """A step that succeeded before is made pending, dispatched, detached by the rerun of its
        creator while its job is in flight, completes (outputs rewritten or reproduced
        identically) and is declared again by the creator (identically or not)."""
        rng = self.rng
        plan = "./plan.py"
        if not await self.run_to_running(plan):
            return
        a, b = rng.sample(STEPS, 2)
        use_static = rng.random() < 0.6
        if use_static:
            await self.record(("declare_static", ("step", plan), ("f0",)))
            await self.record(("update_hashes", "CONFIRMED", (("f0", self.newhash()),)))
        inp_a = ("f0",) if use_static else rng.choice([(), ("plan.py",)])
        out_a = rng.choice([("f1",), ("f1", "f2")])
        env_a = rng.choice([(), ("E0",)])
        vol_a = ("f5",) if rng.random() < 0.45 else ()
        spec_a = (inp_a, env_a, out_a, vol_a, "DEFAULT")
        if await self.record(("define_step", ("step", plan), a, *spec_a)) != "ok":
            return
        self.defs[a] = spec_a
        with_b = rng.random() < 0.5
        spec_b = (("f1",), (), ("f3",), (), "DEFAULT")
        if with_b and await self.record(("define_step", ("step", plan), b, *spec_b)) == "ok":
            self.defs[b] = spec_b
        else:
            with_b = False
        self.jobs.pop(plan, None)
        await self.record(("exec_end", plan, (), "SUCCEEDED", (), True, False))
        # first run of A (and B)
        for lab in ([a, b] if with_b else [a]):
            if not await self.run_to_running(lab):
                return
            self.jobs.pop(lab, None)
            await self.record(("exec_end", lab, (), "SUCCEEDED", self.success_hashes(lab), True, False))
        # make A pending again
        how = rng.choice(["env", "input", "output-deleted", "output-changed"])
        if how == "input" and inp_a:
            await self.record(("update_hashes", "EXTERNAL", ((inp_a[0], self.newhash()),)))
        elif how == "output-deleted":
            await self.record(("update_hashes", "EXTERNAL", ((out_a[0], None),)))
        elif how == "output-changed":
            await self.record(("update_hashes", "EXTERNAL", ((out_a[0], self.newhash()),)))
        else:
            await self.record(("mark_step_pending", a))
        in_check = False
        if rng.random() < 0.3:
            in_check = (await self.dispatch_until(a)) == "check"
            if not in_check and not await self.run_to_running(a):
                return
        elif not await self.run_to_running(a):
            return
        # the creator is rerun while A is in flight: A becomes detached
        if rng.random() < 0.5:
            await self.record(("mark_step_pending", plan))
        else:
            await self.record(("update_hashes", "EXTERNAL", (("plan.py", self.newhash()),)))
        if not await self.run_to_running(plan):
            return
        # A completes while detached
        self.jobs.pop(a, None)
        r = rng.random()
        if r < 0.75:
            await self.record(("exec_end", a, (), "SUCCEEDED", self.success_hashes(a), True, False))
        elif in_check:
            await self.record(("reset_to_pending", a))
        else:
            outs = self.outputs_of(a)
            hs = tuple((p, rng.choice([None, self.newhash()])) for p in outs if rng.random() < 0.5)
            await self.record(("exec_end", a, (), "FAILED", hs, False, rng.random() < 0.3))
        # the creator declares its steps again: identically, with one more output, or with the
        # volatile output renamed while a new step consumes the old path (which is then a detached,
        # creator-less former volatile output that is merely supplied as an input)
        r = rng.random()
        if vol_a and r < 0.4:
            renamed = (inp_a, env_a, out_a, ("f6",), "DEFAULT")
            if await self.record(("define_step", ("step", plan), a, *renamed)) == "ok":
                self.defs[a] = renamed
            c = rng.choice([x for x in STEPS if x not in (a, b)])
            spec_c = (vol_a, (), ("f7",), (), "DEFAULT")
            if await self.record(("define_step", ("step", plan), c, *spec_c)) == "ok":
                self.defs[c] = spec_c
            if rng.random() < 0.5:
                await self.record(("amend_step", plan, vol_a, (), (), ()))
        elif r < 0.85:
            await self.record(("define_step", ("step", plan), a, *spec_a))
        else:
            changed = (inp_a, env_a, out_a + ("f4",), vol_a, "DEFAULT")
            if await self.record(("define_step", ("step", plan), a, *changed)) == "ok":
                self.defs[a] = changed
        if with_b and rng.random() < 0.7:
            await self.record(("define_step", ("step", plan), b, *spec_b))
        if rng.random() < 0.7:
            self.jobs.pop(plan, None)
            await self.record(("exec_end", plan, (), "SUCCEEDED", (), True, False))

    # -- families of steps with producer/consumer chains ---------------------------------------
    PLAIN = [f for f in FILES if "/" not in f]

    async def family(self, creator):
        """The running step `creator` defines a chain of 2-3 steps: each consumes an output of its
        predecessor (sometimes also of the one before) and produces one or two files."""
        rng = self.rng
        k = rng.choice([2, 2, 3])
        names = rng.sample([s for s in STEPS if s != creator], k)
        pool = rng.sample(self.PLAIN, min(len(self.PLAIN), k + 2))
        outs = [(pool[i],) for i in range(k)]
        if rng.random() < 0.3:
            outs[-1] = outs[-1] + (pool[k],)
        fam = []
        for i, lab in enumerate(names):
            inp = ()
            if i > 0:
                inp = (outs[i - 1][0],)
                if i > 1 and rng.random() < 0.4:
                    inp = tuple(sorted(inp + (outs[i - 2][0],)))
            elif rng.random() < 0.3:
                inp = ("plan.py",)
            spec = (inp, (), tuple(sorted(outs[i])), (), "DEFAULT")
            if await self.record(("define_step", ("step", creator), lab, *spec)) == "ok":
                self.defs[lab] = spec
                fam.append(lab)
        return fam

    def detached_family(self, label):
        return sorted(l for l in self.defs
                      if l != label and l in self.sstate and self.detached.get(("step", l), False))

    def changed_spec(self, lab, fam):
        """A new specification of `lab` drawn from the files of the (detached) family: inputs taken
        from the outputs of the other members (a former consumer's output becomes an input of its
        former producer), outputs taken from their former inputs, or both (roles swapped)."""
        rng = self.rng
        inp, env, out, vol, need = self.defs[lab]
        others_out = sorted({o for m in fam if m != lab for o in self.defs[m][2]})
        others_inp = sorted({i for m in fam if m != lab for i in self.defs[m][0] if i != "plan.py"})
        mode = rng.choice(["inputs", "inputs", "swap", "outputs", "more-inputs"])
        if mode in ("inputs", "swap") and others_out:
            inp = self.subset(others_out, 1, 2)
        elif mode == "more-inputs" and others_out:
            inp = tuple(sorted(set(inp) | set(self.subset(others_out, 1, 1))))
        if mode in ("outputs", "swap"):
            cand = sorted((set(others_inp) | set(out)) - set(inp))
            if cand:
                out = self.subset(cand, 1, 2)
        return (tuple(inp), env, tuple(out), vol, need)

    async def g_family(self, label):
        await self.family(label)

    async def g_reshuffle(self, label):
        """After the rerun of a creator detached a family of steps (their dependency edges stay),
        the running step declares them again in a random order, one or two of them with a changed
        specification drawn from the files of the family, the others unchanged (full recycle)."""
        rng = self.rng
        fam = self.detached_family(label)
        if not fam:
            return
        order = fam[:]
        rng.shuffle(order)
        changed = set(rng.sample(fam, rng.randint(1, min(2, len(fam)))))
        if rng.random() < 0.3:
            order = order[:rng.randint(1, len(order))]      # the rest stays detached for now
        for lab in order:
            spec = self.changed_spec(lab, fam) if lab in changed else self.defs[lab]
            if await self.record(("define_step", ("step", label), lab, *spec)) == "ok":
                self.defs[lab] = spec

    def downstream_detached_outputs(self, label):
        """Outputs of detached steps that are (indirect) consumers of `label`, over ALL dependency
        rows (a detached step keeps its edges)."""
        succ = {}
        for a, b, _ in self.d["deps"]:
            succ.setdefault(a, []).append(b)
        seen, stack = set(), [("step", label)]
        while stack:
            x = stack.pop()
            for y in succ.get(x, ()):
                if y not in seen:
                    seen.add(y)
                    stack.append(y)
        res = set()
        for a, b, _ in self.d["deps"]:
            if a[0] == "step" and b[0] == "file" and b in seen and a != ("step", label) \
                    and self.detached.get(a, True):
                res.add(b[1])
        return sorted(res)

    async def g_amenddown(self, label):
        """amend_step with inputs chosen among the outputs of detached steps downstream of the
        amending step (closing a cycle through a detached step must be rejected)."""
        cand = self.downstream_detached_outputs(label)
        if not cand:
            return await self.g_amend(label)
        await self.record(("amend_step", label, self.subset(cand, 1, 2), (), (), ()))

    async def scenario_family(self):
        """The plan defines a chain family, (some of) its members run, the plan is rerun (the family
        is detached with its edges intact) and declares the family again: reshuffled with changed
        specifications, or one member unchanged which then amends its inputs."""
        rng = self.rng
        plan = "./plan.py"
        if not await self.run_to_running(plan):
            return
        fam = await self.family(plan)
        if not fam:
            return
        self.jobs.pop(plan, None)
        await self.record(("exec_end", plan, (), "SUCCEEDED", (), True, False))
        for lab in fam:
            if rng.random() < 0.5:
                if not await self.run_to_running(lab):
                    break
                self.jobs.pop(lab, None)
                await self.record(("exec_end", lab, (), "SUCCEEDED", self.success_hashes(lab), True, False))
        if rng.random() < 0.5:
            await self.record(("mark_step_pending", plan))
        else:
            await self.record(("update_hashes", "EXTERNAL", (("plan.py", self.newhash()),)))
        if not await self.run_to_running(plan):
            return
        if rng.random() < 0.7:
            await self.g_reshuffle(plan)
            if rng.random() < 0.5:
                await self.g_reshuffle(plan)            # what is still detached
        else:
            first = fam[0]
            await self.record(("define_step", ("step", plan), first, *self.defs[first]))
            self.jobs.pop(plan, None)
            await self.record(("exec_end", plan, (), "SUCCEEDED", (), True, False))
            if await self.run_to_running(first):
                await self.g_amenddown(first)

    async def scenario_parked(self):
        """D39 / 84081f2: a step with a stored hash and dynamic inputs is validated while an input is
        detached (parked: PENDING + deferred); the input comes back by a full recycle of its producer
        (state intact) or by a new static declaration (re-created: the trigger sees its old state);
        with two dynamic inputs only one of them may come back."""
        rng = self.rng
        plan = "./plan.py"
        if not await self.run_to_running(plan):
            return
        a, b = rng.sample(STEPS, 2)
        variant = rng.choice(["built", "static", "two", "two"])
        dyn = {"built": ("f1",), "static": ("f0",), "two": ("f0", "f1")}[variant]
        spec_a = ((), (), ("f1",), (), "DEFAULT")
        spec_b = ((), (), ("f3",), (), "DEFAULT")
        if "f0" in dyn:
            await self.record(("declare_static", ("step", plan), ("f0",)))
            await self.record(("update_hashes", "CONFIRMED", (("f0", self.newhash()),)))
        for lab, spec in ((a, spec_a), (b, spec_b)):
            if await self.record(("define_step", ("step", plan), lab, *spec)) != "ok":
                return
            self.defs[lab] = spec
        self.jobs.pop(plan, None)
        await self.record(("exec_end", plan, (), "SUCCEEDED", (), True, False))
        if not await self.run_to_running(a):
            return
        self.jobs.pop(a, None)
        await self.record(("exec_end", a, (), "SUCCEEDED", self.success_hashes(a), True, False))
        if not await self.run_to_running(b):
            return
        if await self.record(("amend_step", b, dyn, (), (), ())) != "ok":
            return
        self.jobs.pop(b, None)
        await self.record(("exec_end", b, (), "SUCCEEDED", self.success_hashes(b), True, False))
        await self.record(("mark_step_pending", b))         # PENDING with a stored hash
        await self.record(("mark_step_pending", plan))
        if not await self.run_to_running(plan):
            return
        # B comes back first (full recycle); its dynamic inputs are still detached: validation parks it
        await self.record(("define_step", ("step", plan), b, *spec_b))
        if await self.dispatch_until(b) != "validate":
            return
        self.jobs.pop(b, None)
        await self.record(("validate_pending", b))
        # the inputs come back, in a random order, all of them or only some
        back = list(dyn)
        rng.shuffle(back)
        if variant == "two" and rng.random() < 0.5:
            back = back[:1]
        for p in back:
            if p == "f1":
                await self.record(("define_step", ("step", plan), a, *spec_a))
            else:
                await self.record(("declare_static", ("step", plan), ("f0",)))
        if rng.random() < 0.5 and "f0" in back:
            await self.record(("update_hashes", "CONFIRMED", (("f0", self.newhash()),)))
        self.jobs.pop(plan, None)
        await self.record(("exec_end", plan, (), "SUCCEEDED", (), True, False))

    async def scenario_sloppy(self):
        """A step with one or two outputs (and sometimes a consumer) is recorded as successful although
        an output was never reported; the director is restarted: the consistency check must put the
        step (and nothing else) back to PENDING."""
        rng = self.rng
        plan = "./plan.py"
        if not await self.run_to_running(plan):
            return
        a, b = rng.sample(STEPS, 2)
        outs = rng.choice([("f1",), ("f1", "f2")])
        spec_a = ((), (), outs, (), "DEFAULT")
        if await self.record(("define_step", ("step", plan), a, *spec_a)) != "ok":
            return
        self.defs[a] = spec_a
        if rng.random() < 0.5:
            spec_b = (("f1",), (), ("f3",), (), "DEFAULT")
            if await self.record(("define_step", ("step", plan), b, *spec_b)) == "ok":
                self.defs[b] = spec_b
        self.jobs.pop(plan, None)
        await self.record(("exec_end", plan, (), "SUCCEEDED", (), True, False))
        if not await self.run_to_running(a):
            return
        hs = self.success_hashes(a)
        self.jobs.pop(a, None)
        await self.record(("exec_end", a, (), "SUCCEEDED", hs[1:] if rng.random() < 0.5 else (), True, False))
        if rng.random() < 0.4:
            await self.g_dispatch()                 # a consumer may start before the restart
        await self.g_crash()

    async def run(self):
        await self.boot()
        rng = self.rng
        r0 = rng.random()
        if self.startup and r0 < 0.35:
            await self.scenario_sloppy()
        elif self.startup and r0 < 0.8:
            await self.scenario_optional()
        elif r0 < 0.4:
            await self.scenario()
        elif r0 < 0.75:
            await self.scenario_family()
        elif r0 < 0.92:
            await self.scenario_parked()
        while len(self.trace) < self.length:
            running = self.running()
            run0 = [l for l, p in self.jobs.items() if p == "run0"]
            checks = [l for l, p in self.jobs.items() if p == "check"]
            validates = [l for l, p in self.jobs.items() if p == "validate"]
            cats = [("dispatch", 10, [()])]
            if run0:
                cats.append(("begin", 14, [(l,) for l in run0]))
            if running:
                r = [(l,) for l in running]
                cats += [("declare", 6, r), ("define", 16, r), ("amend", 8, r), ("end", 10, r),
                         ("hold", 2, r), ("release", 2, r), ("tree", 5, r), ("treefiles", 3, r),
                         ("treeforeign", 2, r), ("family", 3, r), ("amenddown", 3, r)]
                if any(self.detached.get(("step", l), False) and l in self.sstate for l in self.defs):
                    cats.append(("redefine", 12, r))
                    cats.append(("reshuffle", 8, r))
            if checks:
                cats.append(("skip", 12, [(l,) for l in checks]))
            if validates:
                cats.append(("validate", 12, [(l,) for l in validates]))
            cats += [("confirm", 8, [()]), ("external", 4, [()]), ("envchange", 2, [()])]
            if not self.jobs:
                cats.append(("finalize", 6, [()]))
            cats.append(("crash", 2 if self.startup else 1, [()]))
            if self.startup:
                # transactions of model/GraphExt.v (outside the 15-operation alphabet)
                if running:
                    cats.append(("nglob", 7, [(l,) for l in running]))
                cats.append(("frame", 2, [()]))
                if not self.jobs:
                    cats += [("globchange", 3, [()]), ("revert", 2, [()]), ("failedpending", 3, [()]),
                             ("reboot", 1, [()])]
            name, _, args = rng.choices(cats, weights=[c[1] for c in cats])[0]
            c = (name, *rng.choice(args))
            await getattr(self, "g_" + c[0])(*c[1:])
        return self.trace

    # -- generator actions --------------------------------------------------------------------
    async def g_dispatch(self):
        r = await self.impl.dispatch()
        if r is None:
            return
        if r[0] == "!":
            self.trace.append((("dispatch_error",), "internal", r[1], await self.snapshot()))
            return
        label, kind, has_hash = r
        d = await self.snapshot()
        self.trace.append((("dispatch", label), "ok", kind, d))
        self.opcount["dispatch:" + kind] = self.opcount.get("dispatch:" + kind, 0) + 1
        if kind == "ValidateDynamicJob":
            self.jobs[label] = "validate"
        elif has_hash:
            self.jobs[label] = "check"
        else:
            self.jobs[label] = "run0"

    async def g_begin(self, label):
        # execute_job: _new_run may fail early on unexpected input changes
        if self.rng.random() < 0.08:
            await self.early_input_failure(label)
            return
        await self.record(("reset_for_rerun", label))
        self.jobs[label] = "run"

    async def early_input_failure(self, label):
        inputs = [a[1] for a, b, dy in self.d["deps"] if b == ("step", label) and a[0] == "file"
                  and self.fstate.get(a[1]) in (FileState.BUILT.value, FileState.CONFIRMED.value)
                  and not self.detached.get(a, True)]
        self.jobs.pop(label, None)
        if inputs:
            p = self.rng.choice(inputs)
            h = self.rng.choice([None, self.newhash()])
            await self.record(("update_hashes", "FAILED", ((p, h),)))
        await self.record(("exec_end", label, (), "FAILED", (), False, False))

    async def g_declare(self, label):
        await self.record(("declare_static", ("step", label), self.subset(FILES, 1, 3)))

    async def g_tree(self, label):
        await self.record(("register_tree", ("step", label), self.rng.choice(TREES)))

    async def g_treefiles(self, label):
        """Static declarations under a tree path (before or after the tree; own or foreign tree) and
        the same-creator file-then-tree hand-over."""
        tree = self.rng.choice(TREES)
        under = [f for f in FILES if f.startswith(tree)]
        if under:
            await self.record(("declare_static", ("step", label), self.subset(under, 1, 2)))
        if self.rng.random() < 0.6:
            await self.record(("register_tree", ("step", label), tree))

    async def g_treeforeign(self, label):
        """A running step registers a tree over attached static files that another creator declared
        (rejected: nothing may be handed over); without such files, a plain registration."""
        static = (FileState.UNCONFIRMED.value, FileState.MISSING.value, FileState.CONFIRMED.value)
        cands = sorted({tree for tree in TREES for f in FILES
                        if f.startswith(tree) and not self.detached.get(("file", f), True)
                        and self.fstate.get(f) in static
                        and self.creator.get(("file", f)) not in (None, ("step", label))})
        tree = self.rng.choice(cands) if cands else self.rng.choice(TREES)
        await self.record(("register_tree", ("step", label), tree))

    async def g_define(self, label):
        rng = self.rng
        new = rng.choice(STEPS)
        inp = self.subset(FILES, 0, 2)
        out = self.subset([f for f in FILES if f not in inp or rng.random() < 0.1], 0, 2)
        vol = self.subset([f for f in FILES if (f not in inp and f not in out) or rng.random() < 0.1], 0, 1) \
            if rng.random() < 0.25 else ()
        env = self.subset(ENVS, 0, 1) if rng.random() < 0.3 else ()
        need = rng.choice(["DEFAULT", "DEFAULT", "OPTIONAL", "PLAN"])
        oc = await self.record(("define_step", ("step", label), new, inp, env, out, vol, need))
        if oc == "ok":
            self.defs[new] = (inp, env, out, vol, need)

    async def g_redefine(self, label):
        """A running step declares again, with the identical specification, a step that has been
        detached (typically by the rerun of its creator): the full-recycle path of define_step."""
        cand = sorted(l for l in self.defs
                      if self.detached.get(("step", l), False) and l in self.sstate and l != label)
        if not cand:
            return
        new = self.rng.choice(cand)
        inp, env, out, vol, need = self.defs[new]
        await self.record(("define_step", ("step", label), new, inp, env, out, vol, need))

    async def g_amend(self, label):
        rng = self.rng
        inp = self.subset(FILES, 0, 2)
        out = self.subset(FILES, 0, 1) if rng.random() < 0.3 else ()
        vol = self.subset(FILES, 0, 1) if rng.random() < 0.15 else ()
        env = self.subset(ENVS, 0, 1) if rng.random() < 0.2 else ()
        await self.record(("amend_step", label, inp, env, out, vol))

    async def g_end(self, label):
        rng = self.rng
        outs = self.outputs_of(label)
        r = rng.random()
        pre = ()
        if r < 0.55:
            # success: every output on disk; new_out_hashes = those that differ from the stored hash
            hs = self.success_hashes(label)
            sloppy = False
            if self.startup and hs and rng.random() < 0.6:
                keep = tuple(x for x in hs[1:] if rng.random() < 0.4)   # sloppy: outputs not reported
                sloppy, hs = True, keep
            op = ("exec_end", label, (), "SUCCEEDED", hs, True, False)
            if sloppy:
                self.jobs.pop(label, None)
                await self.record(op)
                if rng.random() < 0.6:
                    await self.g_crash()            # killed right afterwards: restart
                return
        elif r < 0.75:
            hs = tuple((p, rng.choice([None, self.newhash()])) for p in outs if rng.random() < 0.7)
            op = ("exec_end", label, (), "FAILED", hs, False, False)
        elif r < 0.92:
            hs = tuple((p, rng.choice([None, self.newhash()])) for p in outs if rng.random() < 0.5)
            op = ("exec_end", label, (), "FAILED", hs, False, True)
        else:
            inputs = [a[1] for a, b, dy in self.d["deps"] if b == ("step", label) and a[0] == "file"
                      and self.fstate.get(a[1]) in (FileState.BUILT.value, FileState.CONFIRMED.value)
                      and (self.detached.get(("step", label), True) or not self.detached.get(a, True))]
            pre = tuple((p, rng.choice([None, self.newhash()])) for p in sorted(set(inputs))[:2])
            hs = tuple((p, rng.choice([None, self.newhash()])) for p in outs if rng.random() < 0.5)
            op = ("exec_end", label, pre, "FAILED", hs, False, False)
        self.jobs.pop(label, None)
        await self.record(op)

    async def g_skip(self, label):
        rng = self.rng
        self.jobs.pop(label, None)
        if self.startup and rng.random() < 0.25:
            await self.record(("skip_overtaken", label))
            return
        if rng.random() < 0.5:
            hs = self.success_hashes(label)
            await self.record(("exec_end", label, (), "SUCCEEDED", hs, True, False))
        elif rng.random() < 0.15:
            await self.early_input_failure(label)
        else:
            await self.record(("reset_to_pending", label))

    async def g_validate(self, label):
        self.jobs.pop(label, None)
        if self.rng.random() < 0.5:
            await self.record(("validate_pending", label))
        else:
            await self.record(("reset_to_pending", label))

    async def g_hold(self, label):
        await self.record(("hold", label))

    async def g_release(self, label):
        await self.record(("release", label))

    async def g_confirm(self):
        unconf = sorted(l for l, s in self.fstate.items() if s == FileState.UNCONFIRMED.value)
        if not unconf:
            return
        pick = self.subset(unconf, 1, 3)
        hs = tuple((p, self.rng.choice([None, self.newhash(), self.newhash()])) for p in pick)
        await self.record(("update_hashes", "CONFIRMED", hs))

    async def g_external(self):
        # watcher / rescan: attached files in relevant states
        ok = (FileState.CONFIRMED.value, FileState.MISSING.value, FileState.BUILT.value,
              FileState.OUTDATED.value)
        cand = sorted(l for l, s in self.fstate.items()
                      if s in ok and not self.detached.get(("file", l), True))
        if not cand:
            return
        pick = self.subset(cand, 1, 2)
        hs = []
        for p in pick:
            st = self.fstate[p]
            h = self.rng.choice([None, self.newhash()])
            if st == FileState.MISSING.value and h is None:
                continue  # unchanged EXTERNAL results are not applied
            hs.append((p, h))
        if hs:
            await self.record(("update_hashes", "EXTERNAL", tuple(hs)))

    async def g_envchange(self):
        cand = sorted(l for l in self.sstate if not self.detached.get(("step", l), True))
        # prefer, half of the time, the creators of steps whose job is in flight: their rerun
        # detaches a step that is still RUNNING
        busy = sorted({c[1] for l in self.jobs for c in [self.creator.get(("step", l))]
                       if c is not None and c[0] == "step" and c[1] in cand})
        if busy and self.rng.random() < 0.5:
            cand = busy
        if cand:
            await self.record(("mark_step_pending", self.rng.choice(cand)))

    async def g_finalize(self):
        await self.record(("delete_detached",))

    async def g_crash(self):
        self.jobs.clear()
        if self.startup:
            await self.record(("check_consistency",))
            if self.rng.random() < 0.3:
                await self.g_reboot()
            # the REAL startup.reset_interrupted_steps: two transactions, observed separately
            for item in await self.impl.reset_interrupted_real():
                self.trace.append(item)
                k = item[0][0] + ":" + item[1]
                self.opcount[k] = self.opcount.get(k, 0) + 1
            await self.snapshot()
            return
        await self.record(("reset_interrupted",))

    # -- transactions outside the 15-operation alphabet (model/GraphExt.v) ------------------------
    async def g_reboot(self):
        """Workflow.initialize_boot on an existing database (no-op, or re-initialisation when plan.py
        is not CONFIRMED: every product of the root is detached first)."""
        if self.rng.random() < 0.4 and self.fstate.get("plan.py") == FileState.CONFIRMED.value \
                and not self.detached.get(("file", "plan.py"), True):
            await self.record(("update_hashes", "EXTERNAL", (("plan.py", None),)))
        await self.record(("init_boot", None if self.rng.random() < 0.4 else self.newhash()))

    async def g_nglob(self, label):
        paths = tuple(p for p in ("g0", "g1") if self.rng.random() < 0.5)
        await self.record(("frame", "nglob", label, "g*", paths))

    async def g_globchange(self):
        pick = lambda: {p for p in ("g0", "g1", "g2") if self.rng.random() < 0.4}
        deleted = pick()
        updated = pick() - deleted
        await self.record(("invalidate_steps", (), tuple(sorted(deleted)), tuple(sorted(updated))))

    async def g_revert(self):
        await self.record(("revert_optional", ()))

    async def g_failedpending(self):
        failed = tuple(sorted(l for l, st in self.sstate.items()
                              if st == StepState.FAILED.value and not self.detached.get(("step", l), True)))
        if failed:
            await self.record(("mark_steps_pending", failed))

    async def g_frame(self):
        r = self.rng.random()
        if r < 0.4 and self.d["envs"]:
            await self.record(("frame", "env_value", self.rng.choice(["a", "b", None]), self.rng.choice(ENVS)))
        elif r < 0.7:
            await self.record(("frame", "reconcile"))
        elif self.sstate:
            await self.record(("frame", "duration", self.rng.choice(sorted(self.sstate))))

    async def scenario_optional(self):
        """An OPTIONAL producer runs because a DEFAULT consumer needs it; the plan is rerun and declares
        only the producer again; after finalize (the consumer is deleted) the producer is optional
        again and finalize.revert_optional_steps puts it back to PENDING and its outputs to PLANNED."""
        rng = self.rng
        plan = "./plan.py"
        if not await self.run_to_running(plan):
            return
        a, b = rng.sample(STEPS, 2)
        vol = ("f5",) if rng.random() < 0.75 else ()       # a volatile output must stay VOLATILE
        spec_a = ((), (), ("f1",) if rng.random() < 0.6 else ("f1", "f2"), vol, "OPTIONAL")
        spec_b = (("f1",), (), ("f3",), (), "DEFAULT")
        for lab, spec in ((a, spec_a), (b, spec_b)):
            if await self.record(("define_step", ("step", plan), lab, *spec)) != "ok":
                return
            self.defs[lab] = spec
        self.jobs.pop(plan, None)
        await self.record(("exec_end", plan, (), "SUCCEEDED", (), True, False))
        for lab in (a, b):
            if not await self.run_to_running(lab):
                return
            self.jobs.pop(lab, None)
            await self.record(("exec_end", lab, (), "SUCCEEDED", self.success_hashes(lab), True, False))
        await self.record(("mark_step_pending", plan))
        if not await self.run_to_running(plan):
            return
        await self.record(("define_step", ("step", plan), a, *spec_a))
        self.jobs.pop(plan, None)
        await self.record(("exec_end", plan, (), "SUCCEEDED", (), True, False))
        await self.record(("delete_detached",))
        await self.g_dispatch()                     # recomputes _implied_need
        if not self.jobs:
            await self.g_revert()


# ---------------------------------------------------------------------------------------------
# Gallina printing
# ---------------------------------------------------------------------------------------------

KIND = {"root": "KRoot", "file": "KFile", "step": "KStep", "st": "KTree"}
NEEDC = {"OPTIONAL": "NOptional", "DEFAULT": "NDefault", "PLAN": "NPlan"}
CAUSEC = {"EXTERNAL": "CExternal", "SUCCEEDED": "CSucceeded", "FAILED": "CFailed", "CONFIRMED": "CConfirmed"}


def cq_key(k):
    return f"({KIND[k[0]]}, {coq_str(k[1])})"


def cq_strs(xs):
    return coq_list([coq_str(x) for x in xs])


def cq_hs(hs):
    return coq_list([f"({coq_str(p)}, {'None' if h is None else f'Some {h}'})" for p, h in hs])


def cq_op(op):
    if op[0] == "register_tree":
        return f"OpRegisterTree {cq_key(op[1])} {coq_str(op[2])}"
    return f"OpBase ({cq_base_op(op)})"


def cq_base_op(op):
    n = op[0]
    if n == "declare_static":
        return f"OpDeclareStatic {cq_key(op[1])} {cq_strs(sorted(set(op[2])))}"
    if n == "update_hashes":
        return f"OpUpdateHashes {CAUSEC[op[1]]} {cq_hs(sorted(op[2]))}"
    if n == "define_step":
        _, c, l, i, e, o, v, nd = op
        return f"OpDefineStep {cq_key(c)} {coq_str(l)} {cq_strs(i)} {cq_strs(e)} {cq_strs(o)} {cq_strs(v)} {NEEDC[nd]}"
    if n == "amend_step":
        _, l, i, e, o, v = op
        return f"OpAmendStep {coq_str(l)} {cq_strs(i)} {cq_strs(e)} {cq_strs(o)} {cq_strs(v)}"
    if n == "dispatch":
        return f"OpDispatch {coq_str(op[1])}"
    if n == "reset_for_rerun":
        return f"OpResetForRerun {coq_str(op[1])}"
    if n == "exec_end":
        _, l, pre, cause, hs, ok, wd = op
        return (f"OpExecEnd {coq_str(l)} {cq_hs(sorted(pre))} {CAUSEC[cause]} {cq_hs(sorted(hs))} "
                f"{coq_bool(ok)} {coq_bool(wd)}")
    if n == "reset_to_pending":
        return f"OpResetToPending {coq_str(op[1])}"
    if n == "validate_pending":
        return f"OpValidatePending {coq_str(op[1])}"
    if n == "mark_step_pending":
        return f"OpMarkStepPending {coq_str(op[1])}"
    if n == "delete_detached":
        return "OpDeleteDetached"
    if n == "hold":
        return f"OpHold {coq_str(op[1])}"
    if n == "release":
        return f"OpRelease {coq_str(op[1])}"
    if n == "reset_interrupted":
        return "OpResetInterrupted"
    raise AssertionError(n)


def cq_dump(d):
    def okey(k):
        return "None" if k is None else f"(Some {cq_key(k)})"
    nodes = coq_list([f"({cq_key(k)}, {okey(c)}, {coq_bool(det)})" for k, c, det in d["nodes"]])
    def hid(h):
        if h is None:
            return "None"
        if h == "U":
            return "(Some 0)"
        if h == "?":
            return "(Some 999999)"
        return f"(Some {h})"
    files = coq_list([f"({coq_str(l)}, {s}, {hid(h)})" for l, s, h in d["files"]])
    steps = coq_list([f"({coq_str(l)}, {s}, {nd}, {coq_bool(df)}, {dc}, {ho}, {coq_bool(hh)})"
                      for l, s, nd, df, dc, ho, hh in d["steps"]])
    deps = coq_list([f"({cq_key(a)}, {cq_key(b)}, {coq_bool(dy)})" for a, b, dy in d["deps"]])
    shash = cq_strs(d["shash"])
    envs = coq_list([f"({coq_str(s)}, {coq_str(n)}, {coq_bool(dy)})" for s, n, dy in d["envs"]])
    return f"(mkDump {nodes} {files} {steps} {deps} {shash} {envs})"


# a non-terminating statement never commits: for the comparison with the model it is an internal failure
OUTC = {"ok": "OOk", "usage": "OUsage", "internal": "OInternal", "hang": "OInternal"}


def cq_trace(trace, defer_cap):
    items = []
    for op, outcome, detail, d in trace:
        if op[0] == "dispatch_error":
            continue
        items.append(f"({cq_op(op)}, {OUTC[outcome]}, {cq_dump(d)})")
    return f"check_trace_t {defer_cap} " + coq_list(items)


HEADER = ("From Coq Require Import List NArith Bool.\nImport ListNotations.\n"
          "From SV Require Import lib.Bytes model.Graph model.GraphDump model.GraphTree.\nOpen Scope N_scope.\n")


async def gen_trace(rng, length, defer_cap=3, startup=False):
    impl = Impl(defer_cap)
    await impl.start()
    try:
        g = Gen(rng, impl, length, startup=startup)
        trace = await g.run()
        if startup:
            # end with the startup check: after its repair the strict check below must pass
            await g.record(("check_consistency",))
            trace = g.trace
        strict = await impl.strict_check()
        return trace, g.opcount, strict
    finally:
        impl.close()
