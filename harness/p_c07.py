"""C07: A successful build leaves no orphaned outputs behind."""
from __future__ import annotations

import os

from path import Path

from . import clean_common as cc
from . import clean_own as co
from . import common
from .wfutil import WF

PID = "C07"
PROPS_FILE = "props/C07.v"
MODEL_TARGETS = ["model/TrellisDD.vo", "model/Clean.vo"]
RULE = ("E2: random workflows grown through the real Workflow API (steps with outputs and volatile outputs in "
        "nested directories and working directories, static files, static trees with product files, amended "
        "inputs and outputs, nested creators, a creator/dependency cycle, optional steps, partial completion), "
        "then a random subset dropped (Step/File/StaticTree.detach, or reset_for_rerun of a creator followed by "
        "re-declaring some of its steps); the real revert_optional_steps and Workflow.delete_detached versus "
        "model/TrellisDD.v: surviving nodes with creator, detached flag, file state and hash, step hash presence, "
        "dependency rows, to_be_deleted files with hashes and directory marks. A case is non-trivial when at least "
        "one node is deleted and at least one detached node survives or a file is queued; distinct by the dumped "
        "graph. Oracle: the real Builder.finalize on real temporary trees after a successful unrestricted build: "
        "every unmodified output of a dropped or reverted optional step is gone from disk and graph unless a "
        "surviving chain to an attached consumer or a cycle holds it; emptied directories are gone; whether an "
        "optional step is needed is recomputed by the oracle from the declared need and the edges, never read from "
        "step._implied_need.  Between the rounds of plan edits (1-3 per case) the scheduler's metadata update runs, "
        "as in a real build.  Directed families, every shape on every run: nested-drop (a chain of creators / "
        "sub-plans of depth <= 3, thorough 4; a producer at level lp, its only consumer at level lc > lp, the creator "
        "of level ld in lp < ld <= lc no longer created; producer optional or not, output regular / volatile / in "
        "a directory, two optional producers in a row) at the Workflow level and through the real serve(); the "
        "three-build rename scenarios.  E3: harness/clean_e3gen.py histories (plan trees of depth <= 4, optional "
        "producers consumed only further down, whole sub-plans dropped and re-added at any level, steps dropped / "
        "moved / renamed / re-roled, static() lines dropped while the file is still an input) and harness/e3_gen.py "
        "histories with user tampering, --no-clean and targets; after every successful unrestricted build the "
        "property itself is evaluated on disk and graph text.  Symbolic links (harness/clean_own.py): queued / orphaned "
        "outputs that still are exactly what the step left there -- including outputs that a step made as a symbolic link "
        "to another of its outputs (directed family link-pair: target sorting before / after the link) -- must be gone "
        "after remove_deletable_files, after Builder.finalize, and after a build through serve().")
TRUSTED_BASE = [
    "Coq 8.16.1 kernel (vm_compute in Examples and in the correspondence evaluation; no native_compute)",
    "Print Assumptions: Closed under the global context for every C07 theorem",
    "translator/gen_clean.py (AST/SQL shapes of Builder.finalize, File/Step.before_delete, Trellis/Workflow.delete_detached, revert_optional_steps)",
    "harness/clean_common.py + clean_e3gen.py + p_c07.py (graph dump by SQL, Gallina printers, scenario generators, "
    "the oracle's own computation of 'needed' and 'held')",
    "model evaluated inside Coq by vm_compute; no extraction",
]
ASSUMPTIONS = [
    "A-norm: file labels are normalised relative paths; working directories are normalised relative paths with an optional trailing separator",
    "A-stat: equal (mtime, size, inode, mode) implies equal content (FileHash.refreshed fast path; C13)",
    "the order in which one sweep of the SQL cursor of Trellis.delete_detached meets eligible rows does not matter (proved: dd_survivors characterises the survivors independently of order)",
    "file rows in BUILT/OUTDATED carry a hash (CHECK constraint of the file table)",
    "A-links: only the last component of a path is ever a symbolic link; link targets stay inside the project",
]


def generate(ctx):
    from translator import gen_clean
    text, facts = gen_clean.generate()
    ctx.write_gen("GenClean.v", text)
    ctx.facts = facts
    ctx.stats["finalize_guards"] = facts["guards"]
    ctx.stats["finalize_cleanup_calls"] = facts["calls"]


# ---------------------------------------------------------------------------------------------
# E2: revert_optional_steps + delete_detached against the model
# ---------------------------------------------------------------------------------------------


async def _e2_cases(ctx, ncase):
    from stepup.core.finalize import revert_optional_steps
    rng = ctx.rng
    cases = []
    for k in range(ncase):
        hids = cc.HashIds()
        async with WF() as w:
            async with w.db:
                b = cc.Builder(w, rng, disk=False)
                made = b.grow(rng.randint(2, 7))
                b.complete_all(made, fraction=rng.choice([1.0, 0.7]))
                b.meta()
                b.outdate_some(made, prob=0.2)
                b.evolve(made)
            await cc.update_meta(w)
            do_revert = rng.random() < 0.5
            async with w.db:
                before = cc.dump_graph(w, hids)
            client, reporter = cc.make_reporter()
            err = None
            try:
                if do_revert:
                    await revert_optional_steps(w.wf, reporter)
                async with w.db:
                    w.wf.delete_detached()
            except AssertionError as e:
                err = f"AssertionError: {e}"
            async with w.db:
                after = cc.dump_graph(w, hids)
            qfiles, qdirs = cc.dump_queue(w.wf, hids)
            cases.append({"before": before, "after": after, "qfiles": qfiles, "qdirs": sorted(qdirs),
                          "revert": do_revert, "err": err, "log": b.log})
    return cases


def _e2_check(c):
    g = cc.coq_graph(c["before"])
    exp = cc.coq_graph(c["after"])
    if c["revert"]:
        start = f"(revert_optional {g} empty_queue)"
    else:
        start = f"({g}, empty_queue)"
    return (f"let '(g0, q0) := {start} in let o := workflow_dd g0 in "
            f"Bool.eqb (dd_err o) {cc.coq_bool(c['err'] is not None)} && "
            + ("true" if c["err"] is not None else
               f"graph_match {exp} (dd_g o) && "
               f"queue_match {cc.coq_qfiles(c['qfiles'])} {cc.coq_strs(c['qdirs'])} (queue_deleted (attached_tree_labels g0) (dd_deleted o) q0)"))


def correspondence(ctx):
    cases = cc.run(_e2_cases(ctx, ctx.scale(100, 1500)))
    checks = []
    for c in cases:
        nb, na = len(c["before"]["nodes"]), len(c["after"]["nodes"])
        det_after = sum(1 for n in c["after"]["nodes"] if n["det"])
        nontrivial = nb > na and (det_after > 0 or bool(c["qfiles"]))
        ctx.case(repr(c["before"]), nontrivial)
        ctx.count("e2_nodes_deleted", nb - na)
        ctx.count("e2_detached_survivors", det_after)
        ctx.count("e2_queued_files", len(c["qfiles"]))
        ctx.count("e2_revert_cases", int(c["revert"]))
        ctx.count("e2_assertion_errors", int(c["err"] is not None))
        checks.append(_e2_check(c))
    for c in cases[:2]:
        ctx.sample({"E2": {"nodes_before": len(c["before"]["nodes"]), "nodes_after": len(c["after"]["nodes"]),
                           "queued": c["qfiles"], "dirs": c["qdirs"], "log": c["log"][:12]}})
    ctx.count("E2_cases", len(checks))
    try:
        bad = common.run_cases(ctx, "e2", cc.HEADER, checks, chunk=60)
    except RuntimeError as e:
        if not ctx.failures:
            raise
        ctx.notes.append(f"model side of E2 not evaluated (an obligation is already broken): {str(e)[:200]}")
        bad = []
    ctx.traces_validated += len(checks) - len(bad)
    for i in bad[:3]:
        c = cases[i]
        ctx.add_failure("correspondence", "E2:delete_detached", "E2:delete_detached:model-differs",
                        "real revert_optional_steps/delete_detached and model/TrellisDD.v disagree on surviving nodes, "
                        "dependency rows or to_be_deleted",
                        witness={"operations": c["log"], "revert": c["revert"], "before": cc.graph_json(c["before"]),
                                 "after": cc.graph_json(c["after"]), "to_be_deleted": c["qfiles"], "dirs": c["qdirs"],
                                 "error": c["err"]})


async def _directed_cases(ctx):
    """Every shape of the nested-drop family (creator chains of depth <= 3, thorough: 4); variants rotate with the seed."""
    out = []
    for j, shape in enumerate(cc.nested_drop_shapes(ctx.scale(3, 4))):
        with cc.project_dir():
            w = cc.nested_drop_witness(*shape, j + ctx.seed)
            r = await cc.disk_case(ctx.rng, "none", cc.HashIds(), witness=w, quiet=(j + ctx.seed) % 4 != 0)
            r["directed"] = w.info
            out.append(r)
    return out


async def _finalize_cases(ctx, n):
    out = await _directed_cases(ctx)
    for k in range(n):
        hids = cc.HashIds()
        with cc.project_dir():
            if k % 4 == 3:
                # three builds: output renamed while a new step still reads the old name
                j = k // 4
                w = cc.rename_witness(ctx.rng, volatile=(j % 2 == 1), third=["drop-b", "b-reads-new"][(j // 2) % 2],
                                      tamper=(j % 5 == 4))
                r = await cc.disk_case(ctx.rng, "none", hids, witness=w)
                r["rename"] = w.info
                out.append(r)
            else:
                out.append(await cc.disk_case(ctx.rng, "none", hids))
    return out


def _wit(res):
    return {"directed": res.get("directed"),
            "operations": res["log"], "returncode": res["returncode"], "tree_before": res["before_fs"],
            "tree_after": res["after_fs"], "events": res["events"][-12:], "edits": res["edits"],
            "graph_before": cc.graph_json(res["before_graph"])}


def _run_oracle(ctx, n, suffix=""):
    fin = cc.run(_finalize_cases(ctx, n))
    seen = set()
    checks = []
    for r in fin:
        unguarded = not cc.guarded(r)
        nrem = sum(1 for p in r["before_fs"] if p not in r["after_fs"])
        ndel = len(r["before_graph"]["nodes"]) - len(r["after_graph"]["nodes"])
        ctx.case(("fin", repr(r["before_graph"]), repr(r["before_fs"])), unguarded and (nrem > 0 or ndel > 0))
        ctx.count("finalize_successful_unrestricted", int(unguarded))
        ctx.count("finalize_removed_paths", nrem)
        ctx.count("finalize_deleted_nodes", ndel)
        ctx.count("finalize_detached_survivors", sum(1 for x in r["after_graph"]["nodes"] if x["det"]))
        if "directed" in r:
            ctx.count("directed_nested_drop_cases", 1)
            ctx.count("directed_nested_drop_optional_producer", int(r["directed"]["optional"]))
        if "rename" in r:
            ctx.count("rename_three_build_cases", 1)
            old = r["rename"]["old"]
            ctx.count("rename_old_output_removed", int(old in r["before_fs"] and old not in r["after_fs"]))
            ctx.count("rename_old_output_kept_after_user_edit", int(r["rename"]["tamper"] and old in r["after_fs"]))
        for sig, detail in cc.oracle_c07(r):
            if sig == "finalize:orphan-file-kept" and r.get("rename", {}).get("volatile") and r["rename"]["old"] in detail:
                sig = "rename:volatile-output-forgotten"     # same defect as the E3-level signature
            if sig not in seen:
                seen.add(sig)
                ctx.add_failure("oracle", "finalize", "oracle:" + sig + suffix, detail, witness=_wit(r))
        checks.append(cc.finalize_check(r))
    try:
        bad = common.run_cases(ctx, "fin", cc.HEADER, checks, chunk=30)
    except RuntimeError as e:
        # the oracle above does not depend on the model; with coq/gen stale or missing (translator failed closed)
        # the comparison cannot be evaluated and the run goes on
        if not ctx.failures:
            raise
        ctx.notes.append(f"model side of E1c not evaluated (an obligation is already broken): {str(e)[:200]}")
        bad = []
    ctx.traces_validated += len(checks) - len(bad)
    ctx.count("E1c_cases", len(checks))
    for i in bad[:3]:
        ctx.add_failure("correspondence", "E1c:finalize", "E1c:finalize:model-differs" + suffix,
                        "real Builder.finalize and the model's finalize disagree on tree, REMOVE events or graph",
                        witness=_wit(fin[i]))
    ctx.sample({"oracle": "after a successful unrestricted finalize with cleaning: detached outputs that nothing holds "
                          "(search formulation: no attached node and no cycle reachable) are gone from graph and disk when "
                          "unmodified; outputs of unneeded optional steps are reset and removed; emptied directories are gone",
                "signatures": sorted(seen)})


def _e3_part(ctx, n):
    if not cc.e3_available():
        ctx.notes.append("harness/e3.py not importable: E3 part skipped")
        return
    seen = set()
    from . import e3 as _e3
    for j in range(max(6, n // 2)):
        try:
            viol, rec = cc.e3_rename_case(ctx.rng, volatile=(j % 2 == 1), third=["drop-b", "b-reads-new"][(j // 2) % 2],
                                          tamper=(j % 6 >= 4))
        except _e3.E3Error as exc:
            ctx.count("e3_harness_errors", 1)
            ctx.notes.append(f"e3 rename case: {str(exc)[:200]}")
            continue
        ctx.case(("e3-rename", repr(rec["info"])), True)
        ctx.count("e3_rename_cases", 1)
        ctx.count("e3_rename_middle_build_incomplete", int((rec["rc"][1] & ~8) != 0))
        ctx.count("e3_rename_third_build_successful", int((rec["rc"][2] & ~8) == 0))
        for sig, detail in viol:
            if sig not in seen:
                seen.add(sig)
                ctx.add_failure("oracle", "e3-rename", sig, detail, witness=rec)
    stats = {}
    recs = cc.e3_directed("nested-drop", ctx.seed, ctx.scale(3, 4))
    project, history = cc.e3_revol_history()
    recs += cc.e3_run_case(project, history, 0, "revol", vary=False)
    recs += cc.e3_histories(ctx.rng, n, 7000 + 1000 * ctx.seed, family="nested", stats=stats)
    recs += cc.e3_histories(ctx.rng, max(4, n // 2), 7000 + 1000 * ctx.seed)
    for rec in recs:
        if "error" in rec:
            ctx.count("e3_harness_errors", 1)
            ctx.notes.append(f"e3 {rec['family']} seed {rec['seed']} phase {rec['phase']}: {rec['error'][:160]}")
            continue
        ok = not (rec["kw"].get("targets") or not rec["kw"].get("clean", True) or (rec["rc"] & ~8) != 0)
        nrem = sum(1 for p in rec["before_files"] if p not in rec["after_files"])
        fam = rec["family"]
        ctx.case(("e3", fam, rec["seed"], rec["phase"]), ok and nrem > 0)
        ctx.count("e3_builds", 1)
        ctx.count(f"e3_builds_{fam}", 1)
        ctx.count("e3_successful_unrestricted_builds", int(ok))
        ctx.count("e3_removed_files", nrem)
        if ok:
            steps, needed = cc.e3_needed_steps(rec["graph"])
            ctx.count("e3_unneeded_optional_steps_after_successful_builds", len(steps) - len(needed))
        for sig, detail in cc.e3_oracle_c07(rec):
            if sig not in seen:
                seen.add(sig)
                ctx.add_failure("oracle", "e3", sig, detail, witness=cc.e3_witness(rec))
    for key, v in sorted(stats.items()):
        ctx.count("e3_nested_gen_" + key, v)


def _own_part(ctx, scale, suffix=""):
    """Trees with symbolic links (harness/clean_own.py), implementation only: every queued / orphaned output that
    still is exactly what the step left there is gone after the cleanup -- on hand-made queues, after
    Builder.finalize on projects grown through the Workflow API, and through the real serve()."""
    co.run_families(ctx, 30 * scale, 16 * scale, 0, c06=False, c07=True, suffix=suffix)
    if cc.e3_available():
        co.run_e3_replace(ctx, min(52, 6 * scale), c06=False, c07=True, suffix=suffix)
    # the real command line: a shell step that makes a data file and a symbolic link to it, then is dropped
    co.run_cli_link_pairs(ctx, ["target-sorts-after"] if scale == 1 else ["target-sorts-after", "target-sorts-before"],
                          suffix=suffix)


def oracle(ctx):
    _own_part(ctx, ctx.scale(1, 10))
    _run_oracle(ctx, ctx.scale(30, 500))
    _e3_part(ctx, ctx.scale(12, 150))


def search(ctx):
    _own_part(ctx, 10, suffix=":search")
    _run_oracle(ctx, 300, suffix=":search")


def replay(ctx, obj):
    print("replaying", str(obj["failure"].get("witness"))[:2000])
    correspondence(ctx)
    oracle(ctx)
