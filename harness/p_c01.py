"""C01: an incremental build is equivalent to a build from scratch."""
from __future__ import annotations

import asyncio
import copy
import hashlib
import json
import random
import time

from . import c01_detached as cdet
from . import c01_gen as cgen
from . import c01_graph as cg
from . import c01_outputs as cout
from . import c01_overrides as cov
from . import c01_replace as crep          # also extends e3.apply_edit with op 'replace_keep'
from . import c01_oracle as co
from . import common, e2, e3, e3_gen

PID = "C01"
PROPS_FILE = "props/C01.v"
MODEL_TARGETS = ["model/NoStale.vo", "model/Engine.vo", "model/EnginePlan.vo"]
RULE = ("E3 differential oracle: seeded generator of projects (static files, static trees, static patterns, "
        "globs with one step per match, chains / diamonds, multiple and volatile outputs, env vars, optional "
        "steps, resources, script steps that amend inputs / outputs / env, sub-plans with hold/release) and "
        "histories of 1-6 phases of edits (change / add / delete a source; REPLACE a source, step script or plan script by another file of the same size, mode and mtime (rename over: new inode); drop, re-add, redefine or add "
        "steps, declarations and sub-plans; add, change, remove one or remove ALL environment overrides (leading VAR=value words / env_overrides argument) of an otherwise identical step whose command reads the variable; change or unset an env var; change ALL tracked variables or all "
        "source inputs (same size) of one step in one phase and put a SUBSET back in a later phase -- steps "
        "track up to 3 declared and / or amended variables; scripts edited so that they amend another set of "
        "variables; a family in which PRODUCTS of steps are modified, deleted, rewritten with identical bytes or "
        "touched between two builds), each phase followed by a build by the "
        "real serve() (restart flavour; a share in watch flavour and a share with njob=3 under a seeded "
        "completion order); the final incremental result is compared with a from-scratch build of the final "
        "sources: return-code class, the active plan-defined part of the canonical graph (steps, files, "
        "states, creators, input and output edges, env vars, needs, resources, globs) and the bytes of every "
        "BUILT output. A case is non-trivial when at least one phase re-ran a plan or executed a step and the "
        "final build skipped or kept at least one step; distinct by (project, history). "
        "Graph level: E2 traces on the real Workflow with the invariant K evaluated on the real dump and by "
        "the Coq model; the D4 and D9 histories replayed transaction by transaction.")
TRUSTED_BASE = [
    "Coq 8.16.1 kernel; vm_compute in the refutation witnesses, Examples and the correspondence evaluation",
    "Print Assumptions: Closed under the global context for every C01 theorem",
    "coq/model/Graph.v (owned by C09) is hand-written and tied to workflow.py/step.py/trellis.py by the E2 "
    "correspondence; coq/model/NoStale.v (K_b) is tied to the same K computed from real database dumps",
    "coq/model/Engine.v is an abstraction (verifying-trace engine): digests are ingredient lists (licensed by "
    "C13 pre-image injectivity), step programs are Section variables (deterministic functions of what they "
    "read), tied to the real system by the executed/skipped-set correspondence on static-DAG projects",
    "harness/e3.py + e3_gen.py: real serve() in-process, simulated step commands, project/history generator",
    "harness/c01_oracle.py: the normalisation that defines 'active, plan-defined part' (design.d/C01.md)",
]
ASSUMPTIONS = [
    "step commands are deterministic functions of the files and env vars they read (simulated steps are)",
    "SHA-256 collision freedom on the compared pre-images (C13)",
    "no external writer between the last edit and the end of the build",
    "reading of the property for unfinished builds: OUTDATED and PLANNED are identified, what a PENDING or "
    "FAILED step created in an earlier run is not part of the defined workflow, an unneeded OPTIONAL step "
    "counts as not built when the cleanup pass was skipped, a DRAINED build is compared by return-code class",
]

KNOWN_NAMED = [co.SIG_D4, co.SIG_D9, co.SIG_D8, co.SIG_F1, co.SIG_F2, co.SIG_F3, co.SIG_F4, co.SIG_F5, co.SIG_F6, co.SIG_F7, co.SIG_F8, co.SIG_F9, co.SIG_F10]


def generate(ctx):
    pass


# ---------------------------------------------------------------------------------------------
# Correspondence (graph level): K on real dumps == K_b of the model; D4/D9 traces
# ---------------------------------------------------------------------------------------------

HEADER = e2.HEADER.replace(".\nOpen Scope", " model.NoStale.\nOpen Scope")


def _ops_term(trace):
    return common.coq_list([e2.cq_op(t[0]) for t in trace if t[0][0] != "dispatch_error"])


def _strs(xs):
    return common.coq_list([common.coq_str(x) for x in xs])


def correspondence(ctx):
    # (1) K_b versus K computed from the real database, on E2 traces of the real Workflow
    n, length = ctx.scale((10, 70), (60, 140))
    checks, meta = [], []
    for i in range(n):
        rng = random.Random(f"c01-e2-{ctx.seed}-{ctx.tier}-{i}")
        tr, cnt, _strict = asyncio.run(asyncio.wait_for(e2.gen_trace(rng, length), 120))
        tr = [t for t in tr if t[0][0] != "dispatch_error"]
        viols = [cg.k_violators(t[3]) for t in tr]        # K after EVERY transaction
        ctx.case(("e2-K", i, repr(tr[-1][3])), nontrivial=any(s == cg.SUCCEEDED for _, s, *_ in tr[-1][3]["steps"]))
        ctx.count("e2_traces")
        ctx.count("e2_transactions", len(tr))
        ctx.count("e2_states_with_K_violations", sum(1 for v in viols if v))
        ctx.count("e2_detached_completions", sum(
            1 for t in tr if t[0][0] == "exec_end" and dict((k, d) for k, _, d in t[3]["nodes"]).get(("step", t[0][1]))))
        ops = _ops_term(tr)
        checks.append(f"vtrace_eqb (K_violators_trace_gen apply_op_t {ops} (init_st 3)) "
                      f"{common.coq_list([_strs(v) for v in viols])}")
        meta.append(("K_b == K(real dump) after every transaction", tr))
    # (2) the D4 / D9 histories: the model reproduces every real dump, and the Coq constants are
    #     the histories that were replayed
    for name, ops, const in (("D4", cg.D4_OPS, "d4_ops"), ("D4-scratch", cg.D4_SCRATCH, "d4_scratch"),
                             ("D9", cg.D9_OPS, "d9_ops"), ("D9-scratch", cg.D9_SCRATCH, "d9_scratch")):
        tr = cg.replay(ops)
        checks.append(e2.cq_trace(tr, 3))
        meta.append((f"{name}: model == implementation", tr))
        checks.append(f"dump_eqb (state_at_t 3 {_ops_term(tr)}) (state_at 3 {const})")
        meta.append((f"{name}: replayed history == Coq constant {const}", tr))
        ctx.case(("fixed", name), nontrivial=True)
    bad = common.run_cases(ctx, "k", HEADER, checks, chunk=8)
    ctx.traces_validated += len(checks) - len(bad)
    for b in bad[:3]:
        what, tr = meta[b]
        ctx.add_failure("correspondence", "E2:K", f"E2:K:{what.split(':')[0]}",
                        f"model and implementation disagree: {what}",
                        witness={"ops": [list(map(str, t[:2])) for t in tr]})
    engine_correspondence(ctx)


def engine_correspondence(ctx):
    try:
        from . import c01_engine
    except ImportError:
        ctx.notes.append("Engine.v correspondence not built yet")
        return
    c01_engine.correspondence(ctx)
    c01_engine.correspondence_amend(ctx)
    from . import c01_plan
    c01_plan.correspondence_plan(ctx)


# ---------------------------------------------------------------------------------------------
# Oracle
# ---------------------------------------------------------------------------------------------


def fixed_cases() -> dict:
    """Minimal end-to-end witnesses of the named findings (E3 case JSON)."""
    def case(sources, plans, env=None, edits_extra=None):
        proj = e3.Project(sources=dict(sources), program={"scripts": {"plan.py": plans[0]}, "commands": {}},
                          env=dict(env or {}))
        hist = []
        for i, p in enumerate(plans[1:]):
            edits = list((edits_extra or {}).get(i, []))
            edits.append({"op": "script", "path": "plan.py", "actions": p})
            hist.append({"edits": edits})
        return co.case_json(proj, hist)
    cat = {"op": "step", "label": "cat", "inp": ["x.txt"], "out": ["y.txt"]}
    d4 = case({"x.txt": "data\n"}, [[{"op": "static", "paths": ["x.txt"]}, cat], [cat]])

    def s(env):
        return [{"op": "step", "label": "S", "env": env, "out": ["s.txt"]}]
    d9 = case({}, [s(["VA", "VB"]), s(["VA"])], env={"VA": "1", "VB": "2"})
    f6p = e3.Project(sources={}, env={"VA": "a"}, program={
        "scripts": {"plan.py": s(["VA"])}, "commands": {"S": [{"op": "getenv", "name": "VA"}, {"op": "auto"}]}})
    f6 = co.case_json(f6p, [{"edits": [{"op": "setenv", "name": "VA", "value": "b"}]},
                            {"edits": [{"op": "setenv", "name": "VA", "value": "a"}]}])
    out = {co.SIG_D4: d4, co.SIG_D9: d9, co.SIG_F6: f6}
    # minimised witnesses of the other named findings (found by the generator, kept in the corpus)
    for path in sorted((common.VERIF / "corpus" / "C01").glob("*.json")):
        obj = json.loads(path.read_text())
        out.setdefault(obj["signature"], obj["case"])
    return out


def guard_cases() -> dict:
    """Hand-made histories of the shapes that random generation reaches rarely; they are equal to
    from-scratch on the unchanged tree (a difference is reported under its own signature)."""
    def prog(scripts):
        return {"op": "program", "program": {"scripts": scripts, "commands": {}}}
    st = {"op": "static", "paths": ["s.txt"]}
    t = {"op": "step", "label": "t", "inp": ["s.txt"], "out": ["o.txt"]}
    u = {"op": "step", "label": "u", "inp": ["o.txt"], "out": ["u.txt"]}
    z = {"op": "step", "label": "z", "inp": ["undeclared.txt"], "out": ["z.txt"]}
    change = {"op": "write", "path": "s.txt", "content": "new\n"}
    out = {}
    # a step defined by a sub-plan is dropped, its input (a static file of the MAIN plan, which
    # does not rerun) changes while the step is detached, the step is re-added unchanged; the
    # detached node survives because the cleanup pass is skipped (z stays pending / --no-clean)
    for name, extra, build in (("skipped-cleanup", [z], {}), ("no-clean", [], {"clean": False})):
        main = [st, {"op": "static", "paths": ["p1.py"]}, {"op": "plan", "label": "./p1.py"}] + extra
        p = e3.Project(sources={"s.txt": "old\n"},
                       program={"scripts": {"plan.py": main, "p1.py": [t, u]}, "commands": {}})
        out["drop-change-readd:" + name] = co.case_json(p, [
            {"edits": [{"op": "script", "path": "p1.py", "actions": []}]},
            {"edits": [change]},
            {"edits": [{"op": "script", "path": "p1.py", "actions": [t, u]}]}], build=build)
    # drop a sub-plan, clean up, re-add it unchanged; with and without a change in between
    sub = [st, t]
    main1 = [{"op": "static", "paths": ["p1.py"]}, {"op": "plan", "label": "./p1.py"}, u]
    main2 = [{"op": "static", "paths": ["p1.py"]}]
    for name, mid in (("unchanged", []), ("changed", [{"edits": [change]}])):
        p = e3.Project(sources={"s.txt": "old\n"}, program={"scripts": {"plan.py": main1, "p1.py": sub}, "commands": {}})
        out["drop-subplan-cleanup-readd:" + name] = co.case_json(p, [
            {"edits": [{"op": "script", "path": "plan.py", "actions": main2}]}, *mid,
            {"edits": [{"op": "script", "path": "plan.py", "actions": main1}]}])
    # a producer is redefined with another output name while its consumer stays
    p = e3.Project(sources={"s.txt": "old\n"}, program={"scripts": {"plan.py": [st, t, u]}, "commands": {}})
    t2 = {"op": "step", "label": "t", "inp": ["s.txt"], "out": ["o2.txt"]}
    out["producer-output-renamed"] = co.case_json(p, [{"edits": [prog({"plan.py": [st, t2, u]})]},
                                                      {"edits": [prog({"plan.py": [st, t, u]})]}])
    # a child of a sub-plan completes WHILE DETACHED: its input (declared by the main plan) changes,
    # it rewrites its output with identical content, the sub-plan fails while the child is still
    # running (gates), the child then succeeds (or fails); the repaired sub-plan re-declares it
    # unchanged; the consumer of its output belongs to the main plan
    S = {"op": "step", "label": "S", "inp": ["s.txt"], "out": ["o.txt"]}
    C = {"op": "step", "label": "C", "inp": ["o.txt"], "out": ["c.txt"]}
    main = [{"op": "static", "paths": ["s.txt", "p1.py"]}, {"op": "plan", "label": "./p1.py"}, C]
    cmd = [{"op": "read", "paths": ["s.txt"], "required": True},
           {"op": "write", "path": "o.txt", "content": "constant\n"}]
    for name, fails in (("succeeds", False), ("fails", True)):
        p = e3.Project(sources={"s.txt": "v0\n"},
                       program={"scripts": {"plan.py": main, "p1.py": [S]}, "commands": {"S": cmd}})
        e1 = [{"op": "script", "path": "p1.py", "actions": [S, {"op": "gate", "name": "g1"}, {"op": "exit", "rc": 1}]},
              {"op": "write", "path": "s.txt", "content": "v1\n"}]
        e2_ = [{"op": "script", "path": "p1.py", "actions": [S]}]
        if fails:
            e1.append({"op": "command", "label": "S", "actions": cmd + [{"op": "exit", "rc": 1}]})
            e2_.append({"op": "command", "label": "S", "actions": cmd})
        out["child-completes-detached:" + name] = co.case_json(p, [
            {"edits": e1, "build": {"njob": 3, "schedule": {"order": ["g1", "end:./p1.py", "end:S"], "policy": "fifo"}}},
            {"edits": e2_}])
    # SEVERAL tracked variables of one step change in one restart, a SUBSET goes back to the
    # earlier values in a later restart (the others keep the new ones): declared variables of a
    # plain step, amended variables of a script step, one of each; 2 and 3 variables; a variable
    # that is unset at first
    def setenv(vals):
        return {"edits": [{"op": "setenv", "name": n, "value": v} for n, v in sorted(vals.items())]}

    def env_project(kind, names, env0):
        gets = [{"op": "getenv", "name": n} for n in names]
        if kind == "declared":
            label = "S " + " ".join("$" + n for n in names)
            plan = [{"op": "step", "label": label, "env": list(names), "out": ["s.txt"]}]
            prog = {"scripts": {"plan.py": plan}, "commands": {label: gets + [{"op": "auto"}]}}
        else:
            declared = list(names[:1]) if kind == "mixed" else []
            amended = [n for n in names if n not in declared]
            plan = [{"op": "static", "paths": ["w.py"]},
                    {"op": "run", "label": "./w.py", "env": declared, "out": ["s.txt"]}]
            prog = {"scripts": {"plan.py": plan, "w.py": [{"op": "amend", "env": amended}] + gets + [{"op": "auto"}]},
                    "commands": {}}
        return e3.Project(sources={}, program=prog, env=dict(env0))
    for kind in ("declared", "amended", "mixed"):
        for names, back in ((["VA", "VB"], ["VA"]), (["VA", "VB"], ["VB"]),
                            (["VA", "VB", "VC"], ["VA", "VB"]), (["VA", "VB", "VC"], ["VB"]),
                            (["VA", "VB", "VC"], ["VC"])):
            env1 = {n: n.lower() + "1" for n in names}
            env2 = {n: n.lower() + "2" for n in names}
            out[f"env-subset-revert:{kind}:{len(names)}:back-{'+'.join(back)}"] = co.case_json(
                env_project(kind, names, env1), [setenv(env2), setenv({n: env1[n] for n in back})])
        # VA is unset at first, set together with a change of VB, then unset again
        out[f"env-subset-revert:{kind}:unset-set-unset"] = co.case_json(
            env_project(kind, ["VA", "VB"], {"VB": "vb1"}),
            [setenv({"VA": "va2", "VB": "vb2"}), {"edits": []}, setenv({"VA": None})])
    # the same for the source files of one step: all change (same size), a subset goes back
    srcs = {"a.txt": "a1\n", "b.txt": "b1\n", "c.txt": "c1\n"}
    plan = [{"op": "static", "paths": sorted(srcs)},
            {"op": "step", "label": "cat", "inp": sorted(srcs), "out": ["abc.txt"]},
            {"op": "step", "label": "use", "inp": ["abc.txt"], "out": ["use.txt"]}]
    for back in (["a.txt"], ["b.txt", "c.txt"]):
        for flavour in ("restart", "watch"):
            p = e3.Project(sources=dict(srcs), program={"scripts": {"plan.py": plan}, "commands": {}})
            out[f"src-subset-revert:{flavour}:back-{'+'.join(back)}"] = co.case_json(p, [
                {"edits": [{"op": "write", "path": q, "content": q[0] + "2\n"} for q in sorted(srcs)]},
                {"edits": [{"op": "write", "path": q, "content": srcs[q]} for q in back]}], flavour)
    # the SCRIPT of a script step is edited so that it amends another set of variables (one
    # dropped, all dropped, one replaced), its declaration unchanged; then the dropped variable
    # changes: nothing may remember it
    def w(am):
        return ([{"op": "amend", "env": list(am)}] if am else []) + \
               [{"op": "getenv", "name": n} for n in am] + [{"op": "auto"}]
    wplan = [{"op": "static", "paths": ["w.py"]}, {"op": "run", "label": "./w.py", "out": ["s.txt"]}]
    for name, am0, am1 in (("one-dropped", ["VA", "VB"], ["VB"]), ("all-dropped", ["VA"], []),
                           ("replaced", ["VA"], ["VB"])):
        for tail_name, tail in (("", []), (":then-it-changes", [setenv({"VA": "va9"})])):
            p = e3.Project(sources={}, env={"VA": "va0", "VB": "vb0"},
                           program={"scripts": {"plan.py": wplan, "w.py": w(am0)}, "commands": {}})
            out[f"amended-env-{name}{tail_name}"] = co.case_json(
                p, [{"edits": [{"op": "script", "path": "w.py", "actions": w(am1)}]}, *tail])
    # D9, second symptom: the step is re-defined with one declared variable less while its edited
    # script now AMENDS that variable; the stale row (dynamic = 0) of the partial recycle shadows
    # the amended one (INSERT OR IGNORE).  Differences appear under D9's signature only.
    def wd(am):
        return ([{"op": "amend", "env": am}] if am else []) + \
               [{"op": "getenv", "name": "VA"}, {"op": "getenv", "name": "VD"}, {"op": "auto"}]

    def pd(env):
        return [{"op": "static", "paths": ["w.py"]}, {"op": "run", "label": "./w.py", "env": env, "out": ["s.txt"]}]
    p = e3.Project(sources={}, env={"VA": "a", "VD": "d"},
                   program={"scripts": {"plan.py": pd(["VA", "VD"]), "w.py": wd([])}, "commands": {}})
    out["d9-stale-row-shadows-amended-variable"] = co.case_json(
        p, [{"edits": [prog({"plan.py": pd(["VA"]), "w.py": wd(["VD"])})]}])
    # F9: a sub-plan cannot run again (its input, a file below a static tree, was deleted): it is
    # PENDING, what its earlier run created stays attached; a step of the MAIN plan that consumes an
    # output of such a product stays SUCCEEDED, from scratch it is PENDING (its input is undeclared).
    # With a change of the product's own source the product is not rerun (not safe) and the
    # consumer goes PENDING: equal.
    tt = {"op": "step", "label": "t", "inp": ["s.txt"], "out": ["o.txt"]}
    mainp = [{"op": "static", "paths": ["s.txt", "p1.py", "data/"]},
             {"op": "plan", "label": "./p1.py", "inp": ["data/cfg.txt"]}, u]
    for name, extra in (("", []), (":product-source-changes", [change])):
        p = e3.Project(sources={"s.txt": "old\n", "data/cfg.txt": "c0\n", "data/keep.txt": "k\n"},
                       program={"scripts": {"plan.py": mainp, "p1.py": [tt]}, "commands": {}})
        out["subplan-input-deleted" + name] = co.case_json(
            p, [{"edits": [{"op": "delete", "path": "data/cfg.txt"}] + extra}])
    # environment overrides of a step removed / changed / added by a plan edit (every layout and
    # form, c01_overrides.guard_cases): F10 where nothing else marks the recycled step
    out.update(cov.guard_cases())
    # a source, the script of a script step, a plan script REPLACED by another file of the same
    # size, mode and mtime (new inode): restart and watch
    out.update(crep.guard_cases())
    # the user touches PRODUCTS between two builds: an intermediate / final output is modified,
    # deleted, written again with the same bytes, or merely touched (restart and watch flavour);
    # a build from scratch does not care what the output looked like before
    chain = [st, t, u]
    for path in ("o.txt", "u.txt"):
        for kind, edit in (("modified", {"op": "write", "path": path, "content": "edited by hand\n"}),
                           ("deleted", {"op": "delete", "path": path}),
                           ("touched", {"op": "touch", "path": path})):
            for flavour in ("restart", "watch"):
                p = e3.Project(sources={"s.txt": "old\n"}, program={"scripts": {"plan.py": chain}, "commands": {}})
                out[f"product-{kind}:{path}:{flavour}"] = co.case_json(p, [{"edits": [edit]}, {"edits": []}], flavour)
    # ... together with a change of the source upstream, and with the producer inside a sub-plan
    p = e3.Project(sources={"s.txt": "old\n"}, program={"scripts": {
        "plan.py": [st, {"op": "static", "paths": ["p1.py"]}, {"op": "plan", "label": "./p1.py"}, u], "p1.py": [t]},
        "commands": {}})
    out["product-modified:subplan+source-change"] = co.case_json(p, [
        {"edits": [{"op": "write", "path": "o.txt", "content": "edited by hand\n"}, change]}])
    return out


def _run_named(item):
    """Worker: one fixed witness or guard case (a watch-flavour case falls back to restart when
    no inotify instance is available)."""
    what, name, case = item
    try:
        try:
            r = co.run_case(case)
        except (e3.E3Error, OSError):
            if case.get("flavour") != "watch":
                raise
            r = co.run_case(dict(case, flavour="restart"))
    except (e3.E3Error, OSError) as exc:
        return {"error": f"{type(exc).__name__}: {str(exc)[:300]}", "sigs": {}, "rc": None}
    sigs = co.signatures(r["inc"], r["scr"], r["diffs"], case, r["results"][:-1])
    return {"error": None, "rc": [r["inc"].returncode, r["scr"].returncode],
            "sigs": {k: [[d["kind"], d["key"], d["a"], d["b"]] for d in v] for k, v in sigs.items()}}


def _run_detached(i_seed):
    """Worker: one generated 'completes / changes while detached' history."""
    i, seed = i_seed
    case, desc = cdet.gen_detached_case(random.Random(f"c01-detached-{seed}-{i}"))
    out = {"i": i, "desc": desc, "sigs": {}, "error": None}
    try:
        r = co.run_case(case)
    except (e3.E3Error, OSError) as exc:
        out["error"] = f"{type(exc).__name__}: {str(exc)[:300]}"
        return out
    sigs = co.signatures(r["inc"], r["scr"], r["diffs"], case, r["results"][:-1])
    out["sigs"] = {k: [[d["kind"], d["key"], d["a"], d["b"]] for d in v[:6]] for k, v in sigs.items()}
    out["rc"] = [x.returncode for x in r["results"]] + [r["scr"].returncode]
    out["detached_completions"] = sum(
        1 for res in r["results"] for k, n in e3.parse_graph(res.graph).items()
        if k.startswith("(step:") and (n["props"].get("state") or [""])[0] in ("SUCCEEDED", "FAILED"))
    out["size"] = co.case_size(case)
    return out


def _subset_case(seed, i):
    proj, hist, desc = cgen.gen_subset_case(random.Random(f"c01-subset-{seed}-{i}"))
    # source-only histories also run in the watch flavour (a running director cannot see a
    # changed environment); the caller falls back to restart when no inotify instance is free
    flavour = "watch" if desc["what"] == "src" and i % 2 == 0 else "restart"
    return co.case_json(proj, hist, flavour), desc


def _run_subset(i_seed):
    """Worker: one history of the family 'change several things of one step, revert a subset'."""
    i, seed = i_seed
    case, desc = _subset_case(seed, i)
    out = {"i": i, "desc": desc, "sigs": {}, "error": None}
    try:
        try:
            r = co.run_case(case)
        except (e3.E3Error, OSError):
            if case["flavour"] != "watch":
                raise
            r = co.run_case(dict(case, flavour="restart"))
    except (e3.E3Error, OSError) as exc:
        out["error"] = f"{type(exc).__name__}: {str(exc)[:300]}"
        return out
    sigs = co.signatures(r["inc"], r["scr"], r["diffs"], case, r["results"][:-1])
    out["sigs"] = {k: [[d["kind"], d["key"], d["a"], d["b"]] for d in v[:6]] for k, v in sigs.items()}
    out["rc"] = [x.returncode for x in r["results"]] + [r["scr"].returncode]
    out["executed"] = [len(x.commands) for x in r["results"]]
    out["size"] = co.case_size(case)
    return out


def _output_case(seed, i):
    return cout.gen_output_case(random.Random(f"c01-outputs-{seed}-{i}"))


def _run_output(i_seed):
    """Worker: one history of the family 'products of steps edited between two builds'."""
    i, seed = i_seed
    case, desc = _output_case(seed, i)
    out = {"i": i, "desc": desc, "sigs": {}, "error": None}
    try:
        try:
            r = co.run_case(case)
        except (e3.E3Error, OSError):
            if case["flavour"] != "watch":
                raise
            r = co.run_case(dict(case, flavour="restart"))
    except (e3.E3Error, OSError) as exc:
        out["error"] = f"{type(exc).__name__}: {str(exc)[:300]}"
        return out
    sigs = co.signatures(r["inc"], r["scr"], r["diffs"], case, r["results"][:-1])
    out["sigs"] = {k: [[d["kind"], d["key"], d["a"], d["b"]] for d in v[:6]] for k, v in sigs.items()}
    out["rc"] = [x.returncode for x in r["results"]] + [r["scr"].returncode]
    out["executed"] = [len(x.commands) for x in r["results"]]
    out["size"] = co.case_size(case)
    return out


def _override_case(seed, i):
    return cov.gen_override_case(random.Random(f"c01-overrides-{seed}-{i}"))


def _run_override(i_seed):
    """Worker: one history of the family 'environment overrides of a step edited by the plan'."""
    i, seed = i_seed
    case, desc = _override_case(seed, i)
    out = {"i": i, "desc": desc, "sigs": {}, "error": None}
    try:
        try:
            r = co.run_case(case)
        except (e3.E3Error, OSError):
            if case["flavour"] != "watch":
                raise
            case = dict(case, flavour="restart")
            r = co.run_case(case)
    except (e3.E3Error, OSError) as exc:
        out["error"] = f"{type(exc).__name__}: {str(exc)[:300]}"
        return out
    sigs = co.signatures(r["inc"], r["scr"], r["diffs"], case, r["results"][:-1])
    out["sigs"] = {k: [[d["kind"], d["key"], d["a"], d["b"]] for d in v[:6]] for k, v in sigs.items()}
    out["rc"] = [x.returncode for x in r["results"]] + [r["scr"].returncode]
    out["executed"] = [len(x.commands) for x in r["results"]]
    out["size"] = co.case_size(case)
    return out


def _replace_case(seed, i):
    return crep.gen_replace_case(random.Random(f"c01-replace-{seed}-{i}"))


def _run_replace(i_seed):
    """Worker: one history of the family 'files replaced by same-size / mode / mtime files'."""
    i, seed = i_seed
    case, desc = _replace_case(seed, i)
    out = {"i": i, "desc": desc, "sigs": {}, "error": None}
    try:
        try:
            r = co.run_case(case)
        except (e3.E3Error, OSError):
            if case["flavour"] != "watch":
                raise
            case = dict(case, flavour="restart")
            r = co.run_case(case)
    except (e3.E3Error, OSError) as exc:
        out["error"] = f"{type(exc).__name__}: {str(exc)[:300]}"
        return out
    sigs = co.signatures(r["inc"], r["scr"], r["diffs"], case, r["results"][:-1])
    out["sigs"] = {k: [[d["kind"], d["key"], d["a"], d["b"]] for d in v[:6]] for k, v in sigs.items()}
    out["rc"] = [x.returncode for x in r["results"]] + [r["scr"].returncode]
    out["executed"] = [len(x.commands) for x in r["results"]]
    out["size"] = co.case_size(case)
    return out


def _item_seed(ctx, i):
    return int.from_bytes(hashlib.sha1(f"C01-{ctx.seed}-{i}".encode()).digest()[:4], "big")


def _gen_item(seed: int, i: int) -> dict:
    r = random.Random(seed)
    x = r.random()
    if x < 0.12:
        flavour, build = "watch", {}
    elif x < 0.25:
        flavour, build = "restart", {"njob": 3, "schedule": {"seed": r.randrange(1000)}}
    else:
        flavour, build = "restart", {}
    # half of the histories come from the widened generator (c01_gen: steps tracking 2-3
    # variables, several changes of one step in one phase, subset reverts later)
    gen = "wide" if r.random() < 0.5 else "base"
    return {"seed": seed, "i": i, "flavour": flavour, "build": build, "gen": gen}


def _gen_of(item: dict):
    return cgen.gen_case if item.get("gen") == "wide" else e3_gen.gen_case


def _case_of_item(item: dict) -> dict:
    proj, hist = _gen_of(item)(item["seed"], None, watch_safe=item["flavour"] == "watch")
    return co.case_json(proj, hist, item["flavour"], item["build"])


def _run_item(item: dict) -> dict:
    """Worker: one generated history; returns a small JSON-able verdict."""
    t0 = time.time()
    stats = e3_gen.Stats()
    proj, hist = _gen_of(item)(item["seed"], stats, watch_safe=item["flavour"] == "watch")
    case = co.case_json(proj, hist, item["flavour"], item["build"])
    out = {"item": item, "phases": len(hist), "stats": stats.to_json(), "sigs": {}, "error": None}
    try:
        r = co.run_case(case)
    except (e3.E3Error, OSError) as exc:
        if item["flavour"] != "watch":
            out["error"] = f"{type(exc).__name__}: {str(exc)[:400]}"
            return out
        # A watch session needs an inotify instance; the per-user limit is shared with every other
        # check running on this machine.  The same history is then run in the restart flavour.
        out["watch_fallback"] = f"{type(exc).__name__}: {str(exc)[:120]}"
        case = dict(case, flavour="restart")
        try:
            r = co.run_case(case)
        except (e3.E3Error, OSError) as exc2:
            out["error"] = f"{type(exc2).__name__}: {str(exc2)[:400]}"
            return out
    sigs = co.signatures(r["inc"], r["scr"], r["diffs"], case, r["results"][:-1])
    out["sigs"] = {k: [[d["kind"], d["key"], d["a"], d["b"]] for d in v[:6]] for k, v in sigs.items()}
    out["rc"] = [r["inc"].returncode, r["scr"].returncode]
    out["executed"] = [len(x.commands) for x in r["results"]]
    out["skipped"] = sum(1 for e in r["inc"].events if e[0] == "SKIP")
    out["kept"] = sum(1 for ent in co.active_view(r["inc"]).values()
                      if ent["kind"] == "step" and ent["state"] == "SUCCEEDED") - len(r["inc"].commands)
    out["size"] = co.case_size(case)
    out["wall"] = round(time.time() - t0, 2)
    return out


def _report(ctx, sig, case, detail_diffs, origin, shrunk_runs=None):
    trig = co.edit_kinds(e3.Project.from_json(case["project"]), case["history"])
    ctx.add_failure(
        "oracle", "incremental-vs-scratch", sig,
        f"incremental and from-scratch results differ ({origin}); edit kinds per phase {trig}; "
        f"first differences {json.dumps(detail_diffs[:4])[:700]}",
        witness={"case": case, "edit_kinds": trig, "differences": detail_diffs[:12],
                 "shrink_runs": shrunk_runs})


def oracle(ctx, n_override=None):
    # (1) graph level: the D4 / D9 transaction histories on the real Workflow (E2 Impl)
    tr = cg.replay(cg.D4_OPS, finalize=True)
    viol = cg.k_violators(tr[-1][3])
    scr = cg.replay(cg.D4_SCRATCH, finalize=True)
    ctx.case(("graph", "D4"), nontrivial=True)
    if viol or cg.step_state(tr[-1][3], "cat") != cg.step_state(scr[-1][3], "cat"):
        ctx.add_failure("oracle", "graph:K", co.SIG_D4,
                        f"real Workflow after the D4 history: K violated by {viol}; step cat is "
                        f"{cg.step_state(tr[-1][3], 'cat')} incrementally and {cg.step_state(scr[-1][3], 'cat')} "
                        "from scratch (23 = SUCCEEDED, 21 = PENDING) while its input x.txt is detached",
                        witness={"ops": [list(map(str, t[:2])) for t in tr]})
    tr, scr = cg.replay(cg.D9_OPS), cg.replay(cg.D9_SCRATCH)
    ctx.case(("graph", "D9"), nontrivial=True)
    if cg.env_names(tr[-1][3], "S") != cg.env_names(scr[-1][3], "S"):
        ctx.add_failure("oracle", "graph:env_var", co.SIG_D9,
                        f"real Workflow after the D9 history: env_var rows of step S are "
                        f"{cg.env_names(tr[-1][3], 'S')} incrementally and {cg.env_names(scr[-1][3], 'S')} from scratch",
                        witness={"ops": [list(map(str, t[:2])) for t in tr]})
    # (2) end to end: fixed minimal witnesses and guard cases through the real serve()
    reported = set()
    named = [("fixed", sig, case) for sig, case in fixed_cases().items()] + \
            [("guard", name, case) for name, case in guard_cases().items()]
    for (what, name, case), res in zip(named, e3.pool_map(_run_named, named, nproc=ctx.scale(10, 12))):
        ctx.case(("fixed-e3" if what == "fixed" else "guard", name), nontrivial=True)
        ctx.count("fixed_witness_runs" if what == "fixed" else "guard_case_runs")
        if res["error"]:
            ctx.add_failure("oracle", "harness", "C01:harness-error:" + res["error"].split(":")[0],
                            f"E3 could not run the {what} case {name}: {res['error']}", witness={"case": case})
            continue
        for s2, diffs in res["sigs"].items():
            if s2 not in reported:
                reported.add(s2)
                _report(ctx, s2, case, diffs, (f"fixed witness of {name}" if what == "fixed" else f"guard case {name}")
                        + f"; return codes {res['rc'][0]} / {res['rc'][1]}")
    # (2b) generated histories with completions and changes while a step is detached
    nd = ctx.scale(40, 500)
    dres = e3.pool_map(_run_detached, [(i, ctx.seed) for i in range(nd)], nproc=ctx.scale(10, 12))
    dby: dict = {}
    for res in dres:
        ctx.count("detached_family")
        if res["error"]:
            ctx.add_failure("oracle", "harness", "C01:harness-error:" + res["error"].split(":")[0],
                            f"E3 could not run detached-family case {res['i']}: {res['error']}",
                            witness={"i": res["i"], "desc": res["desc"]})
            continue
        ctx.count("detached_mode:" + res["desc"]["mode"])
        ctx.count("detached_between:" + res["desc"]["between"])
        ctx.count("detached_completions_seen", res["detached_completions"])
        ctx.case(("detached", res["i"], json.dumps(res["desc"], sort_keys=True)),
                 nontrivial=res["detached_completions"] > 0)
        for sig, diffs in res["sigs"].items():
            ctx.count("sig:" + sig)
            dby.setdefault(sig, []).append((res["size"], res["i"], diffs))
    for sig, lst in sorted(dby.items()):
        if sig in reported:
            continue
        lst.sort()
        size, i, diffs = lst[0]
        case, desc = cdet.gen_detached_case(random.Random(f"c01-detached-{ctx.seed}-{i}"))
        reported.add(sig)
        _report(ctx, sig, case, diffs, f"detached-family case {i} ({desc['mode']}, {desc['between']}), "
                f"{len(lst)} case(s) with this signature")
    # (2c) generated histories 'several variables / source inputs of one step change in one phase,
    #      a subset goes back in a later phase' (steps tracking 2-3 variables, declared / amended)
    ns = ctx.scale(60, 800)
    sres = e3.pool_map(_run_subset, [(i, ctx.seed) for i in range(ns)], nproc=ctx.scale(10, 12))
    sby: dict = {}
    for res in sres:
        ctx.count("subset_family")
        if res["error"]:
            ctx.add_failure("oracle", "harness", "C01:harness-error:" + res["error"].split(":")[0],
                            f"E3 could not run subset-revert case {res['i']}: {res['error']}",
                            witness={"i": res["i"], "desc": res["desc"]})
            continue
        d = res["desc"]
        ctx.count(f"subset:{d['what']}:{d['kind']}:declared{d['declared']}+amended{d['amended']}")
        ctx.count("subset_reverted_proper" if d["reverted"] < d["changed"] else "subset_reverted_all")
        # non-trivial: the multi-change phase and the revert phase both re-ran something
        ctx.case(("subset", res["i"], json.dumps(d, sort_keys=True)),
                 nontrivial=sum(1 for n in res["executed"][1:] if n > 0) >= 2)
        for sig, diffs in res["sigs"].items():
            ctx.count("sig:" + sig)
            sby.setdefault(sig, []).append((res["size"], res["i"], diffs))
    for sig, lst in sorted(sby.items()):
        if sig in reported:
            continue
        lst.sort()
        size, i, diffs = lst[0]
        case, desc = _subset_case(ctx.seed, i)
        reported.add(sig)
        _report(ctx, sig, case, diffs, f"subset-revert case {i} ({json.dumps(desc, sort_keys=True)}), "
                f"{len(lst)} case(s) with this signature")
    # (2d) generated histories 'products of steps are modified / deleted / rewritten / touched
    #      between two builds' (no other generator edits anything but sources, scripts, variables)
    no = ctx.scale(30, 400)
    ores = e3.pool_map(_run_output, [(i, ctx.seed) for i in range(no)], nproc=ctx.scale(10, 12))
    oby: dict = {}
    for res in ores:
        ctx.count("output_family")
        if res["error"]:
            ctx.add_failure("oracle", "harness", "C01:harness-error:" + res["error"].split(":")[0],
                            f"E3 could not run product-edit case {res['i']}: {res['error']}",
                            witness={"i": res["i"], "desc": res["desc"]})
            continue
        for k in res["desc"]["kinds"]:
            ctx.count("output_edit:" + k)
        ctx.count("output_flavour:" + res["desc"]["flavour"])
        # non-trivial: a build after the first one re-ran something
        ctx.case(("outputs", res["i"], json.dumps(res["desc"], sort_keys=True)),
                 nontrivial=sum(res["executed"][1:]) > 0)
        for sig, diffs in res["sigs"].items():
            ctx.count("sig:" + sig)
            oby.setdefault(sig, []).append((res["size"], res["i"], diffs))
    for sig, lst in sorted(oby.items()):
        if sig in reported:
            continue
        lst.sort()
        size, i, diffs = lst[0]
        case, desc = _output_case(ctx.seed, i)
        reported.add(sig)
        _report(ctx, sig, case, diffs, f"product-edit case {i} ({json.dumps(desc, sort_keys=True)}), "
                f"{len(lst)} case(s) with this signature")
    # (2e) generated histories 'the plan adds, changes, removes one or REMOVES ALL environment
    #      overrides of an otherwise identical step' (leading VAR=value words / env_overrides argument)
    nv = ctx.scale(24, 400)
    vres = e3.pool_map(_run_override, [(i, ctx.seed) for i in range(nv)], nproc=ctx.scale(10, 12))
    vby: dict = {}
    for res in vres:
        ctx.count("override_family")
        if res["error"]:
            ctx.add_failure("oracle", "harness", "C01:harness-error:" + res["error"].split(":")[0],
                            f"E3 could not run override case {res['i']}: {res['error']}",
                            witness={"i": res["i"], "desc": res["desc"]})
            continue
        d = res["desc"]
        ctx.count(f"override:{d['layout']}:{d['kind']}:{d['form']}")
        for op in d["ops"]:
            ctx.count("override_edit:" + op)
        # non-trivial: the overrides were removed at least once and a later build did something
        ctx.case(("overrides", res["i"], json.dumps(d, sort_keys=True)),
                 nontrivial="remove-all" in d["ops"] and sum(res["executed"][1:]) > 0)
        for sig, diffs in res["sigs"].items():
            ctx.count("sig:" + sig)
            vby.setdefault(sig, []).append((res["size"], res["i"], diffs))
    for sig, lst in sorted(vby.items()):
        if sig in reported:
            continue
        lst.sort()
        size, i, diffs = lst[0]
        case, desc = _override_case(ctx.seed, i)
        reported.add(sig)
        _report(ctx, sig, case, diffs, f"override case {i} ({json.dumps(desc, sort_keys=True)}), "
                f"{len(lst)} case(s) with this signature")
    # (2f) generated histories 'a source / step script / plan script is replaced by another file of
    #      the same size, mode and mtime (new inode)', restart and watch
    nr = ctx.scale(16, 300)
    rres = e3.pool_map(_run_replace, [(i, ctx.seed) for i in range(nr)], nproc=ctx.scale(10, 12))
    rby: dict = {}
    for res in rres:
        ctx.count("replace_family")
        if res["error"]:
            ctx.add_failure("oracle", "harness", "C01:harness-error:" + res["error"].split(":")[0],
                            f"E3 could not run replace case {res['i']}: {res['error']}",
                            witness={"i": res["i"], "desc": res["desc"]})
            continue
        for k in res["desc"]["kinds"]:
            ctx.count("replace_edit:" + k)
        ctx.count("replace_flavour:" + res["desc"]["flavour"])
        # non-trivial: some same-stat replacement happened and a later build re-ran something
        ctx.case(("replace", res["i"], json.dumps(res["desc"], sort_keys=True)),
                 nontrivial=any(k in ("source", "step-script", "plan-script") for k in res["desc"]["kinds"])
                 and sum(res["executed"][1:]) > 0)
        for sig, diffs in res["sigs"].items():
            ctx.count("sig:" + sig)
            rby.setdefault(sig, []).append((res["size"], res["i"], diffs))
    for sig, lst in sorted(rby.items()):
        if sig in reported:
            continue
        lst.sort()
        size, i, diffs = lst[0]
        case, desc = _replace_case(ctx.seed, i)
        reported.add(sig)
        _report(ctx, sig, case, diffs, f"replace case {i} ({json.dumps(desc, sort_keys=True)}), "
                f"{len(lst)} case(s) with this signature")
    # (3) generated histories
    n = n_override or ctx.scale(240, 4000)
    items = [_gen_item(_item_seed(ctx, i), i) for i in range(n)]
    t0 = time.time()
    results = e3.pool_map(_run_item, items, nproc=ctx.scale(10, 12))
    ctx.stats["oracle_wall_s"] = round(time.time() - t0, 1)
    agg = e3_gen.Stats()
    by_sig: dict = {}
    for res in results:
        it = res["item"]
        ctx.count("histories")
        ctx.count("flavour:" + it["flavour"] + (":njob3" if it["build"].get("njob") else ""))
        ctx.count("generator:" + it.get("gen", "base"))
        if res.get("watch_fallback"):
            ctx.count("watch_fallback_to_restart")
        if res["error"]:
            ctx.count("harness_errors")
            ctx.add_failure("oracle", "harness", "C01:harness-error:" + res["error"].split(":")[0],
                            f"E3 could not run generated case seed={it['seed']}: {res['error']}",
                            witness={"item": it})
            continue
        ctx.count("builds", len(res["executed"]) + 1)
        ctx.count("phases:%d" % res["phases"])
        ctx.count("final_rc:%s/%s" % (e3.rc_class(res["rc"][0]), e3.rc_class(res["rc"][1])))
        st = res["stats"]
        for k, v in st["edits"].items():
            ctx.count("edit:" + k, v)
        for k, v in st["units"].items():
            ctx.count("unit:" + k, v)
        nontrivial = sum(res["executed"][1:]) > 0 and (res["skipped"] > 0 or res["kept"] > 0)
        ctx.case(("gen", it["seed"], it.get("gen", "base"), it["flavour"], json.dumps(it["build"], sort_keys=True)),
                 nontrivial=nontrivial)
        if not res["sigs"]:
            ctx.count("equivalent")
        for sig, diffs in res["sigs"].items():
            ctx.count("sig:" + sig)
            by_sig.setdefault(sig, []).append((res["size"], it, diffs))
    if results:
        ctx.sample({"generated_case": {k: results[0][k] for k in ("item", "phases", "rc", "executed", "sigs")}})
    for sig, lst in sorted(by_sig.items()):
        if sig in reported:
            continue
        lst.sort(key=lambda x: (x[0], x[1]["seed"]))
        size, it, diffs = lst[0]
        case = _case_of_item(it)
        named = sig in KNOWN_NAMED

        def keep(c, sig=sig):
            # the WHOLE signature (difference kind + cause class) must persist, so the reported
            # signature is the one the case was found under, whatever the shrinker removes
            return sig in co.case_signatures(c)
        if named:
            # minimal witnesses of the named findings are in corpus/C01 and fixed_cases()
            small, runs = case, 0
        else:
            # bounded by the number of runs, not by time: the minimised history must not depend
            # on the load of the machine
            small, runs = co.shrink(case, keep, budget_s=1e9, max_runs=ctx.scale(80, 300))
        reported.add(sig)
        _report(ctx, sig, small, diffs, f"generated case seed={it['seed']} flavour={it['flavour']} "
                f"build={it['build']}, {len(lst)} case(s) with this signature", runs)


def search(ctx):
    oracle(ctx, n_override=ctx.scale(1500, 8000))


def replay(ctx, obj):
    w = (obj.get("failure") or {}).get("witness") or {}
    if "case" in w:
        r = co.run_case(w["case"])
        sigs = co.signatures(r["inc"], r["scr"], r["diffs"], w["case"], r["results"][:-1])
        ctx.case(("replay", json.dumps(w["case"], sort_keys=True)), nontrivial=True)
        for sig, diffs in sigs.items():
            _report(ctx, sig, w["case"], [[d["kind"], d["key"], d["a"], d["b"]] for d in diffs], "replayed witness")
        if not sigs:
            ctx.notes.append("replayed witness: incremental == from scratch")
    else:
        correspondence(ctx)
        oracle(ctx, n_override=20)
