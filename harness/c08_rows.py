"""C08, E2g: life cycle of the rows of the nglob table, model/GlobRows.v versus the real code.

Operation sequences on a real Workflow (in-memory SQLite, plan step + steps A, B, C), one
transaction per operation:
  add      Workflow.register_nglob(step, NamedGlob(pattern, subs) extended by matches)
  persist  Workflow.persist_nglob_matches(row id, step, NamedGlob with new matches)
  reset    Step.reset_for_rerun()
  detach   Step.detach()
  attach   Workflow.define_step(plan, label) of a detached step (Trellis.try_recycle re-attaches it)
  purge    Workflow.delete_detached()  (DELETE FROM node -> ON DELETE CASCADE)
After every sequence the WHOLE table (row id, step label, pattern+subs key, recorded matches,
visible to the readers = step attached) is compared with table_view (run_ops empty_table ops).
"""
from __future__ import annotations

import json

from . import common
from .common import coq_list, coq_str
from .wfutil import WF, run

STEPS = ["A", "B", "C"]
PATTERNS = [("${*name}.txt", [[], [["name", "a*"]], [["name", "b*"]], [["name", "?1"]]]),
            ("*.txt", [[]]), ("d/${*n}", [[], [["n", "x*"]]]), ("d/**", [[]])]
FILES = ["a1.txt", "a2.txt", "b1.txt", "c.txt", "d/x", "d/x1", "d/sub/y", "top", "b1.dat"]


def gkey(pattern, subs):
    return pattern + "".join("\0" + n + "\0" + v for n, v in subs)


def gen_ops(rng, n):
    ops = []
    for _ in range(n):
        x = rng.random()
        s = rng.choice(STEPS)
        if x < 0.45 or not ops:
            if ops and rng.random() < 0.4:
                prev = [o for o in ops if o[0] == "add"]
                pat = rng.choice(prev)[2] if prev else rng.choice(PATTERNS)[0]
            else:
                pat = rng.choice(PATTERNS)[0]
            subs = rng.choice(dict(PATTERNS)[pat])
            ops.append(("add", s, pat, [list(x) for x in subs], sorted({rng.choice(FILES) for _ in range(rng.randint(0, 3))})))
        elif x < 0.58:
            ops.append(("persist", rng.randint(0, 5), sorted({rng.choice(FILES) for _ in range(rng.randint(0, 3))})))
        elif x < 0.70:
            ops.append(("reset", s))
        elif x < 0.82:
            ops.append(("detach", s))
        elif x < 0.92:
            ops.append(("attach", s))
        else:
            ops.append(("purge",))
    return ops


DIRECTED = [
    # one step, one pattern, two constraints, then the first again: three rows
    [("add", "A", "${*name}.txt", [["name", "a*"]], ["a1.txt"]), ("add", "A", "${*name}.txt", [["name", "b*"]], []),
     ("add", "A", "${*name}.txt", [["name", "a*"]], [])],
    # the reset of another step, detach/attach of the step itself lose nothing
    [("add", "A", "*.txt", [], ["c.txt"]), ("add", "B", "*.txt", [], []), ("reset", "B"), ("detach", "A"),
     ("persist", 0, ["a1.txt"]), ("attach", "A")],
    # the last row is deleted and its id handed out again
    [("add", "A", "*.txt", [], []), ("add", "B", "*.txt", [], []), ("reset", "B"), ("add", "C", "d/**", [], ["d/x"])],
    # a detached step is purged with its rows, an attached one is not
    [("add", "A", "*.txt", [], []), ("add", "B", "*.txt", [], []), ("detach", "A"), ("purge",), ("add", "A", "d/**", [], [])],
]


def _dump(w):
    from stepup.core.cattrs import json_converter
    from stepup.core.nglob import NamedGlob
    rows = []
    for i, label, detached, pattern, data in w.db.execute(
            "SELECT g.i, n.label, n.detached, g.pattern, g.data FROM nglob g JOIN node n ON n.i = g.node ORDER BY g.i"):
        ng = json_converter.structure(json.loads(data), NamedGlob)
        subs = sorted((str(a), str(b)) for a, b in ng.subs.items())
        rows.append((int(i), label, gkey(pattern, subs), [str(f) for f in ng.files()], not bool(detached)))
    return rows


async def execute(ops):
    """Run the operations on a fresh workflow. Returns (model ops actually performed, dump)."""
    from stepup.core.enums import StepState
    from stepup.core.nglob import NamedGlob
    from stepup.core.step import Step
    done = []
    async with WF() as w:
        async with w.db:
            for lbl in STEPS:
                w.wf.define_step(w.plan, lbl)
                w.wf.find(Step, lbl).set_state(StepState.RUNNING)
        for op in ops:
            async with w.db:
                kind = op[0]
                if kind == "purge":
                    gone = [lbl for lbl in STEPS if (lambda r: r is not None and r[1])(w.wf.find_and_detached(Step, lbl))]
                    w.wf.delete_detached()
                    for lbl in gone:
                        if w.wf.find(Step, lbl) is None:
                            done.append(("purge", lbl))
                    continue
                if kind == "persist":
                    regs = list(w.wf.nglob_registrations())
                    if not regs:
                        continue
                    i, old, step = regs[op[1] % len(regs)]
                    ng = NamedGlob(old.pattern, dict(old.subs))
                    ng.extend(op[2])
                    w.wf.persist_nglob_matches(i, step, ng)
                    done.append(("persist", int(i), [str(f) for f in ng.files()]))
                    continue
                node, detached = w.wf.find_and_detached(Step, op[1])
                if kind == "attach":
                    if node is None or detached:
                        w.wf.define_step(w.plan, op[1])
                        if node is not None:
                            done.append(("attach", op[1]))
                    continue
                if node is None:
                    continue
                if kind == "add":
                    ng = NamedGlob(op[2], {a: b for a, b in op[3]})
                    ng.extend(op[4])
                    w.wf.register_nglob(node, ng)
                    done.append(("add", op[1], op[2], sorted((a, b) for a, b in op[3]), [str(f) for f in ng.files()]))
                elif kind == "reset":
                    node.reset_for_rerun()
                    done.append(("reset", op[1]))
                elif kind == "detach":
                    if not detached:
                        node.detach()
                        done.append(("detach", op[1]))
        async with w.db:
            dump = _dump(w)
    return done, dump


def coq_op(op):
    k = op[0]
    if k == "add":
        subs = coq_list([f"({coq_str(a)}, {coq_str(b)})" for a, b in op[3]])
        return f"OAdd {coq_str(op[1])} {coq_str(op[2])} {subs} {coq_list([coq_str(m) for m in op[4]])}"
    if k == "persist":
        return f"OPersist {op[1]} {coq_list([coq_str(m) for m in op[2]])}"
    return {"reset": "OReset", "detach": "ODetach", "attach": "OAttach", "purge": "OPurge"}[k] + " " + coq_str(op[1])


HEADER = (
    "From Coq Require Import List NArith Bool.\nImport ListNotations.\n"
    "From SV Require Import lib.Bytes model.Claims model.GlobRows.\nOpen Scope N_scope.\n"
    "Definition veqb (a b : N * (str * (str * (list str * bool)))) : bool :=\n"
    "  (fst a =? fst b) && str_eqb (fst (snd a)) (fst (snd b)) && str_eqb (fst (snd (snd a))) (fst (snd (snd b)))\n"
    "  && list_eqb str_eqb (fst (snd (snd (snd a)))) (fst (snd (snd (snd b))))\n"
    "  && Bool.eqb (snd (snd (snd (snd a)))) (snd (snd (snd (snd b)))).\n"
    "Definition agree_rows (os : list op) (v : list (N * (str * (str * (list str * bool))))) : bool :=\n"
    "  list_eqb veqb (table_view (run_ops empty_table os)) v.\n"
)


def coq_case(done, dump):
    v = coq_list([f"({i}, ({coq_str(l)}, ({coq_str(k)}, ({coq_list([coq_str(m) for m in ms])}, {'true' if vis else 'false'}))))"
                  for i, l, k, ms, vis in dump])
    return f"agree_rows {coq_list([coq_op(o) for o in done])} {v}"


def history_violations(done, dump):
    """Implementation-only: every accepted registration that met no removal path of its step
    (reset, purge) must still be a row, under its id or any other (ids are compared by E2g)."""
    alive = []
    for op in done:
        if op[0] == "add":
            alive.append((op[1], gkey(op[2], op[3])))
        elif op[0] in ("reset", "purge"):
            alive = [r for r in alive if r[0] != op[1]]
    have = sorted((l, k) for _, l, k, _, _ in dump)
    out = []
    if sorted(alive) != have:
        missing = list(alive)
        for r in have:
            if r in missing:
                missing.remove(r)
        extra = list(have)
        for r in alive:
            if r in extra:
                extra.remove(r)
        if missing:
            out.append(("rows:glob-registration-lost-without-removal-path",
                        f"registrations {missing!r} met neither reset_for_rerun nor the deletion of their step but are "
                        f"not in the nglob table {dump!r}"))
        if extra:
            out.append(("rows:glob-registration-survived-removal-path", f"rows {extra!r} should have been removed: {dump!r}"))
    return out


def correspondence(ctx):
    rng = ctx.rng
    seqs = [list(x) for x in DIRECTED]
    for _ in range(ctx.scale(120, 1500)):
        seqs.append(gen_ops(rng, rng.randint(2, 10)))
    checks, descr = [], []
    reported = set()
    for ops in seqs:
        done, dump = run(execute(ops))
        checks.append(coq_case(done, dump))
        descr.append((ops, done, dump))
        kinds = {o[0] for o in done}
        multi = len({(o[1], o[2]) for o in done if o[0] == "add"}) < sum(1 for o in done if o[0] == "add")
        ctx.case(("rows", repr(done)), multi and bool(kinds & {"reset", "detach", "purge", "persist"}))
        for o in done:
            ctx.count("rows_op_" + o[0])
        for sig, what in history_violations(done, dump):
            ctx.count("oracle_" + sig)
            if sig not in reported:
                reported.add(sig)
                ctx.add_failure("oracle", "nglob-rows", sig, f"after {done!r}: {what}", witness={"row_ops": ops, "what": what})
    ctx.count("E2g_cases", len(checks))
    bad = common.run_cases(ctx, "e2g", HEADER, checks, chunk=200)
    ctx.traces_validated += len(checks) - len(bad)
    for i in bad[:2]:
        ops, done, dump = descr[i]
        ctx.add_failure("correspondence", "E2g", "E2g:" + "+".join(sorted({o[0] for o in done})),
                        f"model/GlobRows.v and the nglob table disagree after {done!r}: table {dump!r}",
                        witness={"row_ops": ops, "performed": done, "table": dump})


def search(ctx, n):
    """Implementation only (no Coq, no generated files): the history oracle at a larger scale."""
    rng = ctx.rng
    seen = set()
    for k in range(n):
        ops = DIRECTED[k] if k < len(DIRECTED) else gen_ops(rng, rng.randint(2, 14))
        done, dump = run(execute(ops))
        ctx.case(("rows-search", repr(done)), True)
        for sig, what in history_violations(done, dump):
            if sig not in seen:
                seen.add(sig)
                ctx.add_failure("oracle", "nglob-rows", sig, f"after {done!r}: {what}", witness={"row_ops": ops, "what": what})


def replay(ctx, w):
    ops = [tuple(o) for o in w["row_ops"]]
    done, dump = run(execute(ops))
    print(" performed:", done)
    print(" table:", dump)
    for sig, what in history_violations(done, dump):
        ctx.add_failure("oracle", "nglob-rows", sig, what, witness=w)
    bad = common.run_cases(ctx, "e2g", HEADER, [coq_case(done, dump)], chunk=10)
    if bad:
        ctx.add_failure("correspondence", "E2g", "E2g:" + "+".join(sorted({o[0] for o in done})),
                        f"model and table disagree after {done!r}: {dump!r}", witness=w)
