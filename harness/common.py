"""Shared machinery of the stepup-core Coq verification checks.

A property module (harness/pCxx.py) provides:

    PID            = "C18"
    PROPS_FILE     = "props/C18.v"             (relative to /verif/coq)
    def generate(ctx)      -> None   translator: calls ctx.write_gen(name, text); raises TranslatorError
    def correspondence(ctx)-> None   model vs implementation; ctx.add_failure(...) on disagreement
    def oracle(ctx)        -> None   direct property oracle on the implementation
    def search(ctx)        -> None   deeper search for a failing input once an obligation broke
    TRUSTED_BASE   = [...]
    ASSUMPTIONS    = [...]

run_property() drives the pipeline of DESIGN.md section 2.2 and implements the exit protocol.
"""

from __future__ import annotations

import fcntl
import hashlib
import json
import os
import random
import re
import subprocess
import sys
import time
from pathlib import Path

VERIF = Path(__file__).resolve().parent.parent
REPO = Path(os.environ.get("VERIF_REPO", "/repo"))
COQ = VERIF / "coq"
PY = "/venv/bin/python"

ALLOWED_AXIOMS: set[str] = set()  # stdlib axioms a property may depend on; each is named in evidence


from translator.astutil import TranslatorError  # noqa: E402  (fail-closed translator error)


class Failure:
    def __init__(self, kind, name, signature, detail, witness=None):
        self.kind = kind  # translator | coq | assumptions | correspondence | oracle
        self.name = name  # theorem / correspondence / oracle name
        self.signature = signature  # stable string used to match KNOWN_FINDINGS
        self.detail = detail
        self.witness = witness  # concrete failing input (JSON-able) or None

    def as_json(self):
        return {
            "kind": self.kind,
            "name": self.name,
            "signature": self.signature,
            "detail": self.detail,
            "witness": self.witness,
        }


class Ctx:
    def __init__(self, pid, tier, seed):
        self.pid = pid
        self.tier = tier
        self.seed = seed
        self.rng = random.Random(f"{pid}-{seed}")
        self.failures: list[Failure] = []
        self.stats: dict = {}
        self.samples: list = []
        self.evaluations = 0
        self.nontrivial: set = set()
        self.traces_validated = 0
        self.obligations: list[str] = []
        self.discharged: list[str] = []
        self.axioms: dict[str, list[str]] = {}
        self.notes: list[str] = []
        self.gen_changed: list[str] = []
        self.t0 = time.time()

    # -- bookkeeping -------------------------------------------------------------------------
    def add_failure(self, kind, name, signature, detail, witness=None):
        self.failures.append(Failure(kind, name, signature, detail, witness))

    def count(self, key, n=1):
        self.stats[key] = self.stats.get(key, 0) + n

    def case(self, key, nontrivial=True):
        """Register one evaluated case; `key` identifies it for distinctness."""
        self.evaluations += 1
        if nontrivial:
            self.nontrivial.add(hashlib.sha1(repr(key).encode()).digest()[:8])

    def sample(self, obj, limit=6):
        if len(self.samples) < limit:
            self.samples.append(obj)

    def thorough(self):
        return self.tier == "thorough"

    def scale(self, quick, thorough):
        return thorough if self.tier == "thorough" else quick

    # -- translator output -------------------------------------------------------------------
    def write_gen(self, name, text):
        path = COQ / "gen" / name
        path.parent.mkdir(exist_ok=True)
        old = path.read_text() if path.exists() else None
        if old != text:
            path.write_text(text)
        golden = COQ / "gen.golden" / name
        if golden.exists() and golden.read_text() != text:
            self.gen_changed.append(name)


# ---------------------------------------------------------------------------------------------
# Coq build
# ---------------------------------------------------------------------------------------------


class CoqLock:
    def __enter__(self):
        self.f = open(COQ / ".lock", "w")
        fcntl.flock(self.f, fcntl.LOCK_EX)
        return self

    def __exit__(self, *a):
        fcntl.flock(self.f, fcntl.LOCK_UN)
        self.f.close()


def coq_files():
    files = []
    for sub in ("lib", "gen", "model", "proofs", "props"):
        files += sorted(str(p.relative_to(COQ)) for p in (COQ / sub).glob("*.v"))
    return files


def ensure_makefile():
    files = coq_files()
    text = "-Q . SV\n" + "\n".join(files) + "\n"
    proj = COQ / "_CoqProject"
    if not proj.exists() or proj.read_text() != text or not (COQ / "Makefile").exists():
        proj.write_text(text)
        subprocess.run(
            ["coq_makefile", "-f", "_CoqProject", "-o", "Makefile"],
            cwd=COQ, check=True, capture_output=True,
        )


def coq_make(targets, timeout=1500, jobs=16):
    """Run make for the given .vo targets. Returns (ok, log)."""
    ensure_makefile()
    cmd = ["timeout", str(timeout), "make", f"-j{jobs}", "--no-print-directory", *targets]
    p = subprocess.run(cmd, cwd=COQ, capture_output=True, text=True)
    return p.returncode == 0, p.stdout + p.stderr


def coqc_file(relpath, timeout=600):
    cmd = ["timeout", str(timeout), "coqc", "-Q", ".", "SV", relpath]
    p = subprocess.run(cmd, cwd=COQ, capture_output=True, text=True)
    return p.returncode == 0, p.stdout + p.stderr


THEOREM_RE = re.compile(r"^\s*(?:Theorem|Corollary)\s+([A-Za-z0-9_']+)", re.M)
FORBIDDEN_RE = re.compile(
    r"\b(Admitted|admit|Axiom|Axioms|Parameter|Parameters|Conjecture|Hypothesis|Variable)\b"
    r"|Unset\s+Guard|bypass_check|Admit\s+Obligations|type-in-type|impredicative-set"
)


def closure_of(props_file):
    """The .v files the property file depends on (transitively), via coqdep."""
    ensure_makefile()
    seen, todo = [], [props_file]
    while todo:
        f = todo.pop()
        if f in seen or not (COQ / f).exists():
            continue
        seen.append(f)
        text = (COQ / f).read_text()
        text = re.sub(r"\(\*.*?\*\)", " ", text, flags=re.S)
        for m in re.finditer(r"\bRequire\b", text):
            rest = text[m.end():m.end() + 2000]
            end = re.search(r"\.(\s|$)", rest)
            if not end:
                continue
            for mod in rest[:end.start()].split():
                if mod in ("Import", "Export"):
                    continue
                if mod.startswith("SV."):
                    mod = mod[3:]
                cand = mod.replace(".", "/") + ".v"
                if re.fullmatch(r"[\w./']+", cand) and (COQ / cand).exists():
                    todo.append(cand)
    return seen


def scan_forbidden(files):
    """Grep for declarations that would add axioms or switch off kernel checks.

    `Variable`/`Hypothesis` are allowed inside a Section only; we check that every such line lies
    between a `Section` and its `End`.
    """
    bad = []
    for f in files:
        depth = 0
        text = (COQ / f).read_text()
        text_nc = re.sub(r"\(\*.*?\*\)", lambda m: " " * len(m.group(0)), text, flags=re.S)
        for ln, line in enumerate(text_nc.splitlines(), 1):
            if re.match(r"\s*Section\s+\w+", line):
                depth += 1
            elif re.match(r"\s*End\s+\w+", line) and depth > 0:
                depth -= 1
            for m in FORBIDDEN_RE.finditer(line):
                word = m.group(0)
                if word in ("Variable", "Hypothesis") or word.startswith("Variable"):
                    if depth > 0:
                        continue
                if word in ("Parameter", "Parameters") and re.match(r"\s*Parameter", line) is None:
                    continue
                bad.append(f"{f}:{ln}: {line.strip()}")
    return bad


def print_assumptions(ctx, props_file, theorems):
    """Compile a throw-away file that prints the assumptions of each property theorem."""
    mod = "SV." + props_file[:-2].replace("/", ".")
    lines = [f"Require Import {mod}."]
    for t in theorems:
        lines.append(f'Goal True. idtac "@@BEGIN {t}". exact I. Qed.')
        lines.append(f"Print Assumptions {t}.")
        lines.append(f'Goal True. idtac "@@END {t}". exact I. Qed.')
    name = f"cases/assume_{ctx.pid}_{os.getpid()}.v"
    (COQ / "cases").mkdir(exist_ok=True)
    (COQ / name).write_text("\n".join(lines) + "\n")
    ok, log = coqc_file(name, timeout=900)
    result = {}
    for t in theorems:
        m = re.search(rf"@@BEGIN {re.escape(t)}\n(.*?)@@END {re.escape(t)}", log, re.S)
        if not m:
            result[t] = None
            continue
        body = m.group(1).strip()
        if "Closed under the global context" in body:
            result[t] = []
        else:
            axioms = re.findall(r"^([A-Za-z0-9_.']+)\s*:", body, re.M)
            result[t] = axioms
    return ok, log, result


def coq_phase(ctx, props_file):
    """Build the closure of the property file and check assumptions. Records failures."""
    text = (COQ / props_file).read_text()
    theorems = THEOREM_RE.findall(text)
    ctx.obligations = list(theorems)
    closure = closure_of(props_file)
    ctx.stats["coq_closure_files"] = len(closure)
    bad = scan_forbidden(closure)
    if bad:
        ctx.add_failure("coq", "forbidden-declaration", "forbidden-declaration",
                        "forbidden declarations in the development: " + "; ".join(bad[:5]))
        return
    target = props_file[:-2] + ".vo"
    t0 = time.time()
    with CoqLock():
        ok, log = coq_make([target])
    ctx.stats["coq_make_s"] = round(time.time() - t0, 1)
    if not ok:
        report_build_failure(ctx, props_file, log)
        return
    ok, log, res = print_assumptions(ctx, props_file, theorems)
    for t in theorems:
        ax = res.get(t)
        if ax is None:
            ctx.add_failure("assumptions", t, f"assumptions:{t}",
                            "Print Assumptions produced no output: " + tail(log, 800))
            continue
        ctx.axioms[t] = ax
        extra = [a for a in ax if a not in ALLOWED_AXIOMS]
        if extra:
            ctx.add_failure("assumptions", t, f"assumptions:{t}",
                            f"theorem depends on non-allow-listed axioms: {extra}")
        else:
            ctx.discharged.append(t)
    if ctx.thorough() and not ctx.failures:
        thorough_rebuild(ctx, props_file, closure)


def report_build_failure(ctx, props_file, log):
    m = re.search(r'File "\./([^"]+)", line (\d+)', log)
    where = f"{m.group(1)}:{m.group(2)}" if m else "?"
    lemma = failing_lemma(m.group(1), int(m.group(2))) if m else None
    name = lemma or where
    ctx.add_failure("coq", name, f"coq:{name}",
                    f"Coq build of {props_file} failed at {where}: " + tail(log, 1500))


def thorough_rebuild(ctx, props_file, closure):
    """Thorough tier: rebuild the closure from clean in a private directory (so that concurrent
    checks are not disturbed) and re-check it with coqchk, printing the axioms it relies on."""
    import shutil
    import tempfile
    t0 = time.time()
    with tempfile.TemporaryDirectory(prefix=f"verif-{ctx.pid}-clean-") as d:
        d = Path(d)
        for f in closure:
            (d / f).parent.mkdir(parents=True, exist_ok=True)
            shutil.copy(COQ / f, d / f)
        (d / "_CoqProject").write_text("-Q . SV\n" + "\n".join(sorted(closure)) + "\n")
        subprocess.run(["coq_makefile", "-f", "_CoqProject", "-o", "Makefile"], cwd=d,
                       check=True, capture_output=True)
        p = subprocess.run(["timeout", "2400", "make", "-j8", "--no-print-directory"], cwd=d,
                           capture_output=True, text=True)
        ctx.stats["clean_rebuild_s"] = round(time.time() - t0, 1)
        if p.returncode != 0:
            report_build_failure(ctx, props_file, p.stdout + p.stderr)
            ctx.discharged = []
            return
        t1 = time.time()
        mod = "SV." + props_file[:-2].replace("/", ".")
        p = subprocess.run(["timeout", "2400", "coqchk", "-silent", "-o", "-Q", ".", "SV", mod],
                           cwd=d, capture_output=True, text=True)
        ctx.stats["coqchk_s"] = round(time.time() - t1, 1)
        ctx.stats["coqchk_ok"] = p.returncode == 0
        ctx.stats["coqchk_tail"] = tail(p.stdout + p.stderr, 1200)
        if p.returncode != 0:
            ctx.add_failure("coq", "coqchk", "coqchk", "coqchk failed: " + tail(p.stdout + p.stderr, 1200))


def failing_lemma(relfile, line):
    try:
        lines = (COQ / relfile).read_text().splitlines()
    except OSError:
        return None
    for i in range(min(line, len(lines)) - 1, -1, -1):
        m = re.match(r"\s*(?:Theorem|Lemma|Corollary|Example|Definition|Fixpoint|Fact|Remark)\s+([A-Za-z0-9_']+)", lines[i])
        if m:
            return f"{relfile}:{m.group(1)}"
    return None


def tail(s, n):
    return s[-n:] if len(s) > n else s


# ---------------------------------------------------------------------------------------------
# Evaluating the model inside Coq (cases files)
# ---------------------------------------------------------------------------------------------


def coq_str(s) -> str:
    """Gallina literal (list N of code points) for a Python str or bytes."""
    if isinstance(s, bytes):
        vals = list(s)
    else:
        vals = [ord(c) for c in s]
    return "[" + ";".join(str(v) for v in vals) + "]%N"


def coq_bool(b) -> str:
    return "true" if b else "false"


def coq_list(items) -> str:
    return "[" + "; ".join(items) + "]"


def coq_option(x, f=lambda v: v) -> str:
    return "None" if x is None else f"(Some {f(x)})"


def _run_cases_once(ctx, name, header, checks, chunk=400, timeout=600):
    """Evaluate boolean checks inside Coq.

    `checks` is a list of Gallina terms of type bool; each must evaluate to true if the model
    agrees with the implementation on that case.  Returns the list of indices that evaluated to
    false (or raises RuntimeError if Coq fails).  Chunks are compiled in parallel.
    """
    (COQ / "cases").mkdir(exist_ok=True)
    procs = []
    for ci in range(0, len(checks), chunk):
        part = checks[ci:ci + chunk]
        rel = f"cases/{ctx.pid}_{os.getpid()}_{name}_{ci // chunk}.v"
        body = [header, "Definition checks : list bool := ["]
        body.append(";\n".join(f"  ({c})" for c in part))
        body.append("].")
        body.append("Fixpoint falses (i : nat) (l : list bool) : list nat := match l with nil => nil"
                    " | cons b r => if b then falses (S i) r else cons i (falses (S i) r) end.")
        body.append("Definition result := Eval vm_compute in falses 0 checks.")
        body.append('Goal True. let r := eval cbv delta [result] in result in idtac "@@RESULT" r. exact I. Qed.')
        (COQ / rel).write_text("\n".join(body) + "\n")
        procs.append((ci, rel, subprocess.Popen(
            ["timeout", str(timeout), "coqc", "-Q", ".", "SV", rel],
            cwd=COQ, stdout=subprocess.PIPE, stderr=subprocess.STDOUT, text=True)))
        if len(procs) % 8 == 0:
            for _, _, p in procs[-8:]:
                p.wait()
    bad = []
    for ci, rel, p in procs:
        out = p.communicate()[0]
        rc = p.returncode
        # A coqc that was killed from outside (out-of-memory killer, `timeout` under heavy load)
        # says nothing at all.  Such a run carries no verdict, so it is repeated alone (a verdict
        # always needs the @@RESULT line of a coqc that exited 0: nothing can be hidden here).
        for attempt in range(2):
            if rc == 0 or out.strip() not in ("", "Killed"):
                break
            time.sleep(2 + 5 * attempt)
            q = subprocess.run(["timeout", str(2 * timeout), "coqc", "-Q", ".", "SV", rel],
                               cwd=COQ, stdout=subprocess.PIPE, stderr=subprocess.STDOUT, text=True)
            rc, out = q.returncode, q.stdout
            ctx.count("coqc_silent_exit_retried")
        if rc != 0:
            raise RuntimeError(f"coqc {rel} failed (exit {rc}): {tail(out, 1500)}")
        m = re.search(r"@@RESULT\s*(.*)", out, re.S)
        if not m:
            raise RuntimeError(f"no result from {rel}: {tail(out, 800)}")
        txt = m.group(1)
        nums = [int(x) for x in re.findall(r"\d+", txt.split("@@")[0])]
        # `nil`/`[]` -> no numbers. Numbers appear as `[1; 5]` literals (nat notation)
        bad += [ci + n for n in nums]
        for ext in (".v", ".vo", ".glob", ".vok", ".vos"):
            q = COQ / (rel[:-2] + ext)
            if q.exists():
                q.unlink()
        aux = COQ / "cases" / ("." + Path(rel).name[:-2] + ".aux")
        if aux.exists():
            aux.unlink()
    return sorted(bad)


def run_cases(ctx, name, header, checks, chunk=400, timeout=600):
    """Evaluate boolean checks inside Coq (see _run_cases_once). A concurrent check may rebuild a
    shared .vo between our build and this evaluation ("inconsistent assumptions"); in that case
    the model targets are rebuilt under the lock and the evaluation is retried."""
    for attempt in range(3):
        try:
            return _run_cases_once(ctx, name, header, checks, chunk=chunk, timeout=timeout)
        except RuntimeError as e:
            msg = str(e)
            if attempt == 2 or not ("inconsistent assumptions" in msg or "not found in loadpath" in msg
                                    or "Cannot find a physical path" in msg or "bad version" in msg):
                raise
            targets = list(getattr(ctx, "model_targets", []) or [])
            with CoqLock():
                coq_make(targets)
            time.sleep(1 + attempt)


def eval_terms(ctx, name, header, terms, timeout=600):
    """Evaluate arbitrary Gallina terms and return Coq's printed values (diagnostics only)."""
    rel = f"cases/{ctx.pid}_{os.getpid()}_{name}_eval.v"
    body = [header, "Set Printing Width 100000.", "Set Printing Depth 100000."]
    for i, t in enumerate(terms):
        body.append(f'Goal True. let r := eval vm_compute in ({t}) in idtac "@@V{i}" r. exact I. Qed.')
    (COQ / rel).write_text("\n".join(body) + "\n")
    ok, out = coqc_file(rel, timeout)
    vals = []
    for i in range(len(terms)):
        m = re.search(rf"@@V{i}\s(.*?)(?=@@V{i + 1}\s|\Z)", out, re.S)
        vals.append(m.group(1).strip() if m else None)
    for ext in (".v", ".vo", ".glob", ".vok", ".vos"):
        q = COQ / (rel[:-2] + ext)
        if q.exists():
            q.unlink()
    return vals


# ---------------------------------------------------------------------------------------------
# Known findings, replay files, evidence, verdict
# ---------------------------------------------------------------------------------------------


def load_known():
    p = VERIF / "KNOWN_FINDINGS.json"
    if not p.exists():
        return []
    return json.loads(p.read_text())["findings"]


def known_match(pid, failure, known):
    for k in known:
        if k.get("status") != "open" or k["property"] != pid:
            continue
        sigs = k.get("signatures") or [k["signature"]]
        if failure.signature in sigs:
            return k
    return None


def repo_fingerprint():
    h = hashlib.sha256()
    for p in sorted((REPO / "stepup").rglob("*.py")):
        h.update(str(p.relative_to(REPO)).encode())
        h.update(p.read_bytes())
    return h.hexdigest()[:16]


def write_replay(ctx, failure, n):
    d = VERIF / "replays"
    d.mkdir(exist_ok=True)
    path = d / f"{ctx.pid}-{ctx.tier}-{n}.json"
    kind = "failing-input" if failure.witness is not None else "broken-obligation"
    obj = {
        "property": ctx.pid,
        "kind": kind,
        "obligation_or_correspondence": failure.name,
        "failure": failure.as_json(),
        "seed": ctx.seed,
        "tier": ctx.tier,
        "repo_fingerprint": repo_fingerprint(),
        "gen_files_differing_from_golden": ctx.gen_changed,
        "replay_cmd": f"./check {ctx.pid} --replay {path}",
    }
    path.write_text(json.dumps(obj, indent=1, default=str))
    return path


def write_evidence(ctx, mod, violations):
    cov = {
        "obligations": max(len(ctx.obligations), 1),
        "discharged": len(ctx.discharged),
        "obligation_names": ctx.obligations,
        "axioms_per_theorem": ctx.axioms,
        "checker_cmd": f"cd /verif/coq && make {mod.PROPS_FILE[:-2]}.vo && coqc -Q . SV cases/assume_{ctx.pid}_<pid>.v (Print Assumptions of every theorem)"
                       + ("  &&  coqchk -o" if ctx.thorough() else ""),
        "trusted_base": list(getattr(mod, "TRUSTED_BASE", [])),
        "evaluations": ctx.evaluations,
        "distinct_nontrivial": len(ctx.nontrivial),
        "rule": getattr(mod, "RULE", ""),
        "samples": ctx.samples or ["(no sample recorded)"],
        "traces_validated_against_impl": ctx.traces_validated,
        "distribution": ctx.stats,
        "notes": ctx.notes,
        "failures": [f.as_json() for f in ctx.failures][:20],
        "gen_files_differing_from_golden": ctx.gen_changed,
    }
    ev = {
        "property_id": ctx.pid,
        "tier": ctx.tier,
        "seed": ctx.seed,
        "level": "proof",
        "coverage": cov,
        "assumptions": list(getattr(mod, "ASSUMPTIONS", [])),
        "wall_s": round(time.time() - ctx.t0, 2),
        "violations": violations,
    }
    # evidence/<id>.json describes runs against /repo itself; a run against a scratch copy (VERIF_REPO: seeded
    # changes, mutation self-tests) writes next to it under evidence/scratch/ (not committed)
    scratch = os.environ.get("VERIF_REPO") not in (None, "", "/repo")
    d = VERIF / "evidence" / "scratch" if scratch else VERIF / "evidence"
    d.mkdir(parents=True, exist_ok=True)
    (d / f"{ctx.pid}.json").write_text(json.dumps(ev, indent=1, default=str))


def run_property(mod, tier, seed, replay=None):
    ctx = Ctx(mod.PID, tier, seed)
    os.environ.setdefault("PYTHONHASHSEED", "0")
    # 1. translator
    try:
        mod.generate(ctx)
    except TranslatorError as e:
        ctx.add_failure("translator", "translator", f"translator:{e}", f"translator failed closed: {e}")
    except Exception as e:  # noqa: BLE001 - any crash of the translator is a broken tie
        ctx.add_failure("translator", "translator", f"translator-crash:{type(e).__name__}",
                        f"translator crashed: {type(e).__name__}: {e}")
    # 2. Coq
    if not ctx.failures:
        coq_phase(ctx, mod.PROPS_FILE)
    else:
        ctx.obligations = THEOREM_RE.findall((COQ / mod.PROPS_FILE).read_text())
    broken_obligation = bool(ctx.failures)
    mt = getattr(mod, "MODEL_TARGETS", None)
    ctx.model_targets = list(mt or [])
    if mt:
        with CoqLock():
            ok, log = coq_make(list(mt))
        if not ok:
            ctx.add_failure("coq", "model-build", "coq:model-build", "model files do not compile: " + tail(log, 1200))
    # 3. correspondence + 4. oracle
    if replay:
        mod.replay(ctx, json.loads(Path(replay).read_text()))
    else:
        for phase in ("correspondence", "oracle"):
            fn = getattr(mod, phase, None)
            if fn is None:
                continue
            try:
                fn(ctx)
            except Exception as e:  # noqa: BLE001
                import traceback
                ctx.add_failure(phase, phase + "-crash", f"{phase}-crash:{type(e).__name__}",
                                f"{phase} crashed: {type(e).__name__}: {e}\n" + tail(traceback.format_exc(), 1500))
        known_now = load_known()
        if broken_obligation and not any(f.witness is not None and known_match(ctx.pid, f, known_now) is None
                                         for f in ctx.failures):
            fn = getattr(mod, "search", None)
            if fn is not None:
                try:
                    fn(ctx)
                except Exception as e:  # noqa: BLE001
                    ctx.notes.append(f"search crashed: {type(e).__name__}: {e}")
    # 5. verdict
    known = load_known()
    new, lines = [], []
    have_witness = any(f.witness is not None for f in ctx.failures)
    seen_known = set()
    for f in ctx.failures:
        k = known_match(ctx.pid, f, known)
        if k is not None:
            if k["id"] not in seen_known:
                seen_known.add(k["id"])
                lines.append(f"KNOWN-FINDING: property={ctx.pid} {k['id']}: {k['what_fails']}")
            continue
        new.append(f)
    # Known findings that the committed file lists but this run did not reproduce are reported too
    # (the file is the record; printing is informational and never hides a new violation).
    for k in known:
        if k.get("status") == "open" and k["property"] == ctx.pid and k["id"] not in seen_known:
            if k.get("always_print", True):
                lines.append(f"KNOWN-FINDING: property={ctx.pid} {k['id']}: {k['what_fails']} (not re-observed in this run)")
    violations = 0
    # only a witness of an UNLISTED failure counts as "a failing input was found":
    # the witness of a known finding says nothing about why an obligation broke
    have_witness = any(f.witness is not None for f in new)
    if new:
        # failures with a witness first; obligations without witness get the suffix
        new.sort(key=lambda f: f.witness is None)
        reported = set()
        for n, f in enumerate(new):
            if f.signature in reported:
                continue
            reported.add(f.signature)
            path = write_replay(ctx, f, len(reported))
            suffix = "" if (f.witness is not None or have_witness) else " no-failing-input-found"
            lines.append(f"VIOLATION property={ctx.pid} replay={path}{suffix}")
            violations += 1
            if violations >= 5:
                break
    write_evidence(ctx, mod, violations)
    for ln in lines:
        print(ln)
    summary = (f"[{ctx.pid}] tier={tier} seed={seed} obligations={len(ctx.discharged)}/{len(ctx.obligations)} "
               f"evaluations={ctx.evaluations} distinct={len(ctx.nontrivial)} failures={len(ctx.failures)} "
               f"violations={violations} wall={time.time() - ctx.t0:.1f}s")
    print(summary)
    if new:
        for f in new[:5]:
            print(f"  - {f.kind}:{f.name}: {tail(f.detail, 600)}")
    return 1 if violations else 0
