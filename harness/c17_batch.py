"""C17, batch construction: Watcher.record_change -> Workflow.process_nglob_changes -> NamedGlob.will_change.

Called from harness/p_c17.py:
  generate_batch(ctx)  translator/gen_nglob_batch.py -> coq/gen/GenNglobBatch.v
  e1_batch(ctx)        correspondence: random item sequences through the REAL Watcher.record_change
                       (in-process, stub reporter, table-driven stub workflow) versus
                       model/NglobBatch.v fold_changes, evaluated inside Coq
  oracle_batch(ctx)    implementation only: real directory trees, a real Workflow (in-memory
                       database) with registered patterns, change traces incl. the named shapes;
                       the items are folded by the real record_change, committed by the real
                       process_nglob_changes, and every persisted match set is compared with a
                       fresh NamedGlob.glob()
No inotify and no sleeps: the queue items an operation produces are written down here the way
AsyncInotifyWrapper.change_loop produces them (that translation is C14's subject; C14 compares it
with real inotify).  No file nodes are declared, so run_once has nothing to re-hash and prunes
nothing: the UNCHANGED pruning is covered by the model hypothesis `pruned_existed` only.
"""
from __future__ import annotations

import asyncio
import contextlib
import os
import re
import shutil
import tempfile

from . import common
from .common import coq_bool, coq_str

HEADER = ("From Coq Require Import List NArith Bool.\nImport ListNotations.\n"
          "From SV Require Import lib.Bytes.\nFrom SV Require Import lib.Regex.\nFrom SV Require Import model.Nglob.\n"
          "From SV Require Import model.NglobBatch.\nOpen Scope N_scope.\n")

KIND_CODE = {"DELETED": 0, "UPDATED": 1, "DELETED_PARENT": 2}


def generate_batch(ctx):
    from translator import gen_nglob_batch
    text, facts = gen_nglob_batch.generate()
    ctx.write_gen("GenNglobBatch.v", text)
    ctx.batch_facts = facts
    ctx.stats["batch_translated_set_operations"] = len(facts["branches"])
    ctx.stats["batch_skipped_statements"] = len(facts["skipped"])


def coq_lstr(xs):
    return "[" + "; ".join(coq_str(x) for x in xs) + "]"


# ---------------------------------------------------------------------------------------------
# The real Watcher, driven in-process
# ---------------------------------------------------------------------------------------------


class _StubWorkflow:
    """change_is_relevant / relevant_paths_under from finite tables keyed by during_build."""

    def __init__(self, rel, under):
        self.rel = rel          # {True: set, False: set}
        self.under = under      # {(bool, dir): [paths]}

    def change_is_relevant(self, path, *, during_build=False):
        return str(path) in self.rel[bool(during_build)]

    def relevant_paths_under(self, directory, *, during_build=False):
        yield from self.under.get((bool(during_build), str(directory)), [])


async def _quiet_reporter(*args, **kwargs):
    return None


def _make_watcher(workflow, db=None):
    from stepup.core.watcher import Watcher
    return Watcher(workflow=workflow, db=db, reporter=_quiet_reporter, dir_queue=None, executor=None,
                   hash_queue=None, njob=1)


async def _fold_real(watcher, items, db=None):
    from path import Path
    from stepup.core.enums import Change
    for during_build, kind, path in items:
        if db is None:
            await watcher.record_change(Change[kind], Path(path), during_build=during_build)
        else:
            async with db:
                await watcher.record_change(Change[kind], Path(path), during_build=during_build)


# ---------------------------------------------------------------------------------------------
# E1: record_change versus the model fold
# ---------------------------------------------------------------------------------------------

E1_PATHS = ["sub/a", "sub/b", "sub/item", "sub/item/", "sub/", "sub/keep/", "x", "d/e", "d/", "d/e/f"]
E1_DIRS = ["sub", "d", "d/e", "sub/"]


def _gen_e1_case(rng):
    rel = {b: {p for p in E1_PATHS if rng.random() < (0.75 if not b else 0.5)} for b in (True, False)}
    under = {}
    for b in (True, False):
        for d in E1_DIRS:
            if rng.random() < 0.7:
                pre = d if d.endswith("/") else d + "/"
                pool = [p for p in E1_PATHS if p.startswith(pre) and p != pre] + [rng.choice(E1_PATHS)]
                under[(b, d)] = rng.sample(pool, rng.randint(0, len(pool)))
    items = []
    n = rng.randint(1, 12)
    nbuild = rng.randint(0, n) if rng.random() < 0.5 else 0
    for i in range(n):
        r = rng.random()
        if r < 0.2:
            items.append((i < nbuild, "DELETED_PARENT", rng.choice(E1_DIRS)))
        elif r < 0.6:
            items.append((i < nbuild, "DELETED", rng.choice(E1_PATHS)))
        else:
            items.append((i < nbuild, "UPDATED", rng.choice(E1_PATHS)))
    return rel, under, items


def _coq_items(items):
    return "[" + "; ".join(f"mk_item {coq_bool(b)} {KIND_CODE[k]} {coq_str(p)}" for b, k, p in items) + "]"


def _coq_under(under):
    return "[" + "; ".join(f"({coq_bool(b)}, {coq_str(d)}, {coq_lstr(l)})" for (b, d), l in sorted(under.items())) + "]"


def e1_batch(ctx):
    rng = ctx.rng
    n = ctx.scale(120, 2000)
    cases = [_gen_e1_case(rng) for _ in range(n)]
    # the four named shapes, with everything relevant
    allrel = {True: set(E1_PATHS), False: set(E1_PATHS)}
    cases += [
        (allrel, {}, [(False, "DELETED", "sub/a"), (False, "UPDATED", "sub/a")]),
        (allrel, {}, [(False, "UPDATED", "sub/b"), (False, "DELETED", "sub/b")]),
        (allrel, {}, [(False, "DELETED", "sub/item"), (False, "UPDATED", "sub/item/")]),
        (allrel, {(False, "sub"): ["sub/a", "sub/keep/"]},
         [(True, "UPDATED", "sub/a"), (False, "DELETED_PARENT", "sub"), (False, "DELETED", "sub/")]),
    ]
    results = []

    async def run_all():
        for rel, under, items in cases:
            w = _make_watcher(_StubWorkflow(rel, under))
            await _fold_real(w, items)
            results.append((sorted(map(str, w.deleted)), sorted(map(str, w.updated))))

    asyncio.run(run_all())
    checks, descr = [], []
    overlap_reported = False
    for (rel, under, items), (deleted, updated) in zip(cases, results):
        checks.append(f"chk_batch {coq_lstr(sorted(rel[True]))} {coq_lstr(sorted(rel[False]))} {_coq_under(under)} "
                      f"{_coq_items(items)} {coq_lstr(deleted)} {coq_lstr(updated)}")
        descr.append({"relevant_during_build": sorted(rel[True]), "relevant": sorted(rel[False]),
                      "under": [[b, d, l] for (b, d), l in sorted(under.items())],
                      "items": [list(i) for i in items], "deleted": deleted, "updated": updated})
        kinds = {k for _, k, _ in items}
        ctx.case(("batch-fold", repr(items), repr(sorted(under.items())), repr(sorted(rel[False]))),
                 bool(deleted or updated) and len(kinds) >= 2)
        ctx.count("batch_fold_items", len(items))
        if set(deleted) & set(updated) and not overlap_reported:
            overlap_reported = True
            ctx.add_failure("correspondence", "E1:batch-fold", "C17:batch:deleted-and-updated-overlap",
                            f"Watcher.record_change left {sorted(set(deleted) & set(updated))!r} in both sets",
                            witness={"case": descr[-1]})
    ctx.count("E1_batch_checks", len(checks))
    bad = common.run_cases(ctx, "batch", HEADER, checks, chunk=45)
    ctx.traces_validated += len(checks) - len(bad)
    for i in bad[:1]:
        d = _shrink_fold_case(ctx, cases[i], descr[i])
        ctx.add_failure("correspondence", "E1:batch-fold", "C17:batch:record_change-differs-from-model",
                        f"the sets after folding the items with the real Watcher.record_change are not the ones "
                        f"model/NglobBatch.v fold_changes computes: {d!r}", witness={"case": d})
    if cases:
        ctx.sample({"batch_fold_case": descr[0]})


def _py_fold(rel, under, items):
    """model/NglobBatch.v fold_changes, transliterated (only used to shrink a failing case; the verdict on the
    shrunk case is taken in Coq again)."""
    deleted, updated = [], []
    for db, kind, path in items:
        if kind == "DELETED":
            if path not in deleted and path in rel[db]:
                deleted.append(path)
                updated = [q for q in updated if q != path]
        elif kind == "UPDATED":
            if path not in updated and path in rel[db]:
                deleted = [q for q in deleted if q != path]
                updated.append(path)
        else:
            for q in under.get((db, path), []):
                if q not in deleted:
                    deleted.append(q)
                    updated = [x for x in updated if x != q]
    return sorted(deleted), sorted(updated)


def _describe_fold_case(rel, under, items, deleted, updated):
    return {"relevant_during_build": sorted(rel[True]), "relevant": sorted(rel[False]),
            "under": [[b, d, l] for (b, d), l in sorted(under.items())],
            "items": [list(i) for i in items], "deleted": deleted, "updated": updated}


def _shrink_fold_case(ctx, case, described):
    """Greedy removal of items (then of table entries) while the real fold still differs from the transliterated
    model; the result is confirmed by the Coq model, otherwise the original case is reported."""
    rel, under, items = case

    def real(items):
        async def run():
            w = _make_watcher(_StubWorkflow(rel, under))
            await _fold_real(w, items)
            return sorted(map(str, w.deleted)), sorted(map(str, w.updated))
        return asyncio.run(run())

    def differs(items):
        return real(items) != _py_fold(rel, under, items)

    if not differs(items):
        return described
    items = list(items)
    changed = True
    while changed:
        changed = False
        for k in range(len(items)):
            cand = items[:k] + items[k + 1:]
            if cand and differs(cand):
                items, changed = cand, True
                break
    deleted, updated = real(items)
    used_dirs = {(b, p) for b, k, p in items if k == "DELETED_PARENT"}
    under_small = {k: v for k, v in under.items() if k in used_dirs}
    chk = (f"chk_batch {coq_lstr(sorted(rel[True]))} {coq_lstr(sorted(rel[False]))} {_coq_under(under_small)} "
           f"{_coq_items(items)} {coq_lstr(deleted)} {coq_lstr(updated)}")
    if common.run_cases(ctx, "batchshrink", HEADER, [chk], chunk=1):
        return _describe_fold_case(rel, under_small, items, deleted, updated)
    return described


# ---------------------------------------------------------------------------------------------
# Oracle: real tree, real Workflow, real fold and commit, versus a fresh glob()
# ---------------------------------------------------------------------------------------------

BASE_TREE = {"sub": {"a": None, "item": None, "keep": {}, "n.txt": None}, "d": {"x.txt": None, "e": {"f": None}},
             "other": None, "data_1.txt": None, "data_a.txt": None}
PATTERNS = ["sub/${*x}", "sub/*", "sub/${*x}/", "**/${*n}.txt", "${*d}/item", "d/**", "${*d}/${*x}", "sub/${*x}/*",
            "*/", "sub/[ai]*", "d/**/*.txt"]
# Registrations of the SAME pattern string: different substitutions, and the same pattern + substitutions from a
# second step.  An entry is a pattern, or [pattern, subs, step index].  Every row is compared on its own.
SAME_PATTERN = [["data_${*i}.txt", {"i": "[0-9]"}, 0], ["data_${*i}.txt", {"i": "[a-z]"}, 0],
                ["data_${*i}.txt", {"i": "[a-z]"}, 1], ["data_${*i}.txt", {}, 1],
                ["sub/${*x}", {"x": "[a-m]*"}, 1], ["sub/${*x}", {"x": "n*"}, 0]]
STEPS = ["./plan.py", "./plan2.py"]


def _norm(entry):
    if isinstance(entry, str):
        return entry, {}, 0
    pattern, subs, k = entry
    return pattern, dict(subs), int(k)

NAMES = ["a", "b", "item", "keep", "n.txt", "new", "e", "data_1.txt", "data_2.txt", "data_a.txt", "data_b.txt"]


def _walk(base="."):
    out = []
    for root, dirs, files in os.walk(base):
        for d in dirs:
            out.append(os.path.normpath(os.path.join(root, d)) + "/")
        for f in files:
            out.append(os.path.normpath(os.path.join(root, f)))
    return sorted(out)


def _touch(p):
    with open(p, "a"):
        os.utime(p)


def _rmtree_items(d):
    """rm -r d: what change_loop queues (files: DELETE; directories: DELETED_PARENT + DELETED 'd/')."""
    items = []
    for root, dirs, files in os.walk(d, topdown=False):
        for f in sorted(files):
            items.append(("DELETED", os.path.normpath(os.path.join(root, f))))
        for s in sorted(dirs):
            q = os.path.normpath(os.path.join(root, s))
            items += [("DELETED_PARENT", q), ("DELETED", q + "/")]
    items += [("DELETED_PARENT", d), ("DELETED", d + "/")]
    shutil.rmtree(d)
    return items


def _apply(op, outside):
    """Apply one operation to the real tree (cwd); return the queue items it produces, or None."""
    kind, path = op
    if kind == "create":
        if os.path.lexists(path) or not os.path.isdir(os.path.dirname(path) or "."):
            return None
        _touch(path)
        return [("UPDATED", path)]
    if kind == "touch":
        if not os.path.isfile(path):
            return None
        _touch(path)
        return [("UPDATED", path)]
    if kind == "unlink":
        if not os.path.isfile(path):
            return None
        os.unlink(path)
        return [("DELETED", path)]
    if kind == "mkdir":
        if os.path.lexists(path) or not os.path.isdir(os.path.dirname(path) or "."):
            return None
        os.mkdir(path)
        return [("UPDATED", path + "/")]
    if kind == "rmtree":
        if not os.path.isdir(path):
            return None
        return _rmtree_items(path)
    if kind == "moveaway":
        if not os.path.isdir(path):
            return None
        os.rename(path, tempfile.mkdtemp(dir=outside) + "/moved")
        return [("DELETED_PARENT", path), ("DELETED", path + "/")]
    if kind == "file2dir":
        if not os.path.isfile(path):
            return None
        os.unlink(path)
        os.mkdir(path)
        return [("DELETED", path), ("UPDATED", path + "/")]
    if kind == "dir2file":
        if not os.path.isdir(path):
            return None
        items = _rmtree_items(path)
        _touch(path)
        return items + [("UPDATED", path)]
    raise AssertionError(kind)


NAMED_TRACES = [
    ("deleted-then-recreated", [("unlink", "sub/a"), ("create", "sub/a")]),
    ("created-then-deleted", [("create", "sub/new"), ("unlink", "sub/new")]),
    ("file-replaced-by-directory", [("file2dir", "sub/item")]),
    ("directory-replaced-by-file", [("dir2file", "sub/keep")]),
    ("directory-with-matches-moved-away", [("touch", "sub/a"), ("moveaway", "sub")]),
    ("directory-with-matches-removed", [("rmtree", "sub")]),
    ("moved-away-and-recreated", [("moveaway", "sub"), ("mkdir", "sub"), ("create", "sub/item")]),
    ("nothing-relevant", [("touch", "other")]),
    # `**/` spans zero directories: the only changed paths lie directly in the base directory
    ("recursive-wildcard-spans-zero-directories-created", [("create", "new.txt")]),
    ("recursive-wildcard-spans-zero-directories-deleted", [("unlink", "d/x.txt")]),
    # registrations that share the pattern string are affected differently
    ("same-pattern-other-subs-gains-a-match", [("create", "data_b.txt")]),
    ("same-pattern-first-subs-gains-a-match", [("create", "data_2.txt")]),
    ("same-pattern-other-subs-loses-a-match", [("unlink", "data_a.txt"), ("create", "sub/b")]),
    ("same-pattern-both-change", [("unlink", "data_1.txt"), ("create", "data_c.txt"), ("unlink", "sub/n.txt")]),
]


def _gen_ops(rng):
    ops = []
    dirs = ["", "sub/", "d/", "d/e/", "sub/keep/", "sub/item/"]
    for _ in range(rng.randint(1, 6)):
        k = rng.choice(["create", "create", "touch", "unlink", "unlink", "mkdir", "rmtree", "moveaway", "file2dir",
                        "dir2file"])
        if k in ("rmtree", "moveaway", "dir2file"):
            ops.append((k, rng.choice(["sub", "d", "d/e", "sub/keep", "sub/item", "sub/new"])))
        else:
            ops.append((k, rng.choice(dirs) + rng.choice(NAMES)))
    return ops


def _make_tree(tree, base):
    for name, sub in tree.items():
        p = os.path.join(base, name)
        if sub is None:
            _touch(p)
        else:
            os.mkdir(p)
            _make_tree(sub, p)


async def _run_trace(ops, patterns, nbuild, outside, probe=False, restart=False):
    """In cwd (a fresh tree): register the patterns on a real Workflow, apply the operations, fold the
    items with the real Watcher.record_change and commit with the real process_nglob_changes."""
    from stepup.core.enums import Need
    from stepup.core.nglob import NamedGlob
    from stepup.core.sqlite3 import DBSession
    from stepup.core.step import Step
    from stepup.core.workflow import Workflow
    from . import p_c17
    out = {"items": [], "rows": [], "error": None}
    with DBSession.open(":memory:") as db:
        wf = Workflow(db, dir_queue=None)
        await wf.initialize()
        olds = []
        ids = []
        async with db:
            steps = []
            for label in STEPS:
                # the boot step, then a second plan defined by it
                wf.define_step(steps[0] if steps else wf.root, label, need=Need.PLAN)
                steps.append(wf.find(Step, label))
            for entry in patterns:
                p, subs, k = _norm(entry)
                ng = NamedGlob(p, subs)
                ng.glob()
                wf.register_nglob(steps[k], ng)
                ids.append(db.execute("SELECT max(i) FROM nglob").fetchone()[0])
                olds.append((ng, p_c17.canon_glob(ng._glob_pattern)))

        async def rows():
            """(old, candidates before, candidates after, persisted row or None, fresh scan) per registration,
            matched by the row identifier (the order of nglob_registrations() is not relied upon)."""
            async with db:
                regs = {i: (ng, step.label) for i, ng, step in wf.nglob_registrations()}
            res = []
            for (old, std_before), i, entry in zip(olds, ids, patterns):
                fresh = NamedGlob(old.pattern, old.subs)
                fresh.glob()
                recorded, label = regs.get(i, (None, None))
                res.append((old, std_before, p_c17.canon_glob(old._glob_pattern), recorded, fresh,
                            label == STEPS[_norm(entry)[2]]))
            return res
        out["before"] = _walk()
        out["hyp"] = (await _check_hypotheses(wf, db, olds, out["before"])) if probe else None
        if restart:
            # the director was not running while the tree changed: startup.rescan_nglobs on the next start
            from stepup.core.startup import rescan_nglobs
            for op in ops:
                items = _apply(op, outside)
                if items is not None:
                    out["items"] += [(False, k, q) for k, q in items]
            out["after"] = _walk()
            out["deleted"], out["updated"] = None, None
            try:
                await rescan_nglobs(wf, _quiet_reporter)
            except Exception as e:  # noqa: BLE001
                out["error"] = f"{type(e).__name__}: {e}"
                return out
            out["rows"] = await rows()
            return out
        w = _make_watcher(wf, db)
        for op in ops:
            items = _apply(op, outside)
            if items is None:
                continue
            for kind, path in items:
                flag = len(out["items"]) < nbuild
                out["items"].append((flag, kind, path))
                await _fold_real(w, [(flag, kind, path)], db)
        out["after"] = _walk()
        out["deleted"], out["updated"] = sorted(map(str, w.deleted)), sorted(map(str, w.updated))
        try:
            async with db:
                wf.process_nglob_changes(w.deleted, w.updated)
        except Exception as e:  # noqa: BLE001
            out["error"] = f"{type(e).__name__}: {e}"
            return out
        out["rows"] = await rows()
    return out


async def _check_hypotheses(wf, db, olds, existing):
    """The two assumptions of C17_watch_batch_update_equals_rescan about the Workflow, observed on the real
    one (no file nodes declared): accepted_relevant = every path an attached registration's regex accepts
    passes change_is_relevant with either flag; under_complete = every recorded match below a directory is
    yielded by relevant_paths_under(directory), with and without the trailing separator.  Returns a list of
    (kind, detail) for the ones that fail."""
    bad = []
    dirs = [q for q in existing if q.endswith("/")]
    async with db:
        # O9: the two other users of the persisted regex (matches_any_glob, _raise_if_glob_match) answer exactly
        # what the NamedGlob matchers answer (no file nodes are declared here)
        from stepup.core.exceptions import GraphError
        probes = set(existing) | {q + suffix for q in ("sub/new", "sub/zz.txt", "d/new", "new", "sub/a/b", "su", "sub/a\nb", "d/a\nb")
                                  for suffix in ("", "/")}
        for q in sorted(probes):
            expect = any(ng._regex.fullmatch(q) is not None for ng, _std in olds)
            if bool(wf.matches_any_glob(q)) != expect:
                bad.append(("matches_any_glob-differs-from-matcher", {"path": q, "registered_matchers_accept": expect,
                                                                      "patterns": [ng.pattern for ng, _ in olds]}))
            try:
                wf._raise_if_glob_match("probe", [q])
                raised = False
            except GraphError:
                raised = True
            if raised != expect:
                bad.append(("raise_if_glob_match-differs-from-matcher", {"path": q, "registered_matchers_accept": expect,
                                                                         "patterns": [ng.pattern for ng, _ in olds]}))
        for ng, _std in olds:
            recorded = [str(x) for x in ng.files()]
            probes = set(recorded) | {q for q in existing if ng._regex.fullmatch(q)}
            # not existing yet, but accepted: what a later UPDATED item would carry
            probes |= {q + suffix for q in ("sub/new", "sub/zz.txt", "d/new", "new") for suffix in ("", "/")
                       if ng._regex.fullmatch(q + suffix)}
            for q in sorted(probes):
                for flag in (False, True):
                    if not wf.change_is_relevant(q, during_build=flag):
                        bad.append(("accepted-path-not-relevant",
                                    {"pattern": ng.pattern, "path": q, "during_build": flag}))
            for d in dirs:
                for spelled in (d, d.rstrip("/")):
                    for flag in (False, True):
                        got = set(map(str, wf.relevant_paths_under(spelled, during_build=flag)))
                        miss = sorted(q for q in recorded if q.startswith(d) and q != d and q not in got)
                        if miss:
                            bad.append(("recorded-match-not-under-directory",
                                        {"pattern": ng.pattern, "directory": spelled, "during_build": flag,
                                         "missing": miss}))
    return bad


def _stale_only(out, rec_files, fresh_files):
    """C14's known `C14-stale-update`: an unrecorded path reported UPDATED in this batch below a directory
    that got DELETED_PARENT afterwards stays in `updated` (relevant_paths_under only knows nodes and
    recorded matches): extra non-existing paths on the watch side, nothing missing."""
    extra = rec_files - fresh_files
    if fresh_files - rec_files or not extra:
        return False
    items = out["items"]
    for q in extra:
        if q in out["after"]:
            return False
        ups = [i for i, (_b, k, p) in enumerate(items) if k == "UPDATED" and p == q]
        if not ups:
            return False
        later_dp = [i for i, (_b, k, p) in enumerate(items) if k == "DELETED_PARENT" and q.startswith(p + "/")
                    and i > ups[-1]]
        if not later_dp:
            return False
    return True


def _check_trace(ctx, seen, name, ops, patterns, nbuild, probe=False, restart=False):
    from . import p_c17
    with tempfile.TemporaryDirectory(prefix="verif-c17b-") as tmp:
        proj = os.path.join(tmp, "proj")
        outside = os.path.join(tmp, "outside")
        os.mkdir(proj)
        os.mkdir(outside)
        _make_tree(BASE_TREE, proj)
        with contextlib.chdir(proj):
            out = asyncio.run(_run_trace(ops, patterns, nbuild, outside, probe, restart))
    base_w = {"batch_ops": [list(o) for o in ops], "patterns": patterns, "during_build_items": nbuild,
              "items": [list(i) for i in out["items"]], "deleted": out.get("deleted"), "updated": out.get("updated"),
              "paths_before": out.get("before"), "paths_after": out.get("after"), "trace": name}
    if restart:
        base_w["restart"] = True
        _check_restart(ctx, seen, name, out, base_w)
        return
    ctx.count("batch_traces")
    ctx.count("batch_items", len(out["items"]))
    for kind, what in out.get("hyp") or []:
        sig = "C17:batch:hypothesis:" + kind
        if sig not in seen:
            seen.add(sig)
            ctx.add_failure("oracle", "O7:batch-hypotheses", sig,
                            f"assumption of C17_watch_batch_update_equals_rescan fails on the real Workflow: {what!r}",
                            witness=dict(base_w, hypothesis=what))
    if out.get("hyp") is not None:
        ctx.count("batch_hypothesis_probe_runs")
    if out["error"] is not None:
        sig = "C17:batch:commit-raised:" + out["error"].split(":")[0]
        if sig not in seen:
            seen.add(sig)
            ctx.add_failure("oracle", "O6:batch-commit", sig,
                            f"process_nglob_changes raised {out['error']} for the batch the real record_change built",
                            witness=base_w)
        return
    before, after = set(out["before"]), set(out["after"])
    deleted, updated = set(out["deleted"]), set(out["updated"])
    for old, std_before, std_after, recorded, fresh, same_step in out["rows"]:
        if _row_identity_broken(ctx, seen, "O6", name, old, recorded, same_step, base_w):
            continue
        rec_files = {str(x) for x in recorded.files()}
        fresh_files = {str(x) for x in fresh.files()}
        changed = {str(x) for x in old.files()} != fresh_files
        ctx.case(("O6", old.pattern, repr(sorted(old.subs.items())), tuple(map(tuple, ops)), nbuild),
                 changed or bool(rec_files))
        ctx.count("batch_rows_changed" if changed else "batch_rows_unchanged")
        if recorded.results == fresh.results:
            continue
        if _stale_only(out, rec_files, fresh_files):
            ctx.count("batch_stale_update_then_parent_moved(C14-stale-update)")
            continue

        def holds(fixes, old=old, std_before=std_before, std_after=std_after):
            try:
                rx = p_c17.repaired_regex(old.pattern, old.subs, fixes)
            except (ValueError, re.error):
                return False
            cb = p_c17.repaired_candidates(old.pattern, old.subs, fixes, std_before, before)
            ca = p_c17.repaired_candidates(old.pattern, old.subs, fixes, std_after, after)
            was = {q for q in cb if rx.fullmatch(q)}
            evolved = (was | {q for q in updated if rx.fullmatch(q)}) - deleted
            return evolved == {q for q in ca if rx.fullmatch(q)}

        causes = p_c17.explain(holds)
        w = dict(base_w, pattern=old.pattern, subs=old.subs, recorded_after_commit=sorted(rec_files),
                 rescanned=sorted(fresh_files))
        detail = (f"[{name}] pattern {old.pattern!r} subs {old.subs!r}: after the batch deleted={sorted(deleted)!r} updated={sorted(updated)!r} "
                  f"(built by Watcher.record_change from {out['items']!r}) process_nglob_changes recorded "
                  f"{sorted(rec_files)!r}; a fresh glob() gives {sorted(fresh_files)!r}")
        if causes:
            p_c17.report_causes(ctx, seen, "O6", "O6:batch-update=rescan", causes, detail, w)
        else:
            # no known matcher defect explains it (or the sets agree and the grouping differs)
            if rec_files - fresh_files and fresh_files - rec_files:
                how = "stale-match-kept-and-match-missed"
            elif rec_files - fresh_files:
                how = "stale-match-kept"
            elif fresh_files - rec_files:
                how = "match-missed"
            else:
                how = "same-files-different-keys"
            sig = "C17:batch:update-differs-from-rescan:" + how
            if ("O6", sig) not in seen:
                seen.add(("O6", sig))
                ctx.add_failure("oracle", "O6:batch-update=rescan", sig, detail, witness=w)


def _row_identity_broken(ctx, seen, clause, name, old, recorded, same_step, base_w):
    """A registration is (step, pattern, subs): after a commit / rescan its row must still exist, belong to the
    same step and carry the same pattern and substitutions (a row is only ever rewritten with ITS OWN evolved
    object)."""
    if recorded is None:
        what = "row-vanished"
    elif not same_step:
        what = "row-moved-to-another-step"
    elif recorded.pattern != old.pattern:
        what = "pattern-replaced"
    elif dict(recorded.subs) != dict(old.subs):
        what = "subs-replaced"
    else:
        return False
    sig = f"C17:{'batch' if clause == 'O6' else 'restart'}:registration-identity:{what}"
    if sig not in seen:
        seen.add(sig)
        got = None if recorded is None else {"pattern": recorded.pattern, "subs": dict(recorded.subs),
                                             "files": sorted(str(x) for x in recorded.files())}
        ctx.add_failure("oracle", f"{clause}:registration-identity", sig,
                        f"[{name}] the registration ({old.pattern!r}, {old.subs!r}) now holds {got!r}",
                        witness=dict(base_w, pattern=old.pattern, subs=old.subs, row_now=got))
    return True


def _check_restart(ctx, seen, name, out, base_w):
    """O8: after startup.rescan_nglobs every persisted row equals a fresh glob() (the real function, real tree)."""
    ctx.count("restart_traces")
    if out["error"] is not None:
        sig = "C17:restart:rescan-raised:" + out["error"].split(":")[0]
        if sig not in seen:
            seen.add(sig)
            ctx.add_failure("oracle", "O8:restart-rescan", sig, f"rescan_nglobs raised {out['error']}", witness=base_w)
        return
    for old, _std_before, _std_after, recorded, fresh, same_step in out["rows"]:
        if _row_identity_broken(ctx, seen, "O8", name, old, recorded, same_step, base_w):
            continue
        rec_files = {str(x) for x in recorded.files()}
        fresh_files = {str(x) for x in fresh.files()}
        ctx.case(("O8", old.pattern, repr(sorted(old.subs.items())), tuple(map(tuple, base_w["batch_ops"]))),
                 {str(x) for x in old.files()} != fresh_files)
        if recorded.results == fresh.results:
            continue
        how = ("stale-match-kept" if rec_files - fresh_files else "") + ("match-missed" if fresh_files - rec_files else "")
        sig = "C17:restart:rescan-differs-from-fresh-scan:" + (how or "same-files-different-keys")
        if sig not in seen:
            seen.add(sig)
            ctx.add_failure("oracle", "O8:restart-rescan", sig,
                            f"[{name}] pattern {old.pattern!r} subs {old.subs!r}: after startup.rescan_nglobs the persisted matches are "
                            f"{sorted(rec_files)!r}; a fresh glob() gives {sorted(fresh_files)!r}",
                            witness=dict(base_w, pattern=old.pattern, subs=old.subs, recorded_after_rescan=sorted(rec_files),
                                         rescanned=sorted(fresh_files)))


def oracle_batch(ctx, only=None):
    """O6: the persisted match sets after a watch-phase commit equal a fresh scan."""
    rng = ctx.rng
    seen = set()
    if only is not None:
        _check_trace(ctx, seen, only.get("trace", "replay"), [tuple(o) for o in only["batch_ops"]], only["patterns"],
                     only.get("during_build_items", 0), probe="hypothesis" in only, restart=bool(only.get("restart")))
        return
    for k, (name, ops) in enumerate(NAMED_TRACES):
        _check_trace(ctx, seen, name, ops, PATTERNS + SAME_PATTERN, 0, probe=(k == 0))
        _check_trace(ctx, seen, name, ops, PATTERNS + SAME_PATTERN, 0, restart=True)
    for k in range(ctx.scale(40, 600)):
        ops = _gen_ops(rng)
        pats = rng.sample(PATTERNS, rng.randint(2, 5))
        if rng.random() < 0.6:
            pats = pats + rng.sample(SAME_PATTERN, rng.randint(2, 4))
            rng.shuffle(pats)
        nbuild = rng.randint(0, 3) if rng.random() < 0.3 else 0
        _check_trace(ctx, seen, f"random-{k}", ops, pats, nbuild, probe=(k % 10 == 3))
        if k % 3 == 0:
            _check_trace(ctx, seen, f"random-{k}", ops, pats, 0, restart=True)


def replay_batch(ctx, witness):
    """Replay a witness produced by oracle_batch (`batch_ops` key) or e1_batch (`case` key)."""
    if witness and "batch_ops" in witness:
        oracle_batch(ctx, only=witness)
        return True
    if witness and isinstance(witness.get("case"), dict) and "items" in witness["case"]:
        c = witness["case"]
        rel = {True: set(c["relevant_during_build"]), False: set(c["relevant"])}
        under = {(b, d): l for b, d, l in c["under"]}
        items = [tuple(i) for i in c["items"]]

        async def run():
            w = _make_watcher(_StubWorkflow(rel, under))
            await _fold_real(w, items)
            return sorted(map(str, w.deleted)), sorted(map(str, w.updated))

        deleted, updated = asyncio.run(run())
        print("real record_change: deleted", deleted, "updated", updated)
        chk = (f"chk_batch {coq_lstr(sorted(rel[True]))} {coq_lstr(sorted(rel[False]))} {_coq_under(under)} "
               f"{_coq_items(items)} {coq_lstr(deleted)} {coq_lstr(updated)}")
        bad = common.run_cases(ctx, "batchreplay", HEADER, [chk], chunk=1)
        if set(deleted) & set(updated):
            ctx.add_failure("correspondence", "E1:batch-fold", "C17:batch:deleted-and-updated-overlap",
                            f"Watcher.record_change left {sorted(set(deleted) & set(updated))!r} in both sets",
                            witness=witness)
        if bad:
            ctx.add_failure("correspondence", "E1:batch-fold", "C17:batch:record_change-differs-from-model",
                            f"real sets deleted={deleted!r} updated={updated!r} differ from model/NglobBatch.v fold_changes",
                            witness=witness)
        return True
    return False
