"""C01, graph level: the invariant K on real database dumps (E2 Impl) and the transaction
histories of defects D4 and D9, replayed on the real Workflow + Scheduler."""
from __future__ import annotations

import asyncio

from . import e2

ROOT = ("root", "")
PLAN = ("step", "./plan.py")

BOOT = [
    ("declare_static", ROOT, ("plan.py",)),
    ("update_hashes", "CONFIRMED", (("plan.py", 1),)),
    ("define_step", ROOT, "./plan.py", ("plan.py",), (), (), (), "PLAN"),
    ("dispatch", "./plan.py"),
    ("reset_for_rerun", "./plan.py"),
]
CAT = ("define_step", PLAN, "cat", ("x.txt",), (), ("y.txt",), (), "DEFAULT")
PLAN_OK = ("exec_end", "./plan.py", (), "SUCCEEDED", (), True, False)
RERUN_PLAN = [
    ("update_hashes", "EXTERNAL", (("plan.py", 4),)),
    ("dispatch", "./plan.py"),
    ("reset_to_pending", "./plan.py"),
    ("dispatch", "./plan.py"),
    ("reset_for_rerun", "./plan.py"),
]
D4_BUILD1 = BOOT + [
    ("declare_static", PLAN, ("x.txt",)),
    ("update_hashes", "CONFIRMED", (("x.txt", 2),)),
    CAT, PLAN_OK,
    ("dispatch", "cat"), ("reset_for_rerun", "cat"),
    ("exec_end", "cat", (), "SUCCEEDED", (("y.txt", 3),), True, False),
    ("delete_detached",),
]
D4_BUILD2 = RERUN_PLAN + [CAT, PLAN_OK, ("delete_detached",)]
D4_OPS = D4_BUILD1 + D4_BUILD2
D4_SCRATCH = BOOT + [CAT, PLAN_OK, ("delete_detached",)]


def _s(env):
    return ("define_step", PLAN, "S", (), tuple(env), (), (), "DEFAULT")


RUN_S = [("dispatch", "S"), ("reset_for_rerun", "S"), ("exec_end", "S", (), "SUCCEEDED", (), True, False)]
D9_BUILD1 = BOOT + [_s(["VA", "VB"]), PLAN_OK] + RUN_S + [("delete_detached",)]
D9_BUILD2 = RERUN_PLAN + [_s(["VA"]), PLAN_OK] + RUN_S + [("delete_detached",)]
D9_OPS = D9_BUILD1 + D9_BUILD2
D9_SCRATCH = BOOT + [_s(["VA"]), PLAN_OK] + RUN_S + [("delete_detached",)]

FILE_OK = (e2.FileState.BUILT.value, e2.FileState.CONFIRMED.value)
OUT_OK = (e2.FileState.BUILT.value, e2.FileState.VOLATILE.value)
SUCCEEDED = e2.StepState.SUCCEEDED.value


def k_violators(d: dict) -> list:
    """The K of coq/model/NoStale.v evaluated on a canonical dump of the real database."""
    det = {k: dd for k, _, dd in d["nodes"]}
    fstate = {l: s for l, s, _ in d["files"]}
    bad = []
    for l, s, *_rest in d["steps"]:
        if s != SUCCEEDED or det.get(("step", l), True):
            continue
        ok = l in d["shash"]
        for a, b, _dy in d["deps"]:
            if b == ("step", l) and a[0] == "file":
                ok = ok and not det.get(a, True) and fstate.get(a[1]) in FILE_OK
            if a == ("step", l) and b[0] == "file":
                ok = ok and (det.get(b, True) or fstate.get(b[1]) in OUT_OK)
        if not ok:
            bad.append(l)
    return sorted(bad)


async def _replay(ops, finalize=False):
    impl = e2.Impl(3)
    await impl.start()
    try:
        trace = []
        for op in ops:
            if op[0] == "dispatch":
                r = await impl.dispatch()
                d = await impl.dump()
                if r is None or r[0] != op[1]:
                    trace.append((op, "internal", f"dispatch returned {r!r}", d))
                    break
                trace.append((op, "ok", r[1], d))
                continue
            oc, detail = await impl.apply(op)
            if op[0] == "define_step" and op[1] == ROOT:
                async with impl.db:       # what initialize_boot passes as _safe=True
                    impl.db.execute("UPDATE step SET _safe = 1, _safe_ignoring_hold = 1, _check_safe = 0")
            trace.append((op, oc, detail, await impl.dump()))
        repair = getattr(impl.wf, "mark_stale_succeeded_steps_pending", None)
        if finalize and repair is not None:
            async with impl.db:
                repair()
            trace.append((("report_unbuilt_repair",), "ok", "", await impl.dump()))
        return trace
    finally:
        impl.close()


def replay(ops, finalize: bool = False):
    """[(op, outcome, detail, dump)] of the real implementation for a list of operations.

    finalize=True appends what the first transaction of finalize.report_unbuilt does to the graph
    at the end of a build when the code has it (``Workflow.mark_stale_succeeded_steps_pending``,
    the proposed D4 repair); on the unchanged tree it adds nothing."""
    return asyncio.run(asyncio.wait_for(_replay(ops, finalize), 60))


def step_state(d: dict, label: str):
    return next((s for l, s, *_ in d["steps"] if l == label), None)


def env_names(d: dict, label: str):
    return sorted(n for s, n, _ in d["envs"] if s == label)
