"""C01: correspondence of coq/model/Engine.v with the real system on static-DAG projects.

The same history (edits of sources and tracked variables, each followed by a build) is run
through the real serve() (E3, restart flavour) and through Engine.v inside Coq; compared per
build: which steps executed their command, which were hash-checked and skipped, the final state
(SUCCEEDED or not) of every step, which output files changed content, and the value recorded in
table env_var for every (step, tracked variable) row (read from the real database after the
build) with the model's [rrec]."""
from __future__ import annotations

import random

from . import c01_oracle as co
from . import common, e3

HEADER = ("From Coq Require Import List NArith Bool.\nImport ListNotations.\n"
          "From SV Require Import model.Engine.\nOpen Scope N_scope.\n")


ENVS = ["VA", "VB", "VC"]


def env_rows_probe(handler, db):
    """The rows (step label, variable, recorded value) of table env_var of the attached steps."""
    sql = ("SELECT label, name, value FROM env_var JOIN node ON env_var.node = node.i "
           "WHERE NOT node.detached ORDER BY label, name")
    return [list(r) for r in db.execute(sql).fetchall()]


def gen_static_case(rng: random.Random):
    """A static-DAG project, its model description, a history of source / env edits and the
    absolute world (sources, environment) of every build.

    Steps track 0-3 variables and read 1-3 files.  Besides single edits a phase may change ALL
    the variables (or all the source inputs) of one step at once, and a later phase may put a
    SUBSET of them back to the values they had before (same-size contents for files)."""
    nsrc = rng.randint(2, 4)
    sources = [f"s{i}.txt" for i in range(nsrc)]
    envs = list(ENVS)
    pid = {p: i + 1 for i, p in enumerate(sources)}
    eid = {n: i + 1 for i, n in enumerate(envs)}
    steps, avail = [], list(sources)
    for i in range(rng.randint(2, 7)):
        inp = sorted(rng.sample(avail, rng.randint(1, min(3, len(avail)))))
        env = sorted(rng.sample(envs, rng.choice([0, 0, 0, 1, 2, 2, 3])))
        outs = [f"o{i}.txt"] + ([f"o{i}b.txt"] if rng.random() < 0.2 else [])
        for o in outs:
            pid[o] = 100 + len(pid)
        steps.append({"label": f"t{i}", "id": 1000 + i, "inp": inp, "env": env, "out": outs})
        avail += outs
    if not any(len(s["env"]) >= 2 for s in steps):
        rng.choice(steps)["env"] = sorted(rng.sample(envs, rng.randint(2, 3)))
    plan = [{"op": "static", "paths": sources}]
    commands = {}
    for s in steps:
        plan.append({"op": "step", "label": s["label"], "inp": s["inp"], "env": s["env"], "out": s["out"]})
        commands[s["label"]] = [{"op": "getenv", "name": n} for n in s["env"]] + [{"op": "auto"}]
    version = {p: 0 for p in sources}
    nextval = {n: 0 for n in envs}
    content_id = {}

    def cid(text):
        return content_id.setdefault(text, len(content_id) + 1)

    def text(p):
        return f"{p} version {version[p]}\n"      # same size for versions 0-9
    env0 = {"VA": "va0", "VB": None, "VC": "vc0"}
    project = e3.Project(sources={p: text(p) for p in sources},
                         program={"scripts": {"plan.py": plan}, "commands": commands}, env=dict(env0))

    def world():
        src = [(pid[p], cid(text(p))) for p in sources if p in present]
        env = [(eid[n], cid("env:" + v)) for n, v in cur_env.items() if v is not None]
        return src, env
    history, worlds = [], []
    present = set(sources)
    cur_env = dict(env0)
    worlds.append(world())
    last_multi = None          # ("env", {name: previous value}) or ("src", {path: previous version})

    def fresh(n):
        nextval[n] += 1
        return f"{n.lower()}{nextval[n]}"
    for _ in range(rng.randint(1, 6)):
        edits = []
        for _ in range(rng.randint(1, 2)):
            kind = rng.choice(["change", "change", "delete", "restore", "env", "noop",
                               "env_multi", "env_multi", "src_multi", "revert_subset", "revert_subset",
                               "revert_subset"])
            if kind == "revert_subset" and last_multi is None:
                kind = rng.choice(["env_multi", "src_multi"])
            if kind == "change":
                p = rng.choice(sources)
                version[p] += 1
                present.add(p)
                edits.append({"op": "write", "path": p, "content": text(p)})
            elif kind == "delete" and len(present) > 1:
                p = rng.choice(sorted(present))
                present.discard(p)
                edits.append({"op": "delete", "path": p})
            elif kind == "restore":
                gone = sorted(set(sources) - present)
                if gone:
                    p = rng.choice(gone)
                    present.add(p)       # same content as before it was deleted
                    edits.append({"op": "write", "path": p, "content": text(p)})
            elif kind == "env":
                n = rng.choice(envs)
                if rng.random() < 0.35:  # back to an earlier value (A -> B -> A, D30)
                    v = rng.choice([None, f"{n.lower()}0", f"{n.lower()}1"])
                else:
                    v = fresh(n)
                cur_env[n] = v
                edits.append({"op": "setenv", "name": n, "value": v})
            elif kind == "env_multi":
                # every variable of one step (or every variable) gets a new value in one phase
                cands = [s["env"] for s in steps if len(s["env"]) >= 2]
                names = rng.choice(cands) if cands and rng.random() < 0.8 else list(envs)
                last_multi = ("env", {n: cur_env[n] for n in names})
                for n in names:
                    cur_env[n] = fresh(n)
                    edits.append({"op": "setenv", "name": n, "value": cur_env[n]})
            elif kind == "src_multi":
                cands = [[p for p in s["inp"] if p in version] for s in steps]
                cands = [c for c in cands if len(c) >= 2]
                paths = rng.choice(cands) if cands and rng.random() < 0.8 else list(sources)
                paths = [p for p in paths if p in present]
                if paths:
                    last_multi = ("src", {p: version[p] for p in paths})
                    top = max(version.values()) + 1
                    for p in paths:
                        version[p] = top
                        edits.append({"op": "write", "path": p, "content": text(p)})
            elif kind == "revert_subset":
                what, old = last_multi
                names = sorted(old)
                k = rng.randint(1, len(names) - 1) if len(names) > 1 and rng.random() < 0.85 else len(names)
                sub = sorted(rng.sample(names, k))
                if what == "env":
                    for n in sub:
                        cur_env[n] = old[n]
                        edits.append({"op": "setenv", "name": n, "value": old[n]})
                else:
                    for p in sub:
                        if p in present:
                            version[p] = old[p]
                            edits.append({"op": "write", "path": p, "content": text(p)})
                last_multi = None
        history.append({"edits": edits})
        worlds.append(world())
    return project, history, steps, pid, eid, worlds, content_id


def correspondence(ctx):
    n = ctx.scale(14, 120)
    checks, meta = [], []
    for i in range(n):
        rng = random.Random(f"c01-engine-{ctx.seed}-{ctx.tier}-{i}")
        project, history, steps, pid, eid, worlds, content_id = gen_static_case(rng)
        results = e3.run_history(project, history, timeout=40, probe=env_rows_probe)
        labels = {s["label"]: s["id"] for s in steps}
        phases = []
        ran_any = skipped_any = False
        for k, res in enumerate(results):
            ran = {c["label"] for c in res.commands if c["label"] in labels}
            skipped = {e[1] for e in res.events if e[0] == "SKIP" and e[1] in labels}
            ran_any |= bool(ran) and k > 0
            # some step was hash-checked and skipped, or kept SUCCEEDED without any check
            skipped_any |= bool(skipped) or (k > 0 and bool(ran) and len(ran) < len(labels))
            nodes = res.nodes()
            states = {l: (nodes.get("step:" + l, {"props": {}})["props"].get("state") or ["?"])[0] for l in labels}
            log = [f"({labels[l]}, true)" for l in sorted(ran)] + [f"({labels[l]}, false)" for l in sorted(skipped - ran)]
            est = [f"({labels[l]}, {common.coq_bool(states[l] == 'SUCCEEDED')})" for l in sorted(labels)]
            src, env = worlds[k]
            prev = results[k - 1].files if k > 0 else {}
            outs = sorted(p for s in steps for p in s["out"])
            chg = [f"({pid[p]}, {common.coq_bool(res.files.get(p) != prev.get(p))})" for p in outs]
            rows = []
            for label, name, value in (res.probe or []):
                if label in labels:
                    # same value text = same content id in every world (0: a text no world had)
                    v = "None" if value is None else f"(Some {content_id.get('env:' + value, 0)})"
                    rows.append(f"({labels[label]}, {eid[name]}, {v})")
            ctx.count("engine_env_rows", len(rows))
            phases.append(f"(({common.coq_list([f'({a}, {b})' for a, b in src])}, "
                          f"{common.coq_list([f'({a}, {b})' for a, b in env])}, "
                          f"{common.coq_list(log)}, {common.coq_list(est)}, {common.coq_list(chg)}), "
                          f"{common.coq_list(rows)})")
            ctx.count("engine_builds")
        proj = common.coq_list([
            f"mkStep {s['id']} {common.coq_list([str(pid[p]) for p in s['inp']])} "
            f"{common.coq_list([str(eid[e]) for e in s['env']])} {common.coq_list([str(pid[p]) for p in s['out']])}"
            for s in steps])
        term = f"let proj := {proj} in wf proj && check_hist_r proj empty_rsys {common.coq_list(phases)}"
        checks.append(term)
        meta.append((project, history, term))
        ctx.case(("engine", i, term), nontrivial=ran_any and skipped_any)
    bad = common.run_cases(ctx, "engine", HEADER, checks, chunk=10)
    ctx.traces_validated += len(checks) - len(bad)
    for b in bad[:3]:
        project, history, term = meta[b]
        t2 = term.replace("wf proj && check_hist_r", "trace_hist_r")
        got = common.eval_terms(ctx, "enginediag", HEADER, [t2])
        ctx.add_failure("correspondence", "E3:Engine", "E3:Engine:executed-or-skipped-set",
                        "model/Engine.v and the real system disagree on which steps ran, were skipped, "
                        "ended SUCCEEDED, which outputs changed or which value table env_var records for a "
                        f"(step, variable) row; model did (log, states, changes, rows) per build: {(got[0] or '')[:1500]}",
                        witness={"case": co.case_json(project, history), "model_term": term})


# ---------------------------------------------------------------------------------------------
# Amended (dynamic) inputs with deferral, failing steps: Engine.v Section Amend (gate = true, the code)
# ---------------------------------------------------------------------------------------------


def gen_amend_case(rng: random.Random):
    """A static plan whose steps are plain steps or script steps ``./w<i>.py``; a script step amends
    a list of files that depends on the VERSION of its script (the script is its first declared
    input): sources or outputs of earlier steps.  History: change / delete / restore a source
    (a deleted source blocks its consumers, whose outputs then are unavailable amended inputs:
    deferral), switch a script to another version.  Some script versions FAIL (exit 1 after the
    amend and the reads): the step ends FAILED, its consumers stay blocked, the other steps go on
    (all builds run with keep_going); a later version repairs it."""
    nsrc = rng.randint(2, 4)
    sources = [f"s{i}.txt" for i in range(nsrc)]
    pid = {p: i + 1 for i, p in enumerate(sources)}
    steps, avail = [], list(sources)
    scripts = {}                      # path -> {version: amended list}
    failing = {}                      # path -> set of versions whose command fails
    for i in range(rng.randint(2, 6)):
        inp = sorted(rng.sample(avail, rng.randint(1, min(2, len(avail)))))
        out = f"o{i}.txt"
        pid[out] = 100 + len(pid)
        if rng.random() < 0.6:
            path = f"w{i}.py"
            pid[path] = 100 + len(pid)
            rest = [p for p in avail if p not in inp]
            versions = {}
            built = [p for p in rest if p in pid and pid[p] >= 100]      # outputs of earlier steps
            for v in range(rng.randint(2, 3)):
                k = rng.choice([0, 1, 1, 2]) if rest else 0
                pool = built if built and rng.random() < 0.6 else rest
                versions[v] = sorted(rng.sample(pool, min(k, len(pool))))
            scripts[path] = versions
            failing[path] = {v for v in versions if v > 0 and rng.random() < 0.3}
            steps.append({"label": f"./{path}", "script": path, "id": 1000 + i, "inp": [path] + inp,
                          "decl": inp, "out": [out]})
        else:
            steps.append({"label": f"t{i}", "script": None, "id": 1000 + i, "inp": inp, "decl": inp, "out": [out]})
        avail.append(out)

    def body(path, v):
        am = scripts[path][v]
        acts = [{"op": "print", "text": f"version {v}"}, {"op": "read", "paths": [path], "required": True}]
        if am:
            acts += [{"op": "amend", "inp": list(am)}, {"op": "read", "paths": list(am), "required": True}]
        if v in failing[path]:
            return acts + [{"op": "exit", "rc": 1}]
        return acts + [{"op": "auto"}]
    plan = [{"op": "static", "paths": sources + sorted(scripts)}]
    for s in steps:
        if s["script"]:
            plan.append({"op": "run", "label": s["label"], "inp": s["decl"], "out": s["out"]})
        else:
            plan.append({"op": "step", "label": s["label"], "inp": s["decl"], "out": s["out"]})
    cur_ver = {p: 0 for p in scripts}
    version = {p: 0 for p in sources}
    content_id = {}

    def cid(key):
        return content_id.setdefault(key, len(content_id) + 1)

    def text(p):
        return f"{p} version {version[p]}\n"
    project = e3.Project(sources={p: text(p) for p in sources},
                         program={"scripts": {"plan.py": plan, **{p: body(p, 0) for p in scripts}}, "commands": {}})
    present = set(sources)

    def world():
        src = [(pid[p], cid(text(p))) for p in sources if p in present]
        src += [(pid[p], cid(("script", p, cur_ver[p]))) for p in sorted(scripts)]
        return src, []
    history, worlds = [], [world()]
    for _ in range(rng.randint(1, 5)):
        edits = []
        for _ in range(rng.randint(1, 2)):
            kind = rng.choice(["change", "delete", "delete", "restore", "restore", "script", "script", "noop"])
            if kind == "change":
                p = rng.choice(sources)
                version[p] += 1
                present.add(p)
                edits.append({"op": "write", "path": p, "content": text(p)})
            elif kind == "delete" and len(present) > 1:
                p = rng.choice(sorted(present))
                present.discard(p)
                edits.append({"op": "delete", "path": p})
            elif kind == "restore":
                gone = sorted(set(sources) - present)
                if gone:
                    p = rng.choice(gone)
                    present.add(p)
                    edits.append({"op": "write", "path": p, "content": text(p)})
            elif kind == "script" and scripts:
                p = rng.choice(sorted(scripts))
                cur_ver[p] = rng.choice([v for v in scripts[p] if v != cur_ver[p]])
                edits.append({"op": "script", "path": p, "actions": body(p, cur_ver[p])})
        history.append({"edits": edits})
        worlds.append(world())
    tab = [(s["id"], cid(("script", s["script"], v)), [pid[a] for a in am])
           for s in steps if s["script"] for v, am in scripts[s["script"]].items()]
    ftab = [(s["id"], cid(("script", s["script"], v)))
            for s in steps if s["script"] for v in sorted(failing[s["script"]])]
    return project, history, steps, pid, worlds, tab, ftab


def _run_amend_history(project, history, flavour):
    """Restart flavour, or one watching director (falls back to restart when no inotify instance
    is available); every build with keep_going (without it the scheduler drains after the first
    failure and which independent steps still ran depends on the dispatch order)."""
    if flavour == "watch":
        try:
            return e3.run_history(project, history, mode="watch", timeout=40, keep_going=True), "watch"
        except (e3.E3Error, OSError):
            pass
    return e3.run_history(project, history, timeout=40, keep_going=True), "restart"


def correspondence_amend(ctx):
    n = ctx.scale(12, 100)
    checks, meta = [], []
    for i in range(n):
        rng = random.Random(f"c01-amend-{ctx.seed}-{ctx.tier}-{i}")
        project, history, steps, pid, worlds, tab, ftab = gen_amend_case(rng)
        results, flavour = _run_amend_history(project, history, "watch" if i % 4 == 3 else "restart")
        ctx.count("amend_flavour:" + flavour)
        labels = {s["label"]: s["id"] for s in steps}
        phases = []
        ran_any = deferred_any = kept_any = failed_any = repaired_any = False
        was_failed = set()
        for k, res in enumerate(results):
            ran = {c["label"] for c in res.commands if c["label"] in labels}
            skipped = {e[1] for e in res.events if e[0] == "SKIP" and e[1] in labels}
            nodes = res.nodes()
            states = {l: (nodes.get("step:" + l, {"props": {}})["props"].get("state") or ["?"])[0] for l in labels}
            ran_any |= bool(ran) and k > 0
            deferred_any |= any(states[l] == "PENDING" for l in ran)
            failed_now = {l for l in labels if states[l] == "FAILED"}
            failed_any |= bool(failed_now)
            repaired_any |= any(states[l] == "SUCCEEDED" for l in was_failed)
            was_failed = failed_now
            kept_any |= k > 0 and len(ran) < len(labels)
            log = [f"({labels[l]}, true)" for l in sorted(ran)] + [f"({labels[l]}, false)" for l in sorted(skipped - ran)]
            est = [f"({labels[l]}, {common.coq_bool(states[l] == 'SUCCEEDED')})" for l in sorted(labels)]
            efl = [f"({labels[l]}, {common.coq_bool(states[l] == 'FAILED')})" for l in sorted(labels)]
            src, env = worlds[k]
            prev = results[k - 1].files if k > 0 else {}
            outs = sorted(p for s in steps for p in s["out"])
            chg = [f"({pid[p]}, {common.coq_bool(res.files.get(p) != prev.get(p))})" for p in outs]
            phases.append(f"(({common.coq_list([f'({a}, {b})' for a, b in src])}, [], "
                          f"{common.coq_list(log)}, {common.coq_list(est)}, {common.coq_list(chg)}), "
                          f"{common.coq_list(efl)})")
            ctx.count("amend_builds")
            ctx.count("amend_deferred_runs", sum(1 for l in ran if states[l] == "PENDING"))
            ctx.count("amend_failed_runs", sum(1 for l in ran if states[l] == "FAILED"))
        proj = common.coq_list([
            f"mkStep {s['id']} {common.coq_list([str(pid[p]) for p in s['inp']])} [] "
            f"{common.coq_list([str(pid[p]) for p in s['out']])}" for s in steps])
        tabt = common.coq_list([f"({a}, {b}, {common.coq_list([str(x) for x in c])})" for a, b, c in tab])
        ftabt = common.coq_list([f"({a}, {b})" for a, b in ftab])
        term = f"let proj := {proj} in check_hist_a {tabt} {ftabt} proj empty_asys {common.coq_list(phases)}"
        checks.append(term)
        meta.append((project, history, term))
        ctx.case(("engine-amend", i, term), nontrivial=ran_any and kept_any)
        if deferred_any:
            ctx.count("amend_histories_with_deferral")
        if failed_any:
            ctx.count("amend_histories_with_failure")
        if repaired_any:
            ctx.count("amend_histories_with_repaired_failure")
    bad = common.run_cases(ctx, "amend", HEADER, checks, chunk=10)
    ctx.traces_validated += len(checks) - len(bad)
    for b in bad[:3]:
        project, history, term = meta[b]
        t2 = term.replace("check_hist_a", "trace_hist_a")
        got = common.eval_terms(ctx, "amenddiag", HEADER, [t2])
        ctx.add_failure("correspondence", "E3:Engine:amend", "E3:Engine:amended-inputs-executed-or-skipped-set",
                        "model/Engine.v (Section Amend, gating as in the code) and the real system disagree on "
                        "which steps ran (or ran and deferred / failed), were skipped, ended SUCCEEDED, ended "
                        f"FAILED or which outputs changed; model did (log, succeeded, failed, changes) per "
                        f"build: {(got[0] or '')[:1500]}",
                        witness={"case": co.case_json(project, history), "model_term": term})
