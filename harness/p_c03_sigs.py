"""Signature strings of C03 findings (shared by p_c03.py and c03_sys.py)."""
SIG_RERUN = "oracle:succeeded:input-changed-during-command:hash-re-recorded-by-producer-rerun"
SIG_RECONF = "oracle:succeeded:input-changed-during-command:hash-re-recorded-by-reconfirmation"
SIG_OTHER = "oracle:succeeded:input-changed-during-command:other"
