"""Signature strings of C03 findings (shared by p_c03.py and c03_sys.py)."""
SIG_RERUN = "oracle:succeeded:input-changed-during-command:hash-re-recorded-by-producer-rerun"
SIG_RECONF = "oracle:succeeded:input-changed-during-command:hash-re-recorded-by-reconfirmation"
SIG_OTHER = "oracle:succeeded:input-changed-during-command:other"
# Not a C03 violation (no success is recorded, no command runs): the dispatch loop of
# validate_dynamic_job's "digest unchanged" branch (C10: "every build phase terminates").  Observed
# and recorded on every run; reported as a failure only when VERIF_C03_REPORT_LOOP=1.
SIG_VALIDATE_LOOP = "oracle:validate:unchanged-branch-redispatched-forever"
