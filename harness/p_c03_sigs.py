"""Signature strings of C03 findings (shared by p_c03.py and c03_sys.py)."""
SIG_RERUN = "oracle:succeeded:input-changed-during-command:hash-re-recorded-by-producer-rerun"
SIG_RECONF = "oracle:succeeded:input-changed-during-command:hash-re-recorded-by-reconfirmation"
SIG_OTHER = "oracle:succeeded:input-changed-during-command:other"
# Finding D36 (fixed by /repo d760e3e; a dispatch loop, C10 termination, not a C03 violation): the
# "digest unchanged" branch of validate_dynamic_job left the step PENDING and not deferred, so the
# same VALIDATE_DYNAMIC job was handed out for ever.  Replayed as a regression on every run.
SIG_VALIDATE_LOOP = "oracle:validate:unchanged-branch-redispatched-forever"
# Finding D37 (open): the skip-path analogue of D19: the record of an input is replaced while
# try_skip_job is still checking, and the skip is recorded none the less.
SIG_SKIP_WINDOW = "oracle:skip:succeeded:input-re-recorded-during-check"
# Finding C03-amended-record (open): the analogue of D19 for AMENDED inputs: the record of an amended static
# input is replaced after the amend request (another step's pre-run check records the edited file, or
# the file is withdrawn / declared / confirmed anew) while the command still runs; SUCCEEDED none the less.
SIG_AMENDED_RECORD = "oracle:succeeded:amended-input-re-recorded-after-request"
