"""C12 helper: the real Builder.job_loop observed in-process (through harness/e3.py).

* `Recorder` / `instrumented()`: run-time wrappers (nothing in /repo or e3.py is edited) around
  Builder.start_task / start_hash_task / _task_done / run_promoted_hash_jobs, Scheduler.pop_next_job,
  DirectorHandler.amend_step and Executor.run_hash_job record the job-loop events of model/Limits.v
  (LHashStart, LPopBegin, LPopEnd, LTaskDone, LAmendBegin/End, LPromotedStart/Done) together with
  the bookkeeping the implementation shows after each of them (len(running_tasks), number of
  run_promoted_hash_jobs calls in progress).  The trace is replayed by the model inside Coq
  (`loop_trace_ok`), and checked directly: number of step tasks tracked at once vs njob.
* `gen_amend_project(rng)`: projects whose steps call amend(inp=...) on files that still need
  hashing (matches of a static tree nobody consumed yet), with hash jobs queued by others (static
  files, declared inputs below the tree), resources, hold blocks and sub-plans.
* `scenario_*`: directed scenarios for the mechanisms of the property's record (job_loop slot test
  vs promoted hash jobs; RESOURCE_UNAVAILABLE; hold/release; hash-check bypass).
* `check_build(...)`: the limits of C12 on the start/stop stamps of one real build; a command that
  is blocked in an RPC (amend() waiting for its hash jobs) still executes.
"""
from __future__ import annotations

import contextlib
import contextvars
import functools
import tempfile

# int fields of Builder that the translator classified as "number of run_promoted_hash_jobs calls in
# progress" (set by p_c12.generate); the recorder compares them with its own count
WAITING_ATTRS: list = []

_AMEND_JOB = contextvars.ContextVar("c12_amend_job", default=None)
_IN_PROMOTED = contextvars.ContextVar("c12_in_promoted", default=False)


class BuildHang(Exception):
    pass


@contextlib.contextmanager
def watchdog(seconds=180):
    """e3.build has its own asyncio timeout; this is the last resort against a build that blocks outside the
    event loop's control (seen once in about a hundred check runs, not reproduced): SIGALRM dumps all stacks to
    stderr and raises BuildHang in the main thread, which the check reports as a crash of the phase instead of
    hanging. No effect outside the main thread."""
    import faulthandler
    import signal
    import sys
    import threading
    if threading.current_thread() is not threading.main_thread():
        yield
        return

    def on_alarm(signum, frame):
        faulthandler.dump_traceback(file=sys.stderr, all_threads=True)
        raise BuildHang(f"an E3 build did not return within {seconds} s")
    old = signal.signal(signal.SIGALRM, on_alarm)
    signal.setitimer(signal.ITIMER_REAL, seconds)
    try:
        yield
    finally:
        signal.setitimer(signal.ITIMER_REAL, 0)
        signal.signal(signal.SIGALRM, old)


class Recorder:
    def __init__(self):
        self.events = []          # (kind, arg, nrunning_after, namending_after)
        self.amending = 0
        self.promoted = 0
        self.max_step_tasks = 0   # step tasks (not hash tasks) in running_tasks at once
        self.max_tracked = 0
        self.max_promoted = 0
        self.njob = None
        self.hash_ids = {}
        self.counter_mismatch = None   # (event index, attr, value, own count)
        self.windows = []              # (label, job_i, state when the command is launched, state when it returned)

    def builder(self):
        from . import e3
        ctx = e3._CTX
        return None if ctx is None or ctx.handler is None else ctx.handler.builder

    def rec(self, kind, arg=None):
        b = self.builder()
        nr = len(b.running_tasks) if b is not None else 0
        if b is not None:
            from stepup.core.hash_queue import HashJob
            self.njob = b.njob
            nstep = sum(1 for j in b.running_tasks.values() if not isinstance(j, HashJob))
            self.max_step_tasks = max(self.max_step_tasks, nstep)
            self.max_tracked = max(self.max_tracked, nr)
            if kind not in ("amendbegin", "amendend") and self.counter_mismatch is None:
                for attr in WAITING_ATTRS:
                    val = getattr(b, attr, None)
                    if val != self.amending:
                        self.counter_mismatch = (len(self.events), attr, val, self.amending)
        self.events.append((kind, arg, nr, self.amending))

    def hid(self, job_i):
        return self.hash_ids.setdefault(job_i, 1000 + len(self.hash_ids))


@contextlib.contextmanager
def instrumented():
    """Install the recording wrappers for the duration of one (or more) e3 builds."""
    from stepup.core import builder as _b, scheduler as _s, director as _d, executor as _x
    from stepup.core.hash_queue import HashJob
    r = Recorder()
    B, S, D, X = _b.Builder, _s.Scheduler, _d.DirectorHandler, _x.Executor
    orig = {"start_task": B.start_task, "start_hash_task": B.start_hash_task, "_task_done": B._task_done,
            "promoted": B.run_promoted_hash_jobs, "pop": S.pop_next_job, "amend": D.amend_step,
            "run_hash_job": X.run_hash_job, "run_command": X._run_command}

    async def state_of(executor, step):
        from . import e3
        async with e3._harness_txn(e3._CTX, executor.db):
            return step.get_state().name

    @functools.wraps(orig["run_command"])
    async def _run_command(self, run):
        st0 = await state_of(self, run.step)
        try:
            return await orig["run_command"](self, run)
        finally:
            st1 = await state_of(self, run.step)
            r.windows.append((run.step.label, run.job_i, st0, st1))

    @functools.wraps(orig["start_task"])
    def start_task(self, job):
        out = orig["start_task"](self, job)
        r.rec("start", job.job_i)
        return out

    @functools.wraps(orig["start_hash_task"])
    def start_hash_task(self, hash_job):
        out = orig["start_hash_task"](self, hash_job)
        r.rec("hash", r.hid(hash_job.job_i))
        return out

    @functools.wraps(orig["_task_done"])
    def _task_done(self, task):
        job = self.running_tasks.get(task)
        out = orig["_task_done"](self, task)
        if isinstance(job, HashJob):
            r.rec("done_hash", r.hid(job.job_i))
        elif job is not None:
            r.rec("done_job", job.job_i)
        return out

    @functools.wraps(orig["pop"])
    async def pop_next_job(self):
        r.rec("popbegin")
        job = None
        try:
            job = await orig["pop"](self)
            return job
        finally:
            # a returned job is started at once (no await in between): start_task's record is the LPopEnd
            r.rec("popend", None if job is None else job.job_i)

    @functools.wraps(orig["amend"])
    async def amend_step(self, job_i, *a, **kw):
        tok = _AMEND_JOB.set(job_i)
        try:
            return await orig["amend"](self, job_i, *a, **kw)
        finally:
            _AMEND_JOB.reset(tok)

    @functools.wraps(orig["promoted"])
    async def run_promoted_hash_jobs(self, paths_hashes, cause):
        job_i = _AMEND_JOB.get()
        r.amending += 1
        r.rec("amendbegin", job_i)
        tok = _IN_PROMOTED.set(True)
        try:
            return await orig["promoted"](self, paths_hashes, cause)
        finally:
            _IN_PROMOTED.reset(tok)
            r.amending -= 1
            r.rec("amendend", job_i)

    @functools.wraps(orig["run_hash_job"])
    async def run_hash_job(self, hash_job):
        promoted = _IN_PROMOTED.get()
        if promoted:
            r.promoted += 1
            r.max_promoted = max(r.max_promoted, r.promoted)
            r.rec("promstart")
        try:
            return await orig["run_hash_job"](self, hash_job)
        finally:
            if promoted:
                r.promoted -= 1
                r.rec("promdone")

    B.start_task, B.start_hash_task, B._task_done = start_task, start_hash_task, _task_done
    B.run_promoted_hash_jobs, S.pop_next_job, D.amend_step, X.run_hash_job = (
        run_promoted_hash_jobs, pop_next_job, amend_step, run_hash_job)
    X._run_command = _run_command
    try:
        yield r
    finally:
        B.start_task, B.start_hash_task, B._task_done = orig["start_task"], orig["start_hash_task"], orig["_task_done"]
        B.run_promoted_hash_jobs, S.pop_next_job, D.amend_step, X.run_hash_job = (
            orig["promoted"], orig["pop"], orig["amend"], orig["run_hash_job"])
        X._run_command = orig["run_command"]


def loop_items(events):
    """Recorder events -> [(Gallina lev, nrunning, namending)].

    pop_next_job returning a job is followed at once (no await in between) by start_task, whose
    record carries the bookkeeping after the start; a return of None is an LPopEnd None."""
    out = []
    for kind, arg, nr, na in events:
        if kind == "popbegin":
            out.append(("LPopBegin", nr, na))
        elif kind == "popend":
            if arg is None:
                out.append(("LPopEnd None", nr, na))
        elif kind == "start":
            out.append((f"LPopEnd (Some {arg})", nr, na))
        elif kind == "hash":
            out.append((f"LHashStart {arg}", nr, na))
        elif kind == "done_job":
            out.append((f"LTaskDone (TJob {arg})", nr, na))
        elif kind == "done_hash":
            out.append((f"LTaskDone (THash {arg})", nr, na))
        elif kind == "amendbegin":
            out.append((f"LAmendBegin {0 if arg is None else arg}", nr, na))
        elif kind == "amendend":
            out.append((f"LAmendEnd {0 if arg is None else arg}", nr, na))
        elif kind == "promstart":
            out.append(("LPromotedStart", nr, na))
        elif kind == "promdone":
            out.append(("LPromotedDone", nr, na))
    return out


def g_loop_case(njob, items):
    return (f"loop_trace_ok (loop_init {njob}) [" + "; ".join(f"({e}, {nr}, {na})" for e, nr, na in items) + "]")


def g_loop_mismatch(njob, items):
    return (f"loop_trace_mismatch (loop_init {njob}) [" + "; ".join(f"({e}, {nr}, {na})" for e, nr, na in items) + "] 0")


LOOP_HEADER = ("From Coq Require Import List NArith ZArith Bool.\nImport ListNotations.\n"
               "From SV Require Import gen.GenLimits model.Limits.\n")


# ---------------------------------------------------------------------------------------------
# Projects
# ---------------------------------------------------------------------------------------------

BIG = "x" * (1 << 20)


def gen_amend_project(rng):
    """plan.py declares the static tree data/ (its files stay UNCONFIRMED until somebody needs them),
    static files (hash jobs queued through the job loop), and steps of four kinds:
    amender (amend(inp=files below data/) -> blocks in the RPC while the promoted hash jobs run; may
    then open hold blocks and declare children), consumer (declared input below data/ or a static
    file: a queued hash job), worker, sub-plan (children inside nested hold blocks).  Resources on
    every kind.  Returns (Project, avail, declared_in)."""
    from . import e3
    nfiles = rng.randint(3, 6)
    sources = {"data/": ""}
    for i in range(nfiles):
        sources[f"data/f{i}.txt"] = f"file {i}\n" * rng.randint(1, 40)
    if rng.random() < 0.5:
        sources["data/big.bin"] = BIG[: rng.choice([1 << 18, 1 << 20])]
    nstat = rng.randint(0, 3)
    for i in range(nstat):
        sources[f"s{i}.txt"] = f"static {i}\n"
    tree_files = sorted(p for p in sources if p.startswith("data/") and not p.endswith("/"))
    avail = {"cpu": rng.choice([1, 2, 3]), "gpu": rng.choice([1, 2])}
    commands, declared_in = {}, {}
    counter = [0]

    def fresh(prefix):
        counter[0] += 1
        return f"{prefix}{counter[0]}"

    def res_for():
        r = rng.random()
        if r < 0.45:
            return {}
        if r < 0.95:
            return {rng.choice(["cpu", "gpu"]): rng.randint(1, 2)}
        return {"zzz": 1}

    def children(owner, depth, acts, nmax):
        open_holds = 0
        for _ in range(rng.randint(0, nmax)):
            r = rng.random()
            if r < 0.25 and open_holds < 2:
                acts.append({"op": "hold"})
                open_holds += 1
            elif r < 0.4 and open_holds > 0:
                acts.append({"op": "release"})
                open_holds -= 1
            else:
                acts.append(declare(owner, depth + 1))
        acts += [{"op": "release"}] * open_holds

    def declare(owner, depth):
        r = rng.random()
        if r < 0.38:
            lbl = fresh("a")                       # amender
            body = [{"op": "amend", "inp": rng.sample(tree_files, rng.randint(1, min(3, len(tree_files))))}]
            if rng.random() < 0.3:
                body.append({"op": "amend", "inp": rng.sample(tree_files, 1)})
            if depth < 2 and rng.random() < 0.4:
                children(lbl, depth, body, 2)
            commands[lbl] = body
            act = {"op": "step", "label": lbl, "resources": res_for()}
        elif r < 0.6:
            lbl = fresh("c")                       # consumer of a file that needs a queued hash job
            pool = tree_files + [f"s{i}.txt" for i in range(nstat)]
            commands[lbl] = [{"op": "auto"}]
            act = {"op": "step", "label": lbl, "inp": rng.sample(pool, rng.randint(1, 2)), "resources": res_for()}
        elif r < 0.8 or depth >= 2:
            lbl = fresh("w")
            commands[lbl] = []
            act = {"op": "step", "label": lbl, "resources": res_for()}
        else:
            lbl = fresh("p")                       # sub-plan: a planning step (need = PLAN)
            body = []
            children(lbl, depth, body, 3)
            commands[lbl] = body
            act = {"op": "step", "label": lbl, "resources": res_for(), "need": "PLAN"}
        declared_in[lbl] = owner
        return act

    plan = [{"op": "static", "paths": ["data/"]}]
    if nstat:
        plan.append({"op": "static", "paths": [f"s{i}.txt" for i in range(nstat)]})
    open_holds = 0
    for _ in range(rng.randint(3, 7)):
        r = rng.random()
        if r < 0.12 and open_holds < 1:
            plan.append({"op": "hold"})
            open_holds += 1
        elif r < 0.2 and open_holds:
            plan.append({"op": "release"})
            open_holds -= 1
        else:
            plan.append(declare("./plan.py", 0))
    plan += [{"op": "release"}] * open_holds
    prog = {"scripts": {"plan.py": plan}, "commands": commands}
    return e3.Project(sources=sources, program=prog), avail, declared_in


def scenario_amend_slot(njob=1, namend=1, big=True, with_static=False):
    """The directed scenario for 'promoted hash jobs run outside the budget but execute no command':
    `namend` steps amend a file below a static tree that nobody has hashed yet, `njob` more steps are
    ready to run.  While an amender is blocked in amend() its command has not ended: nothing may be
    started in its slot."""
    from . import e3
    sources = {"data/": "", "data/big.bin": BIG if big else "small\n"}
    for i in range(namend):
        sources[f"data/f{i}.txt"] = f"file {i}\n"
    plan = [{"op": "static", "paths": ["data/"]}]
    if with_static:
        sources["s0.txt"] = "s\n"
        plan.append({"op": "static", "paths": ["s0.txt"]})
    commands, declared_in = {}, {}
    for i in range(namend):
        lbl = f"a{i}"
        commands[lbl] = [{"op": "amend", "inp": ["data/big.bin" if i == 0 else f"data/f{i}.txt"]}]
        plan.append({"op": "step", "label": lbl})
        declared_in[lbl] = "./plan.py"
    for i in range(njob + 1):
        lbl = f"w{i}"
        commands[lbl] = []
        plan.append({"op": "step", "label": lbl})
        declared_in[lbl] = "./plan.py"
    prog = {"scripts": {"plan.py": plan}, "commands": commands}
    return e3.Project(sources=sources, program=prog), {}, declared_in


def scenario_resource_amend():
    """RESOURCE_UNAVAILABLE vs a command parked in amend(): A holds gpu:1 and amends; B needs gpu:1."""
    from . import e3
    sources = {"data/": "", "data/big.bin": BIG}
    plan = [{"op": "static", "paths": ["data/"]},
            {"op": "step", "label": "A", "resources": {"gpu": 1}},
            {"op": "step", "label": "B", "resources": {"gpu": 1}},
            {"op": "step", "label": "C", "resources": {"zzz": 1}}]
    commands = {"A": [{"op": "amend", "inp": ["data/big.bin"]}], "B": [], "C": []}
    return (e3.Project(sources=sources, program={"scripts": {"plan.py": plan}, "commands": commands}),
            {"gpu": 1}, {"A": "./plan.py", "B": "./plan.py", "C": "./plan.py"})


def scenario_hold_amend():
    """hold/release vs amend: P amends (outside the hold, api.amend refuses inputs inside one), opens a
    nested hold, declares C and D, releases once (still held), amends nothing, releases."""
    from . import e3
    sources = {"data/": "", "data/big.bin": BIG}
    plan = [{"op": "static", "paths": ["data/"]}, {"op": "step", "label": "P"}, {"op": "step", "label": "W"}]
    commands = {"P": [{"op": "amend", "inp": ["data/big.bin"]}, {"op": "hold"}, {"op": "hold"},
                      {"op": "step", "label": "C"}, {"op": "release"}, {"op": "step", "label": "D"},
                      {"op": "gate", "name": "P-mid"}, {"op": "release"}],
                "C": [], "D": [], "W": []}
    return (e3.Project(sources=sources, program={"scripts": {"plan.py": plan}, "commands": commands}),
            {}, {"P": "./plan.py", "W": "./plan.py", "C": "P", "D": "P"})


def scenario_hold_plan():
    """A planning step (api.plan: need = PLAN) without stored hash, declared inside a (nested) hold block of its
    creator: like any other step it must not start before the outermost hold is released (only a step WITH a stored
    hash may be looked at earlier, and then no command runs). Free job slots are available (njob = 3)."""
    from . import e3
    plan = [{"op": "step", "label": "P"}]
    commands = {"P": [{"op": "hold"}, {"op": "hold"},
                      {"op": "step", "label": "Q", "need": "PLAN"},
                      {"op": "release"},
                      {"op": "step", "label": "R", "need": "PLAN"},
                      {"op": "step", "label": "W"},
                      {"op": "gate", "name": "P-mid"}, {"op": "release"}],
                "Q": [{"op": "step", "label": "Q1"}], "R": [{"op": "step", "label": "R1"}],
                "W": [], "Q1": [], "R1": []}
    return (e3.Project(sources={}, program={"scripts": {"plan.py": plan}, "commands": commands}),
            {}, {"P": "./plan.py", "Q": "P", "R": "P", "W": "P", "Q1": "Q", "R1": "R"})


def scenario_over_release():
    """release below zero: P releases once more than it held (the refusal is caught by the script), then
    opens a hold block and declares C inside it. If the refused release had moved the counter to -1, the
    following hold would bring it to 0 and C would start before the release."""
    from . import e3
    plan = [{"op": "step", "label": "P"}, {"op": "step", "label": "W"}]
    commands = {"P": [{"op": "hold"}, {"op": "release"}, {"op": "release", "catch": True},
                      {"op": "hold"}, {"op": "step", "label": "C"}, {"op": "gate", "name": "P-mid"},
                      {"op": "release"}],
                "C": [], "W": []}
    return (e3.Project(sources={}, program={"scripts": {"plan.py": plan}, "commands": commands}),
            {}, {"P": "./plan.py", "W": "./plan.py", "C": "P"})


def run_build(proj, njob, avail, schedule, timeout=90):
    """One real build with the recording wrappers; returns (BuildResult, Recorder)."""
    from . import e3
    with tempfile.TemporaryDirectory(prefix="verif-c12-") as tmp:
        proj.materialise(tmp)
        with instrumented() as rec, watchdog():
            res = e3.build(tmp, proj.program, njob=njob,
                           resources=",".join(f"{k}:{v}" for k, v in avail.items()) or None,
                           schedule=schedule, timeout=timeout, keep_going=True)
    return res, rec


def blocked_in(cmd, t):
    """Name of the RPC that command record `cmd` completes first after stamp t (RPC records are
    stamped at completion), or None."""
    for name, _ok, stamp in cmd["rpc"]:
        if stamp > t:
            return name
    return None


def njob_circumstance(res, njob):
    """For an njob overrun on the stamps: what the other executing commands were doing when the
    supernumerary command started.  Returns (label of the starter, circumstance) or None."""
    inf = 10 ** 9
    for c in res.commands:
        t = c["start"]
        running = [o for o in res.commands if o["start"] <= t < (o["stop"] if o["stop"] is not None else inf)]
        if len(running) > njob:
            others = [o for o in running if o is not c]
            if any(blocked_in(o, t) == "amend_step" for o in others):
                return c["label"], "while-a-command-is-blocked-in-amend"
            return c["label"], "all-commands-active"
    return None


# ---------------------------------------------------------------------------------------------
# B4: the hash-check bypass (CHECKING jobs) against resources and holds, on a second build
# ---------------------------------------------------------------------------------------------


def scenario_checking(kind):
    """Two builds. The first one builds X and Y (each gpu:1 of 1; for kind 'hold' declared inside a hold
    block of the plan that is kept open until the gate 'mid'). Then both inputs change (and, for 'hold',
    the plan's own text, so that it executes again and opens the hold again). In the second build X and
    Y have a stored hash: they are dispatched for a hash check without looking at resources or holds
    (SELECT_NEXT_STEP: `_has_hash OR NOT EXISTS(RESOURCE_UNAVAILABLE)`, `_safe_ignoring_hold`), the
    check fails, and only then the full guard applies: their commands must still run one at a time
    (resource) / after the release (hold).
    Returns (Project, avail, declared_in, history)."""
    from . import e3
    sources = {"in1.txt": "1\n", "in2.txt": "2\n"}
    if kind == "dynamic":
        # X amends data/dyn.txt (a match of a static tree). Before the second build that file is deleted and X's
        # declared input changes: X has a stored hash and a MISSING dynamic input, so it gets a ValidateDynamicJob
        # (dispatched like a hash check, without looking at resources), the validation fails (inputs changed), the
        # dynamic information is dropped and X has to run again under the full guard: after the plan's release (the plan
        # runs again and holds), one at a time with Y.
        sources.update({"data/": "", "data/dyn.txt": "d\n"})

        def dplan(extra):
            return [{"op": "static", "paths": ["in1.txt", "in2.txt", "data/"]}, {"op": "hold"},
                    {"op": "step", "label": "X", "inp": ["in1.txt"], "out": ["x.txt"], "resources": {"gpu": 1}},
                    {"op": "step", "label": "Y", "inp": ["in2.txt"], "out": ["y.txt"], "resources": {"gpu": 1}},
                    {"op": "gate", "name": "mid"}, {"op": "release"}] + extra
        prog = {"scripts": {"plan.py": dplan([])},
                "commands": {"X": [{"op": "if_exists", "path": "data/dyn.txt",
                                    "then": [{"op": "amend", "inp": ["data/dyn.txt"]}]}, {"op": "auto"}],
                             "Y": [{"op": "auto"}]}}
        edits = [{"op": "write", "path": "in1.txt", "content": "1 changed\n"},
                 {"op": "write", "path": "in2.txt", "content": "2 changed\n"},
                 {"op": "delete", "path": "data/dyn.txt"},
                 {"op": "script", "path": "plan.py", "actions": dplan([{"op": "print", "text": "again"}])}]
        return (e3.Project(sources=sources, program=prog), {"gpu": 1},
                {"X": "./plan.py", "Y": "./plan.py"}, [{"edits": edits}])

    def plan(extra):
        acts = [{"op": "static", "paths": ["in1.txt", "in2.txt"]}]
        if kind == "hold":
            acts.append({"op": "hold"})
        acts += [{"op": "step", "label": "X", "inp": ["in1.txt"], "out": ["x.txt"], "resources": {"gpu": 1}},
                 {"op": "step", "label": "Y", "inp": ["in2.txt"], "out": ["y.txt"], "resources": {"gpu": 1}}]
        if kind == "hold":
            acts += [{"op": "gate", "name": "mid"}, {"op": "release"}]
        return acts + extra
    prog = {"scripts": {"plan.py": plan([])}, "commands": {"X": [{"op": "auto"}], "Y": [{"op": "auto"}]}}
    edits = [{"op": "write", "path": "in1.txt", "content": "1 changed\n"},
             {"op": "write", "path": "in2.txt", "content": "2 changed\n"}]
    if kind == "hold":
        edits.append({"op": "script", "path": "plan.py", "actions": plan([{"op": "print", "text": "again"}])})
    return (e3.Project(sources=sources, program=prog), {"gpu": 1},
            {"X": "./plan.py", "Y": "./plan.py"}, [{"edits": edits}])


def gen_checking_history(rng):
    """Random variant of scenario_checking: 3-6 steps with one static input each, resources from a small
    pool, some declared inside a hold block of the plan (kept open until a gate); second build after a
    random subset of the inputs (and possibly the plan) changed."""
    from . import e3
    n = rng.randint(3, 6)
    avail = {"cpu": rng.choice([1, 2]), "gpu": 1}
    sources = {f"in{i}.txt": f"{i}\n" for i in range(n)}
    hold_from = rng.choice([None, None, 0, 1, 2])
    steps = []
    for i in range(n):
        r = rng.random()
        res = {} if r < 0.25 else {rng.choice(["cpu", "gpu"]): 1}
        steps.append({"op": "step", "label": f"S{i}", "inp": [f"in{i}.txt"], "out": [f"o{i}.txt"], "resources": res})

    def plan(extra):
        acts = [{"op": "static", "paths": sorted(sources)}]
        for i, st in enumerate(steps):
            if hold_from is not None and i == hold_from:
                acts.append({"op": "hold"})
            acts.append(st)
        if hold_from is not None and hold_from < n:
            acts += [{"op": "gate", "name": "mid"}, {"op": "release"}]
        return acts + extra
    prog = {"scripts": {"plan.py": plan([])}, "commands": {f"S{i}": [{"op": "auto"}] for i in range(n)}}
    changed = [i for i in range(n) if rng.random() < 0.7] or [0]
    edits = [{"op": "write", "path": f"in{i}.txt", "content": f"{i} changed\n"} for i in changed]
    if hold_from is not None and rng.random() < 0.8:
        edits.append({"op": "script", "path": "plan.py", "actions": plan([{"op": "print", "text": "again"}])})
    return (e3.Project(sources=sources, program=prog), avail,
            {f"S{i}": "./plan.py" for i in range(n)}, [{"edits": edits}])


def run_checking(proj, avail, history, njob, schedule, timeout=90):
    """Both builds on the real serve() (restart mode); returns [BuildResult, BuildResult] and the final
    program (for the annotation of define_step calls)."""
    from . import e3
    with watchdog(300):
        results = e3.run_history(proj, history, mode="restart", njob=njob,
                                 resources=",".join(f"{k}:{v}" for k, v in avail.items()) or None,
                                 schedule=schedule, timeout=timeout, keep_going=True)
    return results, e3.final_project(proj, history).program
