"""C14 full-system cases on E3: the real serve() with do_watch=True (WatchSession) versus a restart.

For every phase of a history: the edits are made on the real file system while the real director is
watching; `sync()` (barrier file through the one inotify queue) makes sure the watcher has handled
every event; the whole project directory INCLUDING .stepup/graph.db is copied; the watching director
gets `start_build_phase` + `wait_for_idle` (what `stepup rebuild; stepup wait` do).  After the
session a fresh director (`e3.build`, i.e. a complete `stepup build`) runs on each copy.  Compared
per phase with `e3.diff_results`: return-code class, every file outside .stepup, the directory set,
the canonical graph text (`Workflow.format_str()` per node, digests included).
"""
from __future__ import annotations

import copy
import errno
import os
import tempfile

from . import e3

FIELDS = ("rc", "files", "dirs", "graph")


def _plan(*actions):
    return {"scripts": {"plan.py": list(actions)}, "commands": {}}


def _base_project():
    return e3.Project(
        sources={"a.txt": "A", "d1/s1.txt": "S", "d1/x.dat": "x", "d1/y.dat": "y",
                 "data/old/": "", "data/old/f.txt": "f"},
        program=_plan(
            {"op": "static", "paths": ["a.txt", "d1/s1.txt"], "missing_ok": True},
            {"op": "glob", "pattern": "d1/*.dat", "static": True,
             "foreach": [{"op": "step", "label": "conv {m}", "inp": ["{m}"], "out": ["{stem}.out"]}]},
            {"op": "static", "paths": ["data/*/"]},
            {"op": "step", "label": "mk o1", "inp": ["a.txt"], "out": ["o1.txt"]},
            {"op": "step", "label": "mk o2", "inp": ["o1.txt", "d1/s1.txt"], "out": ["o2.txt"]},
        ))


def _wild_project():
    return e3.Project(
        sources={"a.txt": "A", "d1/x.dat": "x"},
        program=_plan(
            {"op": "static", "paths": ["a.txt"]},
            {"op": "glob", "pattern": "*/x.dat", "static": True,
             "foreach": [{"op": "step", "label": "conv {m}", "inp": ["{m}"], "out": ["{dir}.out"]}]},
        ))


def _undeclared_project():
    return e3.Project(
        sources={"a.txt": "A"},
        program=_plan(
            {"op": "glob", "pattern": "*.txt", "static": True},
            {"op": "step", "label": "use nothere", "inp": ["a.txt", "nothere.txt"], "out": ["o.out"]},
        ))


def _vanish_project():
    """A step removes a declared static file that is a recorded glob match while the build runs (a
    file-system deletion during the build phase); the consumer of that file then finds its input gone."""
    return e3.Project(
        sources={"data/a.txt": "aaa", "data/b.txt": "bbb"},
        program={"scripts": {"plan.py": [
            {"op": "step", "label": "slow", "inp": [], "out": ["slow.txt"]},
            {"op": "glob", "pattern": "data/*.txt", "static": True,
             "foreach": [{"op": "step", "label": "cat {m}", "inp": ["{m}", "slow.txt"], "out": ["{stem}.out"]}]},
        ]}, "commands": {"slow": [{"op": "remove", "path": "data/a.txt"}, {"op": "auto"}]}})


def W(path, content):
    return {"op": "write", "path": path, "content": content}


def X(path):
    return {"op": "delete", "path": path}


NAMED = {
    # name: (project factory, [phase = list of edits])
    "delete-then-recreate": (_base_project, [[X("a.txt"), W("a.txt", "A")]]),
    "delete-then-recreate-other-content": (_base_project, [[X("a.txt"), W("a.txt", "A2")]]),
    "changed-then-restored": (_base_project, [[W("a.txt", "B"), W("a.txt", "A")]]),
    "changed": (_base_project, [[W("a.txt", "B")], [W("d1/s1.txt", "S2")]]),
    "directory-removed-with-matched-files": (_base_project, [[X("d1")], [W("d1/s1.txt", "S"), W("d1/x.dat", "x")]]),
    "moved-directory": (_base_project, [[{"op": "move", "src": "d1", "dst": "d9"}]]),
    "moved-directory-and-back": (_base_project, [[{"op": "move", "src": "d1", "dst": "d9"},
                                                  {"op": "move", "src": "d9", "dst": "d1"}]]),
    "new-matching-directory": (_base_project, [[{"op": "mkdir", "path": "data/new"}]]),
    "matching-directory-removed": (_base_project, [[X("data/old")]]),
    "matching-directory-renamed": (_base_project, [[{"op": "move", "src": "data/old", "dst": "data/old2"}]]),
    "new-glob-match": (_base_project, [[W("d1/z.dat", "z")], [X("d1/x.dat")]]),
    "output-deleted": (_base_project, [[X("o1.txt")]]),
    "output-tampered": (_base_project, [[W("o2.txt", "tampered")]]),
    "STALE-new-match-then-directory-moved": (_base_project, [[W("d1/z.dat", "z"), {"op": "move", "src": "d1", "dst": "d9"}]]),
    # events while the build runs / unchanged re-hashes of deleted paths
    "static-match-removed-by-step-during-build": (_vanish_project, [[]]),
    "static-match-removed-by-step-then-recreated": (_vanish_project, [[W("data/a.txt", "aaa")]]),
    "glob-match-delete-then-recreate-same": (_base_project, [[X("d1/x.dat"), W("d1/x.dat", "x")]]),
    "glob-match-moved-away-and-back": (_base_project, [[{"op": "move", "src": "d1/x.dat", "dst": "d1/x.bak"},
                                                        {"op": "move", "src": "d1/x.bak", "dst": "d1/x.dat"}]]),
    "D10d-file-in-new-directory": (_wild_project, [[W("d5/x.dat", "x")]]),
    "D15-undeclared-input-appears": (_undeclared_project, [[W("nothere.txt", "N")]]),
}


class Skip(Exception):
    pass


BUDGET = [60.0]     # seconds this process may spend waiting for a free inotify instance


def _wait_for_inotify_instance():
    """inotify instances are a per-user resource shared with everything else on the box.  Probe before
    opening a watching director (inside serve() an EMFILE only shows up as a dead watcher); back off a
    little, then skip the case (counted in the evidence) instead of failing."""
    import time

    from asyncinotify import Inotify
    while True:
        try:
            Inotify().close()
            return
        except OSError as e:
            if e.errno not in (errno.EMFILE, errno.ENFILE, errno.ENOSPC, errno.ENOMEM):
                raise
            if BUDGET[0] <= 0:
                raise Skip(str(e)) from e
            BUDGET[0] -= 0.5
            time.sleep(0.5)


def _dead_by_emfile(ws) -> bool:
    """Did serve() of this session end because no inotify instance was available?"""
    task = getattr(ws, "_serve_task", None)
    if task is None or not task.done() or task.cancelled():
        return False
    exc = task.exception()
    return isinstance(exc, OSError) and exc.errno in (errno.EMFILE, errno.ENFILE, errno.ENOSPC, errno.ENOMEM)


def run_case(project: e3.Project, phases: list, **kw) -> list:
    """Returns one dict per phase: {"edits", "observed", "diff", "watch_rc", "restart_rc", ...}."""
    project = project.clone()
    out = []
    with tempfile.TemporaryDirectory(prefix="c14sys-") as tmp:
        root = os.path.join(tmp, "w")
        os.mkdir(root)
        project.materialise(root)
        snaps = []
        ws = None
        _wait_for_inotify_instance()
        try:
            with e3.WatchSession(root, project.program, env=dict(project.env), timeout=30, **kw) as ws:
                ws.first()
                # the watcher creates its inotify instance while the first build phase runs; when that
                # fails serve() winds down right after the phase (probe-then-open race with other users)
                ws._run(__import__("asyncio").sleep(0), "yield")
                if _dead_by_emfile(ws):
                    raise Skip("no inotify instance for the watcher")
                for i, edits in enumerate(phases):
                    for edit in edits:
                        e3.apply_edit(project, root, edit)
                    ws.program = project.program
                    ws.sync()
                    observed = ws.observed()
                    snap = os.path.join(tmp, f"r{i}")
                    ws.snapshot_to(snap)
                    rec = {"edits": edits, "observed": observed, "snap": snap,
                           "program": copy.deepcopy(project.program), "env": dict(project.env)}
                    snaps.append(rec)
                    try:
                        rec["watch"] = ws.rebuild()
                    except Exception as e:  # noqa: BLE001  (the director died in the watch phase)
                        if _dead_by_emfile(ws):
                            raise Skip("no inotify instance for the watcher") from e
                        rec["watch_error"] = f"{type(e).__name__}: {e}"
                        break
        except Skip:
            raise
        except OSError as e:
            if e.errno in (errno.EMFILE, errno.ENFILE, errno.ENOSPC):
                raise Skip(str(e)) from e
            raise
        except Exception as e:  # noqa: BLE001
            if (ws is not None and _dead_by_emfile(ws)) or "Too many open files" in repr(e) or "Too many open files" in repr(getattr(e, "__context__", "")):
                raise Skip(repr(e)) from e
            if snaps and "watch" not in snaps[-1] and "watch_error" not in snaps[-1]:
                snaps[-1]["watch_error"] = f"{type(e).__name__}: {e}"
            elif snaps and "watch_error" in snaps[-1]:
                pass
            else:
                raise
        for rec in snaps:
            restart = e3.build(rec["snap"], rec["program"], env=rec["env"], **kw)
            res = {"edits": rec["edits"], "observed": rec["observed"], "restart_rc": restart.returncode,
                   "restart_error": restart.error, "watch_error": rec.get("watch_error")}
            if "watch" in rec:
                res["watch_rc"] = rec["watch"].returncode
                res["diff"] = e3.diff_results(rec["watch"], restart, digests=True, fields=FIELDS)
                res["watch_executed"] = [c["label"] for c in rec["watch"].commands]
                res["restart_executed"] = [c["label"] for c in restart.commands]
            else:
                res["diff"] = [{"field": "error", "key": "", "a": rec.get("watch_error"), "b": restart.error}]
            out.append(res)
    return out


def diff_signature(diff):
    """Fields that differ + the first graph difference in words (kind of node, states / presence)."""
    fields = "+".join(sorted({d["field"] for d in diff}))
    for d in diff:
        if d["field"] != "graph":
            continue
        kind = str(d["key"]).split(":")[0]
        a, b = d.get("a"), d.get("b")
        if a is None or b is None:
            return f"{fields}:{kind}-only-in-{'restart' if a is None else 'watch'}"
        sa = (a.get("props", {}).get("state") or ["?"])[0]
        sb = (b.get("props", {}).get("state") or ["?"])[0]
        if sa != sb:
            return f"{fields}:{kind}-{sa}-vs-{sb}"
        return f"{fields}:{kind}-differs"
    return fields


def short_diff(diff, limit=4):
    out = []
    for d in diff[:limit]:
        a, b = repr(d.get("a")), repr(d.get("b"))
        out.append({"field": d["field"], "key": d["key"], "watch": a[:300], "restart": b[:300]})
    return out
