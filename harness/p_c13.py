"""C13: Change detection by hashes is sound."""
from __future__ import annotations

import hashlib
import json
import os
import re
import struct
import subprocess
import tempfile

from . import common
from .common import COQ, coq_str

PID = "C13"
PROPS_FILE = "props/C13.v"
MODEL_TARGETS = ["model/Hash.vo", "model/HashSites.vo", "model/HashSkip.vo", "model/HashJson.vo"]
RULE = ("E1: random step configurations (label, shell flag, input map, environment map with undefined "
        "variables, overrides, output map; names over an alphabet with non-ASCII, control and marker-like "
        "characters and the section keywords themselves; digests random, with embedded marker bytes, or "
        "unknown; modes and sizes up to 2^64-1; empty maps) are hashed by StepHash.from_inp / with_out_hashes "
        "(explained and compact, two supply orders) and the model pre-image computed inside Coq is hashed "
        "with SHA-256 by the harness: the digests must be equal. FileHash.refreshed is run on real files in "
        "a temporary directory after touch / chmod / rewrite / inode replacement / removal and compared "
        "field by field with the model. Oracle: pairs of configurations that differ in exactly one "
        "ingredient must have different digests, permuted supply order must not change a digest, two "
        "ambiguity generators splice marker sequences into digests / move the override boundary, JSON "
        "round trips. A case is non-trivial when it has at least one input, environment variable or "
        "override (digests), or when the file exists (refreshed); distinct by the full configuration. "
        "E2 (call sites): system-level configurations (command, workdir, shell flag, real input and output files "
        "with content and mode, tracked variable names, os.environ and infra_env entries with the values '', "
        "'None', ' ', names equal to the section keywords, overrides incl. empty values) are set up for real "
        "(files on disk, Workflow.define_step on a real Workflow, Scheduler._derive_job, os.environ patched) and "
        "both call sites Executor._compute_inp_step_hash / _compute_full_step_hash run; the bytes they feed to "
        "SHA-256 are compared inside Coq with inp_preimage (site_inp_cfg s) / (site_full_cfg s). Oracle on that "
        "path: pairs differing in exactly one system-level ingredient (26 kinds, among them defined-but-empty "
        "versus undefined, 'None' versus undefined, infra_env versus os.environ, tracked versus override) must "
        "differ in the digest; 4 kinds of irrelevant change must not. "
        "E3 (guard): the real compute_inp_hashes over one or two recorded paths on real files after 15 kinds of "
        "manipulation (both supply orders) against the model: same outcome (quiet / messages / ConsistencyError) and "
        "the same all_hashes. E4 (stored hashes): json_converter.unstructure of random FileHash / StepHash values "
        "(unknown, compact, explained, with and without outputs, inode up to 2^64-1, float mtimes) is the model's tree, "
        "the tree survives json.dumps/json.loads, and the model structures it back to what from_json returned. "
        "E5 (skip decision): the real Executor.try_skip_job on a recorded hash that is the current one or differs from it "
        "in a chosen place (13 kinds) against the generated tests; implementation-only: skipped iff both digests equal. "
        "Concurrency oracle: 6 ThreadWorker hash jobs on multi-chunk files must each return sha256 of their own file. "
        "Oracle additions: a missing / vanished / changed input never passes compute_inp_hashes quietly; os.stat, "
        "FileHash.refreshed and os.environ refuse strings with NUL.")
TRUSTED_BASE = [
    "Coq 8.16.1 kernel (vm_compute used in Examples, refutation witnesses and the correspondence evaluation)",
    "Print Assumptions: Closed under the global context for every C13 theorem (no axioms)",
    "translator/gen_hash.py (AST shapes of HashWords.update, _update_file_hashes, from_inp, with_out_hashes, "
    "FileHash.unknown/is_unknown/refreshed); the decoder and refreshed in model/Hash.v are hand-written",
    "translator/gen_hash_sites.py (AST shapes of the four call sites in executor.py, Executor.base_env, "
    "Step.adjust_label / command_and_workdir / uses_shell / get_env_overrides, compute_*_hashes, the job plumbing)",
    "translator/gen_hash_skip.py (if-tree of compute_inp_hashes per path, statement sequence and the two digest tests of "
    "Executor.try_skip_job, validate_dynamic_job, where the recorded hash comes from); the composition in model/HashSkip.v "
    "(compute_inp_hashes over sorted paths, observed_inps, full_step_hash, try_skip) is hand-written",
    "translator/gen_hash_json.py (attrs fields of FileHash/InpInfo/OutInfo/StepHash, to_json/from_json, cattrs.py; measured: "
    "the installed cattrs converter maps bytes to base64.b85encode, base64._b85alphabet); lib/Base85.v and the converter "
    "combinators of model/HashJsonTypes.v are hand-written (tied by E4)",
    "correspondence harness harness/p_c13.py, harness/c13_exec.py (Gallina literal printer, hashlib.sha256 as "
    "SHA-256, os.stat, os.environ patching)",
    "no extraction is used: the model is evaluated inside Coq by vm_compute",
]
ASSUMPTIONS = [
    "SHA-256 is collision-free on the pre-images compared (the theorems are about pre-images)",
    "UTF-8 preserves code point order (Python sorts str keys by code point, the model sorts UTF-8 bytes); "
    "exercised by E1 with non-ASCII names",
    "labels, paths, environment variable names and values contain no NUL; dict keys are unique; "
    "mode and size are below 2^64 (to_bytes(8) raises otherwise); digests are 32 bytes or b'u'",
    "a tracked variable is never also an override of the same step (Workflow.define_step refuses it), so the "
    "value the command sees for it is the one in Executor.base_env",
    "json.loads(json.dumps(d)) == d for the str->str dict of overrides stored in step.env_overrides (exercised by E2)",
    "os.stat never reports a NaN mtime; mtime is compared as a float, as the code does",
    "json.loads(json.dumps(tree)) == tree for the trees to_json writes, floats included (text layer not modelled; "
    "exercised by E4 and the JSON oracle on every run)",
    "SHA-256 has no collision on the two pairs of pre-images a skip decision compares (hypothesis no_collision of the "
    "end-to-end theorems)",
]

SIG_D2 = "oracle:collision:unknown-digest-is-one-byte-bytes-word"
SIG_D2B = "oracle:collision:env-var-named-like-override-section-keyword"

ALPHA = ["a", "b", "A", "é", "ß", "￿", "\U00010000", "/", ".", " ", "_", "=", "#", "u", "\x01", "\x02",
         "\x7f", "0"]
KEYWORDS = ["__shell__", "__inp_paths__", "__env_vars__", "__env_overrides__"]


def generate(ctx):
    from translator import gen_hash
    ctx.facts = None
    text, facts = gen_hash.generate()
    ctx.write_gen("GenHash.v", text)
    ctx.facts = facts
    ctx.stats["translated"] = {k: facts[k] for k in ("markers", "unknown_digest", "widths", "keywords",
                                                      "skip_pairs", "files_sorted", "digest_word")}
    # the call sites in executor.py (after GenHash.v, so that E1 still runs when this one fails closed)
    from translator import gen_hash_sites
    ctx.site_facts = None
    text, sfacts = gen_hash_sites.generate()
    ctx.write_gen("GenHashSites.v", text)
    ctx.site_facts = sfacts
    ctx.stats["translated_sites"] = sfacts
    # the skip decision (compute_inp_hashes per path, try_skip_job) and the stored form of the hashes
    from translator import gen_hash_json, gen_hash_skip
    ctx.skip_facts = ctx.json_facts = None
    text, kfacts = gen_hash_skip.generate()
    ctx.write_gen("GenHashSkip.v", text)
    ctx.skip_facts = kfacts
    ctx.stats["translated_skip"] = kfacts
    text, jfacts = gen_hash_json.generate()
    ctx.write_gen("GenHashJson.v", text)
    ctx.json_facts = jfacts
    ctx.stats["translated_json"] = jfacts


# ---------------------------------------------------------------------------------------------
# generators
# ---------------------------------------------------------------------------------------------


def _name(rng, lo=0, hi=5):
    r = rng.random()
    if r < 0.12:
        return rng.choice(KEYWORDS)
    return "".join(rng.choice(ALPHA) for _ in range(rng.randint(lo, hi)))


def _digest(rng, allow_unknown=True):
    r = rng.random()
    if allow_unknown and r < 0.15:
        return b"u"
    if r < 0.35:
        d = bytearray(rng.randbytes(32))
        for _ in range(rng.randint(1, 3)):
            frag = rng.choice([b"\0\0", b"\0\1", b"\0\2", b"u\0\1", b"\0\1a\0\0", b"\0", b"u"])
            pos = rng.randint(0, 32 - len(frag))
            d[pos:pos + len(frag)] = frag
        return bytes(d)
    if r < 0.42:
        return b"u\0\1" + rng.randbytes(29)
    return rng.randbytes(32)


def _int64(rng):
    return rng.choice([0, 1, 5, 0o100644, 0o100755, 0o120777, 255, 256, 2 ** 40, 2 ** 63, 2 ** 64 - 1,
                       rng.getrandbits(64), rng.getrandbits(16)])


def _filemap(rng, allow_unknown=True, maxn=4):
    m = {}
    for _ in range(rng.choice([0, 1, 1, 2, 2, 3, maxn])):
        d = _digest(rng, allow_unknown)
        if d == b"u" and rng.random() < 0.7:
            m[_name(rng, 1, 6)] = (d, 0, 0)
        else:
            m[_name(rng, 1, 6)] = (d, _int64(rng), _int64(rng))
    return m


def _config(rng):
    envs = {}
    for _ in range(rng.choice([0, 0, 1, 2, 3])):
        envs[_name(rng, 1, 5)] = rng.choice([None, "", _name(rng), _name(rng)])
    ovrs = {}
    for _ in range(rng.choice([0, 0, 1, 2])):
        ovrs[_name(rng, 1, 5)] = _name(rng)
    return {"label": _name(rng, 0, 8), "shell": rng.random() < 0.5, "inps": _filemap(rng),
            "envs": envs, "ovrs": ovrs, "outs": _filemap(rng)}


def _shuffled(rng, d):
    items = list(d.items())
    if len(items) > 1:
        first = items[:]
        for _ in range(5):
            rng.shuffle(items)
            if items != first:
                break
        else:
            items.reverse()
    return dict(items)


def _reorder(rng, c):
    return {"label": c["label"], "shell": c["shell"], "inps": _shuffled(rng, c["inps"]),
            "envs": _shuffled(rng, c["envs"]), "ovrs": _shuffled(rng, c["ovrs"]), "outs": _shuffled(rng, c["outs"])}


def _fh(t):
    from stepup.core.hash import FileHash
    return FileHash(t[0], t[1], 0.0, t[2], 0)


def impl_digests(c, explained):
    """(inp_digest, out_digest) of the real implementation."""
    from stepup.core.hash import StepHash
    sh = StepHash.from_inp(c["label"], {k: _fh(v) for k, v in c["inps"].items()}, dict(c["envs"]),
                           explained=explained, shell=c["shell"],
                           env_overrides=dict(c["ovrs"]) if (c["ovrs"] or explained) else None)
    sh2 = sh.with_out_hashes({k: _fh(v) for k, v in c["outs"].items()})
    return sh.inp_digest, sh2.out_digest


# ---------------------------------------------------------------------------------------------
# Gallina literals
# ---------------------------------------------------------------------------------------------


def q_str(s):
    return coq_str(s.encode() if isinstance(s, str) else s)


def q_fsig(t):
    return f"(mk_fsig {q_str(t[0])} {t[1]} {t[2]})"


def q_filemap(m):
    return "[" + "; ".join(f"({q_str(k)}, {q_fsig(v)})" for k, v in m.items()) + "]"


def q_cfg(c):
    envs = "[" + "; ".join(f"({q_str(k)}, {'None' if v is None else '(Some ' + q_str(v) + ')'})"
                           for k, v in c["envs"].items()) + "]"
    ovrs = "[" + "; ".join(f"({q_str(k)}, {q_str(v)})" for k, v in c["ovrs"].items()) + "]"
    return (f"(mk_cfg {q_str(c['label'])} {'true' if c['shell'] else 'false'} {q_filemap(c['inps'])} "
            f"{envs} {ovrs})")


HEADER = ("From Coq Require Import List NArith Bool.\nImport ListNotations.\n"
          "From SV Require Import lib.Bytes lib.KeySort model.HashTypes gen.GenHash model.Hash.\n"
          "Open Scope N_scope.\n"
          "Definition pack (s : str) : N := fold_left (fun a b => a * 256 + b) s 1.\n"
          "Definition fh_all_eqb (a b : fhash) : bool := str_eqb (fh_digest a) (fh_digest b) && "
          "(fh_mode a =? fh_mode b) && (fh_mtime a =? fh_mtime b) && (fh_size a =? fh_size b) && "
          "(fh_inode a =? fh_inode b).\n")


def coq_preimages(ctx, name, terms, chunk=150, timeout=600, header=None):
    """Evaluate Gallina terms of type str inside Coq (vm_compute) and return them as bytes."""
    (COQ / "cases").mkdir(exist_ok=True)
    procs, out = [], []
    for ci in range(0, len(terms), chunk):
        part = terms[ci:ci + chunk]
        rel = f"cases/{ctx.pid}_{name}_{ci // chunk}.v"
        body = [header or HEADER, "Definition outs : list N := ["]
        body.append(";\n".join(f"  pack ({t})" for t in part))
        body.append("].")
        body.append("Definition result := Eval vm_compute in outs.")
        body.append("Set Printing Width 1000000. Set Printing Depth 1000000.")
        body.append('Goal True. let r := eval cbv delta [result] in result in idtac "@@RESULT" r "@@END". exact I. Qed.')
        (COQ / rel).write_text("\n".join(body) + "\n")
        procs.append((rel, len(part), subprocess.Popen(
            ["timeout", str(timeout), "coqc", "-Q", ".", "SV", rel],
            cwd=COQ, stdout=subprocess.PIPE, stderr=subprocess.STDOUT, text=True)))
        if len(procs) % 8 == 0:
            for _, _, p in procs[-8:]:
                p.wait()
    for rel, n, p in procs:
        txt = p.communicate()[0]
        if p.returncode != 0:
            raise RuntimeError(f"coqc {rel} failed: {common.tail(txt, 1500)}")
        m = re.search(r"@@RESULT(.*?)@@END", txt, re.S)
        if not m:
            raise RuntimeError(f"no result from {rel}: {common.tail(txt, 800)}")
        nums = [int(x) for x in re.findall(r"\d+", m.group(1))]
        if len(nums) != n:
            raise RuntimeError(f"{rel}: expected {n} values, got {len(nums)}")
        for v in nums:
            b = v.to_bytes((v.bit_length() + 7) // 8, "big")
            out.append(b[1:])
        for ext in (".v", ".vo", ".glob", ".vok", ".vos"):
            q = COQ / (rel[:-2] + ext)
            if q.exists():
                q.unlink()
        aux = COQ / "cases" / ("." + os.path.basename(rel)[:-2] + ".aux")
        if aux.exists():
            aux.unlink()
    return out


def _jsonable(c):
    def fm(m):
        return [[k, v[0].hex(), v[1], v[2]] for k, v in m.items()]
    return {"label": c["label"], "shell": c["shell"], "inps": fm(c["inps"]),
            "envs": [[k, v] for k, v in c["envs"].items()], "ovrs": [[k, v] for k, v in c["ovrs"].items()],
            "outs": fm(c["outs"])}


def _from_jsonable(o):
    def fm(l):
        return {k: (bytes.fromhex(d), m, s) for k, d, m, s in l}
    return {"label": o["label"], "shell": o["shell"], "inps": fm(o["inps"]),
            "envs": {k: v for k, v in o["envs"]}, "ovrs": {k: v for k, v in o["ovrs"]}, "outs": fm(o["outs"])}


# ---------------------------------------------------------------------------------------------
# E1 correspondence
# ---------------------------------------------------------------------------------------------


CLOSURE = ["lib/Bytes.v", "lib/KeySort.v", "model/HashTypes.v", "gen/GenHash.v", "model/Hash.v",
           "proofs/HashProofs.v", "model/HashSiteTypes.v", "gen/GenHashSites.v", "model/HashSites.v",
           "proofs/HashSitesProofs.v", "lib/Base85.v", "model/HashSkipTypes.v", "gen/GenHashSkip.v", "model/HashSkip.v",
           "proofs/HashSkipProofs.v", "model/HashJsonTypes.v", "gen/GenHashJson.v", "model/HashJson.v",
           "proofs/HashJsonProofs.v", "props/C13.v"]


def correspondence(ctx):
    bad = common.scan_forbidden([f for f in CLOSURE if (COQ / f).exists()])
    if bad:
        ctx.add_failure("coq", "forbidden-declaration", "forbidden-declaration",
                        "forbidden declarations in the C13 development: " + "; ".join(bad[:5]))
    if getattr(ctx, "facts", None) is None:
        ctx.notes.append("correspondence skipped: the translator did not produce gen/GenHash.v")
        return
    _e1_digests(ctx)
    _e1_refreshed(ctx)
    _shape_report(ctx)
    if getattr(ctx, "site_facts", None) is None:
        ctx.notes.append("E2 (call sites) model comparison skipped: the translator did not produce gen/GenHashSites.v")
    else:
        _e2_sites(ctx)
    if getattr(ctx, "skip_facts", None) is None:
        ctx.notes.append("E3 (compute_inp_hashes) model comparison skipped: the translator did not produce gen/GenHashSkip.v")
    else:
        _e3_inp_guard(ctx)
        _e5_skip(ctx)
    if getattr(ctx, "json_facts", None) is None:
        ctx.notes.append("E4 (stored hashes) model comparison skipped: the translator did not produce gen/GenHashJson.v")
    else:
        _e4_json(ctx)


class _Recorder:
    """Stands in for the hashlib object inside HashWords: same digest, and keeps the bytes."""

    def __init__(self, sink):
        self.h = hashlib.sha256()
        self.buf = bytearray()
        self.sink = sink

    def update(self, b):
        self.h.update(b)
        self.buf += b

    def digest(self):
        self.sink.append(bytes(self.buf))
        return self.h.digest()


def impl_preimages(c):
    """Run the real from_inp / with_out_hashes with a recording hash object inside HashWords and
    return (inp pre-image, out pre-image, inp_digest, out_digest) as the implementation built them."""
    import stepup.core.hash as H
    sink = []

    class RecHashWords(H.HashWords):
        def __init__(self):
            super().__init__()
            self._hash = _Recorder(sink)

    orig = H.HashWords
    H.HashWords = RecHashWords
    try:
        di, do = impl_digests(c, explained=False)
    finally:
        H.HashWords = orig
    if len(sink) != 2:
        raise RuntimeError(f"expected two HashWords digests, saw {len(sink)}")
    return sink[0], sink[1], di, do


def _e1_digests(ctx):
    rng = ctx.rng
    n = ctx.scale(300, 2500)
    cfgs = [_witness_cfgs()[k] for k in ("d2_A", "d2_B", "d2b_1", "d2b_2")]
    cfgs += [{"label": "", "shell": False, "inps": {}, "envs": {}, "ovrs": {}, "outs": {}}]
    while len(cfgs) < n:
        cfgs.append(_config(rng))
    checks, meta = [], []
    for i, c in enumerate(cfgs):
        c2 = _reorder(rng, c)
        for order, cc in (("supplied", c), ("permuted", c2)):
            try:
                di, do = impl_digests(cc, explained=False)
                ei, eo = impl_digests(cc, explained=True)
                pi, po, ri, ro = impl_preimages(cc)
            except Exception as e:  # noqa: BLE001
                ctx.add_failure("correspondence", "E1:impl-raises", f"E1:impl-raises:{type(e).__name__}",
                                f"implementation raised {type(e).__name__}: {e}", witness=_jsonable(cc))
                continue
            if (di, do) != (ei, eo):
                ctx.add_failure("correspondence", "E1:explained-vs-compact", "E1:explained-vs-compact",
                                "explained and compact step hashes have different digests", witness=_jsonable(cc))
            # the recorded bytes are what the un-instrumented implementation hashes
            if (ri, ro) != (di, do) or hashlib.sha256(pi).digest() != di or hashlib.sha256(po).digest() != do:
                ctx.add_failure("correspondence", "E1:recorder", "E1:recorder-differs-from-plain-run",
                                "sha256(recorded pre-image) is not the digest of the un-instrumented run",
                                witness=_jsonable(cc))
                continue
            # ... and the model builds the same bytes (compared inside Coq)
            for which, term, p in (("inp", f"inp_preimage {q_cfg(cc)}", pi),
                                   ("out", f"out_preimage {q_filemap(cc['outs'])}", po)):
                checks.append(f"str_eqb ({term}) {coq_str(p)}")
                meta.append((order, which, cc, p, term))
        nontriv = bool(c["inps"] or c["envs"] or c["ovrs"])
        ctx.case(("digest", json.dumps(_jsonable(c), sort_keys=True)), nontriv)
        ctx.count("cfg_inputs_%d" % min(len(c["inps"]), 3))
        ctx.count("cfg_envs_%d" % min(len(c["envs"]), 3))
        ctx.count("cfg_ovrs_%d" % min(len(c["ovrs"]), 2))
        if any(v[0] == b"u" for v in list(c["inps"].values()) + list(c["outs"].values())):
            ctx.count("cfg_with_unknown_digest")
        if any(ord(ch) > 127 for k in list(c["inps"]) + list(c["envs"]) + [c["label"]] for ch in k):
            ctx.count("cfg_with_non_ascii")
    bad = common.run_cases(ctx, "e1", HEADER, checks, chunk=160)
    ctx.traces_validated += len(checks) - len(bad)
    if bad:
        model = coq_preimages(ctx, "e1diag", [meta[i][4] for i in bad[:3]])
    for j, i in enumerate(bad[:3]):
        order, which, cc, p, _ = meta[i]
        ctx.add_failure("correspondence", f"E1:{which}_digest", f"E1:{which}_digest:model-differs",
                        f"sha256(model pre-image) != implementation {which}_digest ({order} order); "
                        f"model pre-image {model[j].hex()} implementation pre-image {p.hex()}",
                        witness={"which": which, "order": order, "cfg": _jsonable(cc)})
    ctx.count("E1_digest_comparisons", len(meta))
    ctx.sample({"E1-digest": _jsonable(cfgs[5]) if len(cfgs) > 5 else None})


def _mtime_bits(x):
    return struct.unpack(">Q", struct.pack(">d", float(x)))[0]


def q_fhash(h):
    return f"(mk_fhash {q_str(h.digest)} {h.mode} {_mtime_bits(h.mtime)} {h.size} {h.inode})"


REFRESH_OPS = ["none", "touch", "touch_small", "chmod", "rewrite_same_size", "rewrite_same_size_keep_mtime",
               "append", "truncate", "replace_inode_keep_rest", "replace_inode",
               "replace_inode_new_content_keep_rest", "remove", "start_unknown",
               "start_unknown_missing", "remove_then_again"]


def _apply_op(rng, op, path):
    st = os.stat(path) if os.path.exists(path) else None
    if op in ("none", "start_unknown", "start_unknown_missing"):
        return
    if op == "touch":
        os.utime(path, ns=(st.st_atime_ns, st.st_mtime_ns + rng.choice([10 ** 9, 10 ** 6, -10 ** 9])))
    elif op == "touch_small":
        os.utime(path, ns=(st.st_atime_ns, st.st_mtime_ns + rng.choice([1, 100, 1000])))
    elif op == "chmod":
        os.chmod(path, (st.st_mode & 0o777) ^ rng.choice([0o100, 0o044, 0o200]))
    elif op in ("rewrite_same_size", "rewrite_same_size_keep_mtime"):
        data = open(path, "rb").read()
        new = bytes((b + 1) % 256 for b in data)
        with open(path, "r+b") as fh:
            fh.write(new)
        if op.endswith("keep_mtime"):
            os.utime(path, ns=(st.st_atime_ns, st.st_mtime_ns))
    elif op == "append":
        with open(path, "ab") as fh:
            fh.write(b"x" * rng.randint(1, 5))
    elif op == "truncate":
        with open(path, "wb"):
            pass
    elif op in ("replace_inode_keep_rest", "replace_inode", "replace_inode_new_content_keep_rest"):
        data = open(path, "rb").read()
        tmp = path + ".new"
        with open(tmp, "wb") as fh:
            fh.write(bytes((b + 1) % 256 for b in data) if "new_content" in op
                     else data if op.endswith("keep_rest") else data[::-1] + b"!")
        os.chmod(tmp, st.st_mode & 0o777)
        os.replace(tmp, path)
        if op.endswith("keep_rest"):
            os.utime(path, ns=(st.st_atime_ns, st.st_mtime_ns))
    elif op in ("remove", "remove_then_again"):
        os.remove(path)
    elif op == "replace_by_dir":
        os.remove(path)
        os.mkdir(path)
    elif op == "replace_by_dir_keep_mtime":
        os.remove(path)
        os.mkdir(path)
        os.utime(path, ns=(st.st_atime_ns, st.st_mtime_ns))
    elif op == "chmod_000":
        os.chmod(path, 0)


def _refreshed_runs(ctx, n):
    """Yield (op, old, observation, new, content_changed) for real files."""
    from stepup.core.hash import FileHash
    rng = ctx.rng
    with tempfile.TemporaryDirectory(prefix="verif-c13-") as d:
        for k in range(n):
            op = REFRESH_OPS[k % len(REFRESH_OPS)] if k < 2 * len(REFRESH_OPS) else rng.choice(REFRESH_OPS)
            path = os.path.join(d, f"f{k}")
            data0 = rng.randbytes(rng.choice([0, 1, 7, 64, 1000]))
            if op != "start_unknown_missing":
                with open(path, "wb") as fh:
                    fh.write(data0)
                os.chmod(path, rng.choice([0o644, 0o600, 0o755]))
            if op in ("start_unknown", "start_unknown_missing"):
                old = FileHash.unknown()
            else:
                old = FileHash.unknown().refreshed(path)
            mode0 = old.mode
            _apply_op(rng, op, path)
            if op == "remove_then_again":
                old = old.refreshed(path)  # now unknown, file still missing
            try:
                st = os.stat(path)
                data = open(path, "rb").read()
            except OSError:
                st, data = None, None
            new = old.refreshed(path)
            yield op, old, st, data, new, (data0, mode0)


def _e1_refreshed(ctx):
    n = ctx.scale(120, 1500)
    checks, descr = [], []
    for op, old, st, data, new, _ in _refreshed_runs(ctx, n):
        if st is None:
            obs = "None"
        else:
            dig = hashlib.sha256(data).digest()
            obs = (f"(Some (mk_fstat {st.st_mode} {_mtime_bits(st.st_mtime)} {st.st_size} {st.st_ino}, "
                   f"{q_str(dig)}))")
        # H is instantiated with the identity on the (already hashed) content
        checks.append(f"fh_all_eqb (refreshed (fun d => d) {q_fhash(old)} {obs}) {q_fhash(new)}")
        descr.append({"op": op, "old": repr(old), "exists": st is not None, "new": repr(new),
                      "returned_self": new is old})
        ctx.case(("refreshed", op, old.digest.hex(), old.mtime, old.inode, st is not None), st is not None)
        ctx.count("refreshed_op_" + op)
        if new is old:
            ctx.count("refreshed_returned_self")
    ctx.sample({"E1-refreshed": descr[3] if len(descr) > 3 else None})
    bad = common.run_cases(ctx, "refreshed", HEADER, checks)
    ctx.traces_validated += len(checks) - len(bad)
    for i in bad[:3]:
        ctx.add_failure("correspondence", "E1:refreshed", f"E1:refreshed:model-differs:{descr[i]['op']}",
                        f"model and FileHash.refreshed disagree after {descr[i]['op']}: {descr[i]}",
                        witness=descr[i])


def _shape_report(ctx):
    """Evaluate the two shape conditions and, when both repairs are in, demand the full theorem."""
    vals = common.eval_terms(ctx, "shape", HEADER, ["unknown_as_none", "kw_ovr_is_str"])
    ctx.stats["unknown_as_none"] = vals[0]
    ctx.stats["kw_ovr_is_str"] = vals[1]
    have_props = (COQ / "props/C13.vo").exists()
    closes = {}
    for which, proof in (("inp", "C13_inp_full_when_repaired eq_refl eq_refl"), ("out", "C13_out_full_when_repaired eq_refl")):
        rel = f"cases/{ctx.pid}_full_{which}.v"
        (COQ / rel).write_text(
            "From SV Require Import model.Hash props.C13.\n"
            f"Theorem C13_{which}_preimage_injective : C13_{which}_full.\n"
            f"Proof. exact ({proof}). Qed.\n"
            f"Print Assumptions C13_{which}_preimage_injective.\n")
        ok, log = common.coqc_file(rel, timeout=300) if have_props else (False, "props/C13.vo missing")
        closes[which] = ok and "Closed under the global context" in log
        for ext in (".v", ".vo", ".glob", ".vok", ".vos"):
            q = COQ / (rel[:-2] + ext)
            if q.exists():
                q.unlink()
        expected = (vals[0] == "true" and vals[1] == "false") if which == "inp" else vals[0] == "true"
        if have_props and expected and not closes[which]:
            ctx.add_failure("coq", f"C13_{which}_full", f"coq:C13_{which}_full-does-not-close-on-repaired-shape",
                            f"the shape conditions hold but C13_{which}_full does not close: " + common.tail(log, 600))
    ctx.stats["full_statements_close"] = closes
    ctx.notes.append(
        f"shape: unknown_as_none={vals[0]} kw_ovr_is_str={vals[1]}; "
        + "; ".join(f"C13_{w}_full " + ("closes without extra hypotheses" if c else
                                        "is proved only under the extra hypotheses (see props/C13.v)")
                    for w, c in closes.items()))


# ---------------------------------------------------------------------------------------------
# E2: the call sites in executor.py (real Executor code path) versus site_inp_cfg / site_full_cfg
# ---------------------------------------------------------------------------------------------

HEADER_SITES = (HEADER + "From SV Require Import model.HashSiteTypes gen.GenHashSites model.HashSites.\n")

SITE_FIXED = [
    # defined-but-empty, the string 'None', names equal to keywords, infra wins over environ
    {"command": "echo ${C13_A-unset}", "workdir": ".", "shell": True, "files": [], "env_deps": ["C13_A"],
     "environ": [["C13_A", ""]], "infra": [], "ovrs": [], "outs": []},
    {"command": "echo ${C13_A-unset}", "workdir": ".", "shell": True, "files": [], "env_deps": ["C13_A"],
     "environ": [], "infra": [], "ovrs": [], "outs": []},
    {"command": "x", "workdir": "sub/", "shell": False, "files": [["a.txt", "00", 0o644]],
     "env_deps": ["None", "__env_overrides__", "C13_B"], "environ": [["None", "None"], ["C13_B", "env"]],
     "infra": [["C13_B", "infra"]], "ovrs": [["C13_O1", ""], ["c13_a", "None"]], "outs": [["out.txt", None, 0o644]]},
    {"command": "", "workdir": "b  # wd=c/", "shell": False, "files": [["__env_vars__", "", 0o600]],
     "env_deps": [], "environ": [], "infra": [], "ovrs": [["__env_overrides__", "__env_overrides__"]],
     "outs": [["o2", "6f", 0o755]]},
]


def _e2_sites(ctx):
    from . import c13_exec as X
    rng = ctx.rng
    n = ctx.scale(90, 1200)
    cfgs = [dict(c) for c in SITE_FIXED]
    while len(cfgs) < n:
        cfgs.append(X.gen_sys(rng))
    checks, meta = [], []
    with X.Runner() as runner:
        for c in cfgs:
            try:
                r = runner.run(c)
            except Exception as e:  # noqa: BLE001
                ctx.add_failure("correspondence", "E2:site:impl-raises", f"E2:site:impl-raises:{type(e).__name__}",
                                f"the real executor path raised {type(e).__name__}: {e}", witness={"s": c})
                continue
            di, pi = r["inp"]
            df, pf, do, po = r["full"]
            if hashlib.sha256(pi).digest() != di or hashlib.sha256(pf).digest() != df \
                    or hashlib.sha256(po).digest() != do:
                ctx.add_failure("correspondence", "E2:site:recorder", "E2:site:recorder-digest-mismatch",
                                "sha256(recorded bytes) is not the digest the executor returned", witness={"s": c})
                continue
            if di != df:
                ctx.add_failure("correspondence", "E2:site:inp-vs-full", "E2:site:inp-vs-full-differ",
                                "_compute_inp_step_hash and _compute_full_step_hash give different input digests "
                                "for the same configuration", witness={"s": c})
            if r["out_check"] != do:
                ctx.add_failure("correspondence", "E2:site:out-vs-full", "E2:site:out-check-vs-full-differ",
                                "_compute_out_step_hash and _compute_full_step_hash give different output digests",
                                witness={"s": c})
            q = X.q_sys(c, r["inp_sigs"], r["out_sigs"])
            for which, term, p in (("inp", f"inp_preimage (site_inp_cfg {q})", pi),
                                   ("full", f"inp_preimage (site_full_cfg {q})", pf),
                                   ("out", f"out_preimage (site_full_outs {q})", po)):
                checks.append(f"str_eqb ({term}) {coq_str(p)}")
                meta.append((which, c, p, term))
            tracked = {k: X.effective(c, k) for k in c["env_deps"]}
            ctx.case(("site", json.dumps(c, sort_keys=True)), bool(c["files"] or c["env_deps"] or c["ovrs"]))
            ctx.count("site_tracked_%d" % min(len(tracked), 3))
            for v in tracked.values():
                ctx.count("site_tracked_undefined" if v is None else "site_tracked_empty" if v == "" else
                          "site_tracked_None_string" if v == "None" else "site_tracked_value")
            if any(k in dict(c["infra"]) for k in c["env_deps"]):
                ctx.count("site_tracked_from_infra_env")
            if c["workdir"] != ".":
                ctx.count("site_with_workdir")
    bad = common.run_cases(ctx, "e2site", HEADER_SITES, checks, chunk=120)
    ctx.traces_validated += len(checks) - len(bad)
    if bad:
        model = coq_preimages(ctx, "e2diag", [meta[i][3] for i in bad[:3]], header=HEADER_SITES)
    for j, i in enumerate(bad[:3]):
        which, c, p, _ = meta[i]
        ctx.add_failure("correspondence", f"E2:site-{which}", f"E2:site-{which}:model-differs",
                        f"the bytes the real executor path hashed at the {which} site are not the model pre-image; "
                        f"model {model[j].hex()} implementation {p.hex()}", witness={"which": which, "s": c})
    ctx.count("E2_site_comparisons", len(meta))
    ctx.sample({"E2-site": cfgs[5] if len(cfgs) > 5 else None})
    _model_site_pairs(ctx)


def _model_site_pairs(ctx):
    """One-ingredient pairs evaluated in the generated MODEL only (no real run): when the site theorems
    break, this says whether the generated call-site expressions themselves collide."""
    from . import c13_exec as X
    rng = ctx.rng
    checks, meta = [], []
    for i in range(ctx.scale(66, 660)):
        kind = X.DIFFERENT[i % len(X.DIFFERENT)]
        s = X.prepare(rng, X.gen_sys(rng), kind)
        d = X.mutate(rng, s, kind)
        if d is None:
            continue
        q1, q2 = X.q_sys(s, *X.static_sigs(s)), X.q_sys(d, *X.static_sigs(d))
        checks.append(f"negb (str_eqb (inp_preimage (site_inp_cfg {q1})) (inp_preimage (site_inp_cfg {q2})))")
        meta.append((kind, s, d))
        ctx.case(("model-pair", kind, json.dumps(s, sort_keys=True), json.dumps(d, sort_keys=True)), True)
    bad = common.run_cases(ctx, "sitepairs", HEADER_SITES, checks, chunk=120)
    seen = set()
    for i in bad:
        kind, s, d = meta[i]
        if kind in seen:
            continue
        seen.add(kind)
        ctx.add_failure("correspondence", f"model:site-collision:{kind}", f"model:site-collision:{kind}",
                        f"in the generated model two system-level configurations that differ in {kind} have the same "
                        "input pre-image", witness={"kind": kind, "s1": s, "s2": d})


def _site_digests(runner, c):
    r = runner.run(c, record=False)
    return r["inp"][0], r["full"][0], r["full"][2], r["out_check"]


def _oracle_sites(ctx, per_kind):
    """Pairs of system-level configurations on the REAL executor path."""
    from . import c13_exec as X
    rng = ctx.rng
    fails = {}
    with X.Runner() as runner:
        first = [("env_empty_vs_unset", SITE_FIXED[0], SITE_FIXED[1])]
        todo = list(first)
        for kind in X.DIFFERENT + X.SAME + X.OUTPUT:
            for _ in range(per_kind):
                s = X.prepare(rng, X.gen_sys(rng), kind)
                d = X.mutate(rng, s, kind)
                if d is None:
                    ctx.count("site_pair_not_applicable")
                    continue
                todo.append((kind, s, d))
        for kind, s, d in todo:
            try:
                i1, f1, o1, c1 = _site_digests(runner, s)
                i2, f2, o2, c2 = _site_digests(runner, d)
            except Exception as e:  # noqa: BLE001
                fails.setdefault(f"oracle:site:{kind}:impl-raises:{type(e).__name__}",
                                 (f"the real executor path raised {type(e).__name__}: {e}", kind, s, d))
                continue
            ctx.case(("site-pair", kind, json.dumps(s, sort_keys=True), json.dumps(d, sort_keys=True)), True)
            ctx.count("site_pair_" + kind)
            if kind in X.DIFFERENT:
                if i1 == i2 or f1 == f2:
                    fails.setdefault(f"oracle:site:{kind}:same-inp-digest",
                                     (f"two configurations of a step that differ in {kind} get the same input digest "
                                      f"{i1.hex()[:16]} from the real executor ("
                                      + ("both call sites" if i1 == i2 and f1 == f2 else
                                         "_compute_inp_step_hash" if i1 == i2 else "_compute_full_step_hash") + ")",
                                      kind, s, d))
            elif kind in X.SAME:
                if i1 != i2 or f1 != f2 or o1 != o2:
                    fails.setdefault(f"oracle:site:{kind}:digest-changed",
                                     (f"a change that is no ingredient ({kind}) changed a digest", kind, s, d))
            else:
                if o1 == o2 or c1 == c2:
                    fails.setdefault(f"oracle:site:{kind}:same-out-digest",
                                     (f"two output sets that differ in {kind} get the same output digest", kind, s, d))
                if i1 != i2:
                    fails.setdefault(f"oracle:site:{kind}:inp-digest-changed",
                                     (f"an output change ({kind}) changed the input digest", kind, s, d))
    for sig, (detail, kind, s, d) in fails.items():
        ctx.add_failure("oracle", sig.split(":", 1)[1], sig, detail, witness={"kind": kind, "s1": s, "s2": d})



# ---------------------------------------------------------------------------------------------
# E3: compute_inp_hashes (the guard in front of StepHash.from_inp) versus model/HashSkip.v
# ---------------------------------------------------------------------------------------------

E3_OPS = REFRESH_OPS + ["replace_by_dir", "chmod_000", "replace_by_dir_keep_mtime"]


def _header_skip():
    return (HEADER + "From SV Require Import model.HashSiteTypes gen.GenHashSites model.HashSites "
            "model.HashSkipTypes gen.GenHashSkip model.HashSkip.\n"
            "Definition outcome_code (r : option (bool * list (str * fhash))) : N :=\n"
            "  match r with None => 2 | Some (true, _) => 1 | Some (false, _) => 0 end.\n"
            "Definition all_of (r : option (bool * list (str * fhash))) : list (str * fhash) :=\n"
            "  match r with None => [] | Some (_, l) => l end.\n"
            "Fixpoint all_eqb (a b : list (str * fhash)) : bool :=\n"
            "  match a, b with [], [] => true | (p, h) :: a', (q, g) :: b' => str_eqb p q && fh_all_eqb h g && all_eqb a' b'\n"
            "  | _, _ => false end.\n")


def _e3_inp_guard(ctx):
    """Real files, the real compute_inp_hashes over one or two recorded paths (sorted order; changed,
    vanished, never-present inputs, inputs replaced by a directory or stripped of all permissions) against
    compute_inp_hashes of model/HashSkip.v: same outcome (quiet / messages / an exception leaves the function)
    and the same all_hashes, field by field."""
    import threading

    from stepup.core.exceptions import ConsistencyError, HashFailedError
    from stepup.core.hash import FileHash, compute_inp_hashes
    rng = ctx.rng
    n = ctx.scale(54, 540)
    checks, descr = [], []
    with tempfile.TemporaryDirectory(prefix="verif-c13-g-") as d:
        prepared = []
        for k in range(n):
            op = E3_OPS[k % len(E3_OPS)]
            path = os.path.join(d, f"g{k:04d}")
            if op != "start_unknown_missing":
                with open(path, "wb") as fh:
                    fh.write(rng.randbytes(rng.choice([0, 1, 7, 64])))
                os.chmod(path, rng.choice([0o644, 0o600, 0o755]))
            old = FileHash.unknown() if op in ("start_unknown", "start_unknown_missing") \
                else FileHash.unknown().refreshed(path)
            _apply_op(rng, op, path)
            if op == "remove_then_again":
                old = old.refreshed(path)
            # what is under the path now: missing / readable file / can be stat'ed but not read
            try:
                st = os.stat(path)
            except OSError:
                st, data = None, None
            else:
                try:
                    with open(path, "rb") as fh:
                        data = fh.read()
                except OSError:
                    data = None
            prepared.append((op, path, old, st, data))
        for k, first in enumerate(prepared):
            entries = [first]
            if k % 2:
                other = prepared[rng.randrange(len(prepared))]
                if other[1] != first[1]:
                    entries.append(other)
            if k % 4 == 3:
                entries.reverse()   # supply order differs from path order
            try:
                res = compute_inp_hashes({p: o for _, p, o, _, _ in entries}, threading.Event())
                code, allh = (1 if res.messages else 0), list(res.all_hashes.items())
            except (ConsistencyError, HashFailedError, OSError):
                code, allh = 2, []

            def q_obs(s, dt):
                if s is None:
                    return "DMissing"
                q_st = f"(mk_fstat {s.st_mode} {_mtime_bits(s.st_mtime)} {s.st_size} {s.st_ino})"
                return f"DUnreadable {q_st}" if dt is None else f"DFile {q_st} {q_str(hashlib.sha256(dt).digest())}"
            disk = "(fun p => " + "".join(f"if str_eqb p {q_str(p)} then {q_obs(s, dt)} else "
                                          for _, p, _, s, dt in entries) + "DMissing)"
            olds = "[" + "; ".join(f"({q_str(p)}, {q_fhash(o)})" for _, p, o, _, _ in entries) + "]"
            term = f"compute_inp_hashes (fun d => d) {disk} {olds}"
            want_all = "[" + "; ".join(f"({q_str(p)}, {q_fhash(h)})" for p, h in allh) + "]"
            tail = "true" if code == 2 else f"all_eqb (all_of ({term})) {want_all}"
            checks.append(f"(outcome_code ({term}) =? {code}) && {tail}")
            descr.append({"ops": [e[0] for e in entries], "outcome": ["quiet", "messages", "raises"][code],
                          "olds": [repr(e[2]) for e in entries],
                          "under_path": ["missing" if e[3] is None else "unreadable" if e[4] is None else "file"
                                         for e in entries]})
            if any(e[3] is not None and e[4] is None for e in entries):
                ctx.count("inp_guard_with_unreadable_input")
            ctx.case(("inp-guard", tuple(descr[-1]["ops"]), code), True)
            ctx.count("inp_guard_" + descr[-1]["outcome"])
    bad = common.run_cases(ctx, "inpguard", _header_skip(), checks, chunk=100)
    ctx.traces_validated += len(checks) - len(bad)
    for i in bad[:3]:
        ctx.add_failure("correspondence", "E3:compute_inp_hashes",
                        f"E3:compute_inp_hashes:model-differs:{descr[i]['outcome']}",
                        f"model and hash.compute_inp_hashes disagree (implementation: {descr[i]['outcome']}): {descr[i]}",
                        witness=descr[i])


# ---------------------------------------------------------------------------------------------
# E4: stored hashes (cattrs' JSON converter) versus gen/GenHashJson.v
# ---------------------------------------------------------------------------------------------


def _header_json():
    return (HEADER + "From SV Require Import lib.Base85 model.HashJsonTypes gen.GenHashJson model.HashSkipTypes model.HashJson.\n"
            "Fixpoint jval_eqb (a b : jval) : bool :=\n"
            "  match a, b with\n"
            "  | JNull, JNull => true\n"
            "  | JStr x, JStr y => str_eqb x y\n"
            "  | JInt x, JInt y => x =? y\n"
            "  | JFloat x, JFloat y => x =? y\n"
            "  | JObj f, JObj g =>\n"
            "      (fix go (f g : list (str * jval)) : bool :=\n"
            "         match f, g with\n"
            "         | [], [] => true\n"
            "         | (k, v) :: f', (k', v') :: g' => str_eqb k k' && jval_eqb v v' && go f' g'\n"
            "         | _, _ => false\n"
            "         end) f g\n"
            "  | _, _ => false\n"
            "  end.\n"
            "Definition ojval_eqb (a b : option jval) : bool :=\n"
            "  match a, b with Some x, Some y => jval_eqb x y | None, None => true | _, _ => false end.\n"
            "Definition sx_back (j : jval) (x : stephash) : bool :=\n"
            "  match sx_structure j with Some y => jval_eqb (sx_unstructure y) (sx_unstructure x) | None => false end.\n"
            "Definition fh_back (v : option jval) (h : fhash) : bool :=\n"
            "  match fh_from_json v with Some g => fh_all_eqb g h | None => false end.\n")


def q_jval(v):
    if v is None:
        return "JNull"
    if isinstance(v, bool):
        raise TypeError("bool in a stored hash")
    if isinstance(v, str):
        return f"(JStr {q_str(v)})"
    if isinstance(v, int):
        return f"(JInt {v})"
    if isinstance(v, float):
        return f"(JFloat {_mtime_bits(v)})"
    if isinstance(v, dict):
        return "(JObj [" + "; ".join(f"({q_str(k)}, {q_jval(x)})" for k, x in v.items()) + "])"
    raise TypeError(type(v))


def _q_files_full(m):
    return "[" + "; ".join(f"({q_str(k)}, {q_fhash(h)})" for k, h in m.items()) + "]"


def q_stephash(sh):
    def opt(x, f):
        return "None" if x is None else f"(Some {f(x)})"
    ii = opt(sh.inp_info, lambda i: "(mk_ii " + _q_files_full(i.inp_hashes) + " ["
             + "; ".join(f"({q_str(k)}, {'None' if v is None else '(Some ' + q_str(v) + ')'})" for k, v in i.env_values.items())
             + "] [" + "; ".join(f"({q_str(k)}, {q_str(v)})" for k, v in i.env_overrides.items()) + "])")
    oi = opt(sh.out_info, lambda o: "(mk_oi " + _q_files_full(o.out_hashes) + ")")
    return f"(mk_sx {q_str(sh.inp_digest)} {ii} {opt(sh.out_digest, q_str)} {oi})"


def _e4_json(ctx):
    """The object handed to json.dumps by to_json is the model's tree; the tree survives json.dumps/loads;
    structuring the loaded tree in the model gives the hash back."""
    from stepup.core.cattrs import json_converter
    from stepup.core.hash import FileHash, StepHash
    rng = ctx.rng
    checks, descr = [], []

    def text_layer(tree, what):
        back = json.loads(json.dumps(tree))
        if back != tree or json.dumps(back) != json.dumps(tree):
            _add_once(ctx, "correspondence", "E4:json-text", f"E4:json-text-layer:{what}",
                      "json.loads(json.dumps(tree)) is not the tree that to_json serialises", {"tree": repr(tree)[:400]})

    for i in range(ctx.scale(40, 600)):
        fh = FileHash(rng.randbytes(32), _int64(rng) % 2 ** 32, rng.choice([0.0, 1234.5, 1.7e9 + rng.random(), 2.0 ** 31 + 1e-6, 1e-300]),
                      _int64(rng), rng.choice([0, 1, 2 ** 63 + 1, 2 ** 64 - 1, rng.getrandbits(64)]))
        if i % 9 == 0:
            fh = FileHash.unknown()
        tree = None if fh.is_unknown else json_converter.unstructure(fh)
        stored = fh.to_json()
        if (stored is None) != (tree is None) or (stored is not None and json.loads(stored) != tree):
            _add_once(ctx, "correspondence", "E4:to_json", "E4:FileHash.to_json-is-not-dumps-of-unstructure",
                      "FileHash.to_json does not store json.dumps(unstructure(self)) / NULL", {"hash": repr(fh)})
        if tree is not None:
            text_layer(tree, "FileHash")
        qt = "None" if tree is None else f"(Some {q_jval(tree)})"
        checks.append(f"ojval_eqb (fh_to_json {q_fhash(fh)}) {qt} && fh_back {qt} {q_fhash(FileHash.from_json(stored))}")
        descr.append({"kind": "FileHash", "hash": repr(fh), "stored": stored})
        ctx.case(("json-model-file", fh.digest.hex(), fh.mtime), True)
    for i in range(ctx.scale(40, 600)):
        c = _config(rng)
        explained = bool(i % 2)
        mk = lambda t: FileHash(t[0], t[1], rng.choice([0.0, 1.5, 1.7e9]), t[2], rng.getrandbits(40))  # noqa: E731
        sh = StepHash.from_inp(c["label"], {k: mk(v) for k, v in c["inps"].items()}, dict(c["envs"]),
                               explained=explained, shell=c["shell"], env_overrides=dict(c["ovrs"]))
        if i % 3:
            sh = sh.with_out_hashes({k: mk(v) for k, v in c["outs"].items()})
        tree = json_converter.unstructure(sh)
        if json.loads(sh.to_json()) != tree:
            _add_once(ctx, "correspondence", "E4:to_json", "E4:StepHash.to_json-is-not-dumps-of-unstructure",
                      "StepHash.to_json does not store json.dumps(unstructure(self))", {"cfg": _jsonable(c)})
        text_layer(tree, "StepHash")
        back = StepHash.from_json(sh.to_json())
        checks.append(f"jval_eqb (sx_to_json {q_stephash(sh)}) {q_jval(tree)} && sx_back {q_jval(tree)} {q_stephash(back)}")
        descr.append({"kind": "StepHash", "explained": explained, "cfg": _jsonable(c), "stored": sh.to_json()[:300]})
        ctx.case(("json-model-step", explained, json.dumps(_jsonable(c), sort_keys=True)), True)
        ctx.count("json_model_explained" if explained else "json_model_compact")
    bad = common.run_cases(ctx, "json", _header_json(), checks, chunk=60)
    ctx.traces_validated += len(checks) - len(bad)
    for i in bad[:3]:
        ctx.add_failure("correspondence", "E4:json", f"E4:json:model-differs:{descr[i]['kind']}",
                        f"the tree cattrs hands to json.dumps / the hash structured from it is not the model's: {descr[i]}",
                        witness=descr[i])



# ---------------------------------------------------------------------------------------------
# E5 / oracle: the real Executor.try_skip_job on recorded hashes chosen by the harness
# ---------------------------------------------------------------------------------------------


def _skip_runs(ctx):
    """(configuration, tweak, result) of the real try_skip_job: the recorded hash is the current one or differs
    from it in a chosen place (first / last / middle byte, everything after byte 8 or 16, out_digest None,
    the two digests swapped).  Cached: correspondence and oracle look at the same runs."""
    cached = getattr(ctx, "_c13_skip_runs", None)
    if cached is not None:
        return cached
    from . import c13_exec as X
    rng = ctx.rng
    runs = []
    with X.Runner() as runner:
        for rep in range(ctx.scale(2, 12)):
            for tweak in X.SKIP_TWEAKS:
                s = X.gen_sys(rng)
                if rep % 2:
                    s["explained"] = True
                if rep == 0 and not s["outs"]:
                    s["outs"].append(["out.txt", b"result".hex(), 0o644])
                try:
                    runs.append((s, tweak, X.run_skip(runner, s, tweak), None))
                except Exception as e:  # noqa: BLE001
                    runs.append((s, tweak, None, f"{type(e).__name__}: {e}"))
    ctx._c13_skip_runs = runs
    return runs


def _hexpair(p):
    return None if p is None else [None if x is None else x.hex() for x in p]


def _q_shash(p):
    return f"(mk_shash {q_str(p[0])} {'None' if p[1] is None else '(Some ' + q_str(p[1]) + ')'})"


def _e5_skip(ctx):
    """The generated tests of try_skip_job (gen/GenHashSkip.v) decide like the real try_skip_job."""
    checks, meta = [], []
    for s, tweak, r, err in _skip_runs(ctx):
        if r is None:
            continue
        old, new = _q_shash(r["recorded"]), _q_shash(r["current"])
        new1 = f"(mk_shash {q_str(r['current'][0])} None)"
        model = f"(negb (skip_inp_differs {old} {new1}) && negb (skip_out_differs {old} {new}))"
        checks.append(f"Bool.eqb {model} {'true' if r['skipped'] else 'false'}")
        meta.append((s, tweak, r))
    header = HEADER + "From SV Require Import model.HashSkipTypes gen.GenHashSkip.\n"
    bad = common.run_cases(ctx, "skipdec", header, checks, chunk=100)
    ctx.traces_validated += len(checks) - len(bad)
    for i in bad[:3]:
        s, tweak, r = meta[i]
        ctx.add_failure("correspondence", "E5:try_skip_job", f"E5:try_skip_job:model-differs:{tweak}",
                        f"the generated tests of try_skip_job and the real try_skip_job decide differently (recorded hash: "
                        f"{tweak}; real: {'skipped' if r['skipped'] else 'not skipped'})",
                        witness={"tweak": tweak, "s": s, "recorded": _hexpair(r["recorded"]), "current": _hexpair(r["current"]),
                                 "skipped": r["skipped"]})


def _oracle_skip(ctx):
    """Implementation only: try_skip_job skips exactly when both recorded digests are the current ones; a skip
    records the current hash, a NOSKIP leaves no hash behind."""
    for s, tweak, r, err in _skip_runs(ctx):
        ctx.case(("try-skip", tweak, json.dumps(s, sort_keys=True)), True)
        if r is None:
            _add_once(ctx, "oracle", "skip:impl-raises", f"oracle:skip:try_skip_job-raises:{tweak}",
                      f"the real try_skip_job raised: {err}", {"tweak": tweak, "s": s})
            continue
        ctx.count("try_skip_" + ("skipped" if r["skipped"] else "noskip"))
        same = r["recorded"] == r["current"]
        w = {"tweak": tweak, "s": s, "recorded": _hexpair(r["recorded"]), "current": _hexpair(r["current"]),
             "skipped": r["skipped"], "state_after": r["state"], "stored_after": _hexpair(r["stored"])}
        if r["skipped"] and not same:
            which = "inp" if r["recorded"][0] != r["current"][0] else "out"
            _add_once(ctx, "oracle", "skip:unsound", f"oracle:skip:skipped-although-{which}-digest-differs:{tweak}",
                      f"try_skip_job skipped the step although the recorded {which}_digest is not the current one "
                      f"(recorded hash differs from the current one: {tweak})", w)
        elif not r["skipped"] and same:
            _add_once(ctx, "oracle", "skip:spurious", "oracle:skip:noskip-although-both-digests-equal",
                      "try_skip_job did not skip although both recorded digests are the current ones", w)
        elif r["skipped"] and r["stored"] != r["current"]:
            _add_once(ctx, "oracle", "skip:stored", "oracle:skip:skip-does-not-record-the-current-hash",
                      "after a skip the stored step hash is not the current one", w)
        elif not r["skipped"] and r["stored"] is not None:
            _add_once(ctx, "oracle", "skip:stale", "oracle:skip:noskip-keeps-a-stored-hash",
                      "after a NOSKIP a step hash is still stored", w)


# ---------------------------------------------------------------------------------------------
# oracle on the implementation
# ---------------------------------------------------------------------------------------------


def _witness_cfgs():
    """The witnesses of the _refuted theorems in proofs/HashProofs.v, as Python configurations."""
    m1 = (0o100644).to_bytes(8, "big")
    s1 = (5).to_bytes(8, "big")
    tail = b"\0\1c" + b"\0\0" + (7).to_bytes(8, "big") + b"\0\0" + (9).to_bytes(8, "big") + b"\0\0u"
    digest_b = b"XXXXXX" + tail
    rest = b"\0\1b" + b"\0\0" + m1 + b"\0\0" + s1 + b"\0\0" + digest_b
    d_b = b"u" + rest[:31]
    a = {"a": (b"u", 0, 0), "b": (digest_b, 0o100644, 5)}
    b = {"a": (d_b, 0, 0), "c": (b"u", 7, 9)}
    k = "__env_overrides__"
    base = {"label": "cmd", "shell": False, "inps": {}, "envs": {}, "ovrs": {}, "outs": {}}
    # skip_full_refuted (proofs/HashSkipProofs.v): the same two output paths on both sides
    x = b"XXXXXX" + b"\0\1b" + b"\0\0" + bytes(8) + b"\0\0" + bytes(8) + b"\0\0u"
    dd = b"u\0\1b" + b"\0\0" + m1 + b"\0\0" + s1 + b"\0\0" + b"XXXXXX"
    sa = {"a": (b"u", 0, 0), "b": (x, 0o100644, 5)}
    sb = {"a": (dd, 0, 0), "b": (b"u", 0, 0)}
    return {
        "d2s_A": dict(base, inps=sa, outs=sa), "d2s_B": dict(base, inps=sb, outs=sb),
        "d2_A": dict(base, inps=a, outs=a), "d2_B": dict(base, inps=b, outs=b),
        "d2b_1": dict(base, envs={"A": "b"}, ovrs={"c": k}),
        "d2b_2": dict(base, envs={"A": "b", k: "c"}),
    }


def _same_cfg(c1, c2, keys=("label", "shell", "inps", "envs", "ovrs")):
    return all(c1[k] == c2[k] for k in keys)


def _entry_bytes(path, t):
    return (b"\0\1" + path.encode() + b"\0\0" + t[1].to_bytes(8, "big") + b"\0\0" + t[2].to_bytes(8, "big")
            + b"\0\0" + t[0])


def _splice_pair(rng):
    """Ambiguity generator for D2: an unknown digest followed by another entry is imitated by a
    32-byte digest that swallows the following bytes; the swallowed entry's own digest then hosts
    the header of a further entry whose digest is unknown."""
    p0, p1, p2 = sorted({_ascii(rng), _ascii(rng), _ascii(rng), "a", "b", "c"})[:3]
    p1 = p1[:1]
    p2 = p2[:1]
    if not (p0 < p1 and p0 < p2) or len({p0, p1, p2}) < 2:
        p0, p1, p2 = "a", "b", "c"
    m1, s1, m2, s2 = _int64(rng), _int64(rng), _int64(rng), _int64(rng)
    filler = rng.randbytes(6)
    tail = b"\0\1" + p2.encode() + b"\0\0" + m2.to_bytes(8, "big") + b"\0\0" + s2.to_bytes(8, "big") + b"\0\0u"
    if len(tail) != 26:
        return None
    dig_b = filler + tail
    rest = _entry_bytes(p1, (dig_b, m1, s1))
    d_b = b"u" + rest[:31]
    a = {p0: (b"u", 0, 0), p1: (dig_b, m1, s1)}
    b = {p0: (d_b, 0, 0), p2: (b"u", m2, s2)}
    return a, b


def _ascii(rng):
    return "".join(rng.choice("abcdxyz") for _ in range(rng.randint(1, 2)))


def _boundary_pair(rng):
    """Ambiguity generator for D2b: move the boundary between variables and overrides."""
    base = _config(rng)
    base["inps"] = _filemap(rng, allow_unknown=False)
    k = rng.choice(KEYWORDS[2:] + ["__env_overrides__"] * 3)
    envs = {n: v for n, v in base["envs"].items() if n < k and n not in KEYWORDS}
    v = _name(rng, 1, 4)
    c1 = dict(base, envs=dict(envs), ovrs={v: k})
    c2 = dict(base, envs=dict(envs, **{k: v}), ovrs={})
    return (c1, c2) if rng.random() < 0.5 else (c2, c1)


ONE_INGREDIENT = ["label", "shell", "inp_add", "inp_remove", "inp_rename", "inp_digest", "inp_size", "inp_mode",
                  "env_add", "env_remove", "env_value", "env_definedness", "env_rename", "ovr_add", "ovr_remove",
                  "ovr_value", "ovr_rename", "env_to_ovr", "out_add", "out_remove", "out_rename", "out_digest",
                  "out_size", "out_mode", "inp_swap_values", "label_vs_keyword"]


def _mutate(rng, c, kind):
    """Return a configuration differing from c in exactly the named ingredient, or None."""
    import copy
    d = copy.deepcopy(c)

    def other_name(old, taken):
        for _ in range(20):
            s = _name(rng, 1, 6)
            if s != old and s not in taken:
                return s
        return None

    def pick(m):
        return rng.choice(list(m)) if m else None

    if kind == "label":
        d["label"] = c["label"] + rng.choice(["x", " ", "\x01", "é"]) if rng.random() < 0.7 else other_name(c["label"], ())
    elif kind == "label_vs_keyword":
        d["label"] = c["label"] + "__shell__"
    elif kind == "shell":
        d["shell"] = not c["shell"]
    elif kind in ("inp_add", "out_add"):
        m = d["inps" if kind == "inp_add" else "outs"]
        s = other_name(None, m)
        if s is None:
            return None
        m[s] = (_digest(rng, allow_unknown=False), _int64(rng), _int64(rng))
    elif kind in ("inp_remove", "out_remove"):
        m = d["inps" if kind == "inp_remove" else "outs"]
        k = pick(m)
        if k is None:
            return None
        del m[k]
    elif kind in ("inp_rename", "out_rename"):
        key = "inps" if kind == "inp_rename" else "outs"
        k = pick(d[key])
        if k is None:
            return None
        s = other_name(k, d[key])
        if s is None:
            return None
        d[key] = {(s if kk == k else kk): vv for kk, vv in d[key].items()}
    elif kind in ("inp_digest", "out_digest", "inp_size", "out_size", "inp_mode", "out_mode"):
        m = d["inps" if kind.startswith("inp") else "outs"]
        k = pick(m)
        if k is None:
            return None
        dg, mo, sz = m[k]
        if kind.endswith("digest"):
            if dg == b"u":
                return None
            b = bytearray(dg)
            pos = rng.randrange(32)
            b[pos] ^= rng.choice([1, 2, 0x80, 0xFF])
            m[k] = (bytes(b), mo, sz)
        elif kind.endswith("size"):
            m[k] = (dg, mo, (sz + rng.choice([1, 256, 2 ** 32, 2 ** 56])) % 2 ** 64)
        else:
            m[k] = (dg, (mo ^ rng.choice([1, 0o100, 0o100000, 2 ** 40])) % 2 ** 64, sz)
    elif kind == "inp_swap_values":
        ks = list(d["inps"])
        if len(ks) < 2 or d["inps"][ks[0]] == d["inps"][ks[1]]:
            return None
        d["inps"][ks[0]], d["inps"][ks[1]] = d["inps"][ks[1]], d["inps"][ks[0]]
    elif kind == "env_add":
        s = other_name(None, d["envs"])
        if s is None:
            return None
        d["envs"][s] = rng.choice([None, "", "v"])
    elif kind == "env_remove":
        k = pick(d["envs"])
        if k is None:
            return None
        del d["envs"][k]
    elif kind == "env_value":
        k = pick(d["envs"])
        if k is None or d["envs"][k] is None:
            return None
        d["envs"][k] = d["envs"][k] + rng.choice(["x", " ", "\x02"])
    elif kind == "env_definedness":
        k = pick(d["envs"])
        if k is None:
            return None
        d["envs"][k] = "" if d["envs"][k] is None else None
    elif kind == "env_rename":
        k = pick(d["envs"])
        if k is None:
            return None
        s = other_name(k, d["envs"])
        if s is None:
            return None
        d["envs"] = {(s if kk == k else kk): vv for kk, vv in d["envs"].items()}
    elif kind == "ovr_add":
        s = other_name(None, d["ovrs"])
        if s is None:
            return None
        d["ovrs"][s] = rng.choice(["", "v"])
    elif kind == "ovr_remove":
        k = pick(d["ovrs"])
        if k is None:
            return None
        del d["ovrs"][k]
    elif kind == "ovr_value":
        k = pick(d["ovrs"])
        if k is None:
            return None
        d["ovrs"][k] = d["ovrs"][k] + "y"
    elif kind == "ovr_rename":
        k = pick(d["ovrs"])
        if k is None:
            return None
        s = other_name(k, d["ovrs"])
        if s is None:
            return None
        d["ovrs"] = {(s if kk == k else kk): vv for kk, vv in d["ovrs"].items()}
    elif kind == "env_to_ovr":
        k = pick(d["envs"])
        if k is None or d["envs"][k] is None or k in d["ovrs"]:
            return None
        d["ovrs"][k] = d["envs"].pop(k)
    else:
        raise AssertionError(kind)
    if d["label"] is None:
        return None
    return d


def _excluded_by_known_ambiguity(c):
    """A tracked variable named like the override keyword: a collision involving such a
    configuration is the D2b ambiguity and is reported under the D2b signature (never dropped)."""
    return "__env_overrides__" in c["envs"]


def _oracle_pairs(ctx, npairs):
    rng = ctx.rng
    fails = {}
    for i in range(npairs):
        c = _config(rng)
        kind = ONE_INGREDIENT[i % len(ONE_INGREDIENT)]
        d = _mutate(rng, c, kind)
        if d is None:
            ctx.count("pair_not_applicable")
            continue
        di1, do1 = impl_digests(c, explained=False)
        di2, do2 = impl_digests(d, explained=bool(i % 2))
        ctx.case(("pair", kind, json.dumps(_jsonable(c), sort_keys=True), json.dumps(_jsonable(d), sort_keys=True)), True)
        ctx.count("pair_" + kind)
        if kind.startswith("out_"):
            same = do1 == do2
            other_changed = di1 != di2
        else:
            same = di1 == di2
            other_changed = do1 != do2
        if other_changed:
            fails.setdefault(f"oracle:one-ingredient:{kind}:other-digest-changed", (c, d))
        if same:
            sig = f"oracle:one-ingredient:{kind}:same-digest"
            if _excluded_by_known_ambiguity(c) or _excluded_by_known_ambiguity(d):
                sig = SIG_D2B
            fails.setdefault(sig, (c, d))
        # order independence on the real code
        p = _reorder(rng, c)
        if impl_digests(p, explained=False) != (di1, do1):
            fails.setdefault("oracle:order-dependence", (c, p))
    for sig, (c, d) in fails.items():
        if sig == SIG_D2B and any(f.signature == SIG_D2B for f in ctx.failures):
            continue  # already reported by the ambiguity generator with a minimal witness
        ctx.add_failure("oracle", sig.split(":", 1)[1], sig,
                        f"{sig}: the two configurations of the witness "
                        + ("have the same digest" if "same-digest" in sig else "differ only in supply order / in the other map but the digest changed"),
                        witness={"c1": _jsonable(c), "c2": _jsonable(d)})


def _oracle_ambiguity(ctx, n):
    rng = ctx.rng
    w = _witness_cfgs()
    # D2: replay of the Coq witness first, then the generator
    pairs = [(w["d2_A"], w["d2_B"]), (w["d2s_A"], w["d2s_B"])]
    for _ in range(n):
        sp = _splice_pair(rng)
        if sp is not None:
            base = {"label": _name(rng), "shell": rng.random() < 0.5, "envs": {}, "ovrs": {}}
            pairs.append((dict(base, inps=sp[0], outs=sp[0]), dict(base, inps=sp[1], outs=sp[1])))
    hits = []
    for c1, c2 in pairs:
        ctx.case(("splice", json.dumps(_jsonable(c1), sort_keys=True)), True)
        i1, o1 = impl_digests(c1, explained=False)
        i2, o2 = impl_digests(c2, explained=False)
        if c1["outs"] != c2["outs"] and (o1 == o2 or i1 == i2):
            hits.append((c1, c2, o1 == o2, i1 == i2))
    ctx.count("ambiguity_unknown_digest_pairs", len(pairs))
    ctx.count("ambiguity_unknown_digest_collisions", len(hits))
    if hits:
        c1, c2, same_out, same_inp = hits[0]
        ctx.add_failure("oracle", "collision:unknown-digest", SIG_D2,
                        "two different file maps have the same "
                        + " and the same ".join(x for x, f in (("out_digest", same_out), ("inp_digest", same_inp)) if f)
                        + f": the unknown digest b'u' is hashed as a one-byte bytes word, so a 32-byte digest starting "
                          f"with 75 00 01 imitates it ({len(hits)} of {len(pairs)} generated pairs collide)",
                        witness={"c1": _jsonable(c1), "c2": _jsonable(c2)})
    # D2b
    pairs = [(w["d2b_1"], w["d2b_2"])]
    for _ in range(n):
        c1, c2 = _boundary_pair(rng)
        if c2 is not None:
            pairs.append((c1, c2))
    hits = []
    for c1, c2 in pairs:
        ctx.case(("boundary", json.dumps(_jsonable(c1), sort_keys=True)), True)
        if _same_cfg(c1, c2):
            continue
        if impl_digests(c1, explained=False)[0] == impl_digests(c2, explained=False)[0]:
            hits.append((c1, c2))
    ctx.count("ambiguity_keyword_pairs", len(pairs))
    ctx.count("ambiguity_keyword_collisions", len(hits))
    if hits:
        c1, c2 = hits[0]
        ctx.add_failure("oracle", "collision:override-keyword", SIG_D2B,
                        "two different (environment, overrides) configurations have the same inp_digest: the "
                        "word that opens the override section is the ordinary str word '__env_overrides__' "
                        f"({len(hits)} of {len(pairs)} generated pairs collide)",
                        witness={"c1": _jsonable(c1), "c2": _jsonable(c2)})


def _oracle_json(ctx, n):
    from stepup.core.hash import FileHash, StepHash
    rng = ctx.rng
    for i in range(n):
        fh = FileHash(rng.randbytes(32), _int64(rng) % 2 ** 32, rng.choice([0.0, 1234.5, 1.7e9 + rng.random(), 2.0 ** 31 + 1e-6]),
                      _int64(rng), rng.choice([0, 1, 2 ** 63 + 1, 2 ** 64 - 1, rng.getrandbits(64)]))
        back = FileHash.from_json(fh.to_json())
        ok = back == fh and back.mtime == fh.mtime and back.inode == fh.inode and back.digest == fh.digest
        ctx.case(("json-file", fh.digest.hex()), True)
        if not ok:
            ctx.add_failure("oracle", "json:FileHash", "oracle:json-round-trip:FileHash",
                            f"FileHash JSON round trip changed the value: {fh!r} -> {back!r}",
                            witness={"digest": fh.digest.hex(), "mode": fh.mode, "mtime": fh.mtime, "size": fh.size,
                                     "inode": fh.inode})
            break
    if FileHash.from_json(FileHash.unknown().to_json()) != FileHash.unknown():
        ctx.add_failure("oracle", "json:FileHash-unknown", "oracle:json-round-trip:FileHash-unknown",
                        "unknown FileHash does not survive to_json/from_json", witness={"digest": "75"})
    for i in range(n):
        c = _config(rng)
        c["inps"] = {k: v for k, v in c["inps"].items() if v[0] != b"u"} if i % 2 else c["inps"]
        for explained in (False, True):
            sh = StepHash.from_inp(c["label"], {k: _fh(v) for k, v in c["inps"].items()}, dict(c["envs"]),
                                   explained=explained, shell=c["shell"], env_overrides=dict(c["ovrs"]))
            if i % 3:
                sh = sh.with_out_hashes({k: _fh(v) for k, v in c["outs"].items()})
            back = StepHash.from_json(sh.to_json())
            ctx.case(("json-step", explained, json.dumps(_jsonable(c), sort_keys=True)), True)
            if back != sh:
                ctx.add_failure("oracle", "json:StepHash", "oracle:json-round-trip:StepHash",
                                f"StepHash JSON round trip changed the value (explained={explained})",
                                witness={"explained": explained, "cfg": _jsonable(c)})
                return


def _add_once(ctx, kind, name, sig, detail, witness):
    if not any(f.signature == sig for f in ctx.failures):
        ctx.add_failure(kind, name, sig, detail, witness=witness)


def _oracle_refreshed(ctx, n):
    """Property on real files: content, size or mode changed and (mtime, size, inode, mode) differs
    from the recorded ones => the refreshed hash compares unequal to the old one."""
    for op, old, st, data, new, (data0, mode0) in _refreshed_runs(ctx, n):
        if st is None:
            if not new.is_unknown:
                _add_once(ctx, "oracle", "refreshed:missing", "oracle:refreshed:missing-not-unknown",
                          f"missing file not reported unknown after {op}", {"op": op})
            continue
        if old.is_unknown:
            changed = True
        else:
            changed = data != data0 or st.st_size != old.size or st.st_mode != old.mode
        stat_differs = (old.mode != st.st_mode or old.mtime != st.st_mtime or old.size != st.st_size
                        or old.inode != st.st_ino)
        ctx.case(("refreshed-oracle", op, len(data), stat_differs, changed), True)
        if changed and stat_differs and new == old:
            _add_once(ctx, "oracle", "refreshed:undetected", f"oracle:refreshed:undetected-change:{op}",
                      f"after {op} the file changed and its stat signature differs, but refreshed() "
                      f"returned an equal hash", {"op": op, "old": repr(old), "new": repr(new)})
        if not stat_differs and new is not old:
            _add_once(ctx, "oracle", "refreshed:not-self", f"oracle:refreshed:rehash-without-stat-change:{op}",
                      f"after {op} the stat signature is the recorded one but refreshed() did not return self",
                      {"op": op})
        if new.mode != st.st_mode or new.size != st.st_size or (new is not old and new.digest != hashlib.sha256(data).digest()):
            _add_once(ctx, "oracle", "refreshed:wrong-fields", f"oracle:refreshed:wrong-fields:{op}",
                      f"after {op} refreshed() returned fields that do not describe the file",
                      {"op": op, "new": repr(new)})


def _oracle_guard(ctx):
    """Implementation only: what keeps ill-formed ingredients away from StepHash.from_inp.
    (a) compute_inp_hashes never returns quietly with an unknown hash in all_hashes (missing input recorded as
        unknown -> ConsistencyError; vanished or changed input -> a message);
    (b) the sources of the strings refuse NUL: os.stat / FileHash.refreshed on a path with NUL raise ValueError
        (no FileHash of such a path can exist), os.environ refuses NUL in names and values."""
    import threading

    from stepup.core.hash import FileHash, compute_inp_hashes
    with tempfile.TemporaryDirectory(prefix="verif-c13-q-") as d:
        present = os.path.join(d, "present")
        with open(present, "wb") as fh:
            fh.write(b"data")
        rec = FileHash.unknown().refreshed(present)
        gone = os.path.join(d, "gone")
        cases = {
            "never-present-recorded-unknown": {gone: FileHash.unknown()},
            "vanished": {gone: rec},
            "present-recorded-unknown": {present: FileHash.unknown()},
            "mixed": {present: rec, gone: FileHash.unknown()},
        }
        asdir = os.path.join(d, "asdir")
        with open(asdir, "wb") as fh:
            fh.write(b"was a file")
        rec_dir = FileHash.unknown().refreshed(asdir)
        os.remove(asdir)
        os.mkdir(asdir)
        cases["replaced-by-directory"] = {asdir: rec_dir}
        cases["replaced-by-directory-and-unchanged"] = {asdir: rec_dir, present: rec}
        with open(present, "ab") as fh:
            pass
        for name, olds in cases.items():
            ctx.case(("guard", name), True)
            try:
                res = compute_inp_hashes(olds, threading.Event())
            except Exception as e:  # noqa: BLE001
                ctx.count("guard_raises_" + type(e).__name__)
                continue
            unknown = [p for p, h in res.all_hashes.items() if h.is_unknown]
            if not res.messages and unknown:
                ctx.add_failure("oracle", "guard:unknown-input-reaches-from_inp",
                                f"oracle:guard:unknown-input-passes-compute_inp_hashes:{name}",
                                "compute_inp_hashes returned without messages although all_hashes holds an unknown "
                                "hash: the executor would hand it to StepHash.from_inp (D2 ambiguity on the input side)",
                                witness={"case": name, "olds": {os.path.basename(p): repr(h) for p, h in olds.items()},
                                         "unknown": [os.path.basename(p) for p in unknown]})
            if not res.messages and any(res.all_hashes[p] != olds[p] for p in olds):
                ctx.add_failure("oracle", "guard:changed-input-reaches-from_inp",
                                f"oracle:guard:changed-input-passes-compute_inp_hashes:{name}",
                                "compute_inp_hashes returned without messages although a hash differs from the recorded one",
                                witness={"case": name})
    for what, fn in (("os.stat", lambda: os.stat("a\0b")),
                     ("FileHash.refreshed", lambda: FileHash.unknown().refreshed("a\0b")),
                     ("os.environ name", lambda: os.environ.__setitem__("C13\0X", "v")),
                     ("os.environ value", lambda: os.environ.__setitem__("C13_NULPROBE", "a\0b"))):
        ctx.case(("nul-refused", what), True)
        try:
            fn()
        except ValueError:
            ctx.count("nul_refused")
            continue
        except Exception as e:  # noqa: BLE001
            ctx.notes.append(f"NUL probe {what}: {type(e).__name__}")
            continue
        os.environ.pop("C13\0X", None)
        os.environ.pop("C13_NULPROBE", None)
        ctx.add_failure("oracle", "nul-accepted", f"oracle:nul-accepted:{what}",
                        f"{what} accepts a string with an embedded NUL: the NUL-freeness the injectivity theorems assume "
                        "is not guaranteed by this source", witness={"source": what})


def _oracle_concurrent_digests(ctx, nfile, nround):
    """Hash computations run in ThreadWorker threads, one per job in flight.  N jobs hashing different
    multi-chunk files at the same time (real ThreadWorker + compute_inp_hashes + FileHash.refreshed +
    compute_file_digest, and plain threads on compute_file_digest) must each get hashlib.sha256 of their
    own file, must not report an untouched file as changed, and distinct contents must not share a digest."""
    import asyncio
    import functools
    import threading

    from stepup.core.hash import HASH_CHUNK_SIZE, FileHash, compute_file_digest, compute_inp_hashes
    from stepup.core.run import ThreadWorker
    rng = ctx.rng
    with tempfile.TemporaryDirectory(prefix="verif-c13-t-") as d:
        files = {}
        for i in range(nfile):
            path = os.path.join(d, f"big{i}.bin")
            data = rng.randbytes(rng.choice([9, 17, 24]) * HASH_CHUNK_SIZE + rng.randrange(1, 5000))
            with open(path, "wb") as fh:
                fh.write(data)
            files[path] = hashlib.sha256(data).digest()
        recorded = {}
        for path, want in files.items():   # one at a time
            recorded[path] = FileHash.unknown().refreshed(path)
            if recorded[path].digest != want:
                ctx.add_failure("oracle", "digest:sequential", "oracle:file-digest:not-sha256-of-content:sequential",
                                "FileHash.refreshed of a multi-chunk file, alone, is not hashlib.sha256 of its content",
                                witness={"size": os.path.getsize(path), "expected": want.hex(),
                                         "got": recorded[path].digest.hex()})
                return

        async def jobs():
            workers = [ThreadWorker(work=functools.partial(compute_inp_hashes, {p: h}), job_i=k)
                       for k, (p, h) in enumerate(recorded.items())]
            return await asyncio.wait_for(asyncio.gather(*(w.run_in_thread() for w in workers)), 600)

        for r in range(nround):
            for path in files:     # touched, content untouched: forces a re-hash
                st = os.stat(path)
                os.utime(path, ns=(st.st_atime_ns, st.st_mtime_ns + (r + 1) * 10 ** 9))
            ctx.case(("concurrent-digests", "ThreadWorker", nfile, r), True)
            loop = asyncio.new_event_loop()
            try:
                results = loop.run_until_complete(jobs())
            finally:
                loop.run_until_complete(loop.shutdown_default_executor())
                loop.close()
            bad = []
            for (path, want), res in zip(files.items(), results):
                got = res.all_hashes[path].digest
                if got != want or res.messages:
                    bad.append({"file": os.path.basename(path), "size": os.path.getsize(path), "sha256_of_content": want.hex(),
                                "digest_from_hash_thread": got.hex(), "messages": res.messages})
            if bad:
                ctx.add_failure("oracle", "digest:concurrent", "oracle:file-digest:not-sha256-of-content:concurrent-hash-threads",
                                f"{len(bad)} of {nfile} files hashed by concurrent ThreadWorker jobs (compute_inp_hashes, one file "
                                "each, content untouched, mtime bumped) got a digest that is not hashlib.sha256 of their content "
                                "and / or were reported as changed; the same files hashed one at a time are fine",
                                witness={"round": r, "concurrent_jobs": nfile, "chunk_size": HASH_CHUNK_SIZE, "wrong": bad[:4]})
                return
            # plain threads on compute_file_digest, released together
            out, barrier = {}, threading.Barrier(nfile)

            def work(p):
                barrier.wait(60)
                out[p] = compute_file_digest(p)
            ts = [threading.Thread(target=work, args=(p,)) for p in files]
            for t in ts:
                t.start()
            for t in ts:
                t.join(600)
            ctx.case(("concurrent-digests", "threads", nfile, r), True)
            wrong = [{"file": os.path.basename(p), "sha256_of_content": files[p].hex(), "compute_file_digest": out.get(p, b"").hex()}
                     for p in files if out.get(p) != files[p]]
            if wrong:
                ctx.add_failure("oracle", "digest:concurrent-threads",
                                "oracle:file-digest:not-sha256-of-content:concurrent-compute_file_digest",
                                f"{len(wrong)} of {nfile} concurrent compute_file_digest calls on different files returned a digest "
                                "that is not hashlib.sha256 of the file", witness={"round": r, "wrong": wrong[:4]})
                return
            ctx.count("concurrent_digest_rounds_ok")


def oracle(ctx):
    _oracle_guard(ctx)
    _oracle_skip(ctx)
    _oracle_concurrent_digests(ctx, 6, ctx.scale(2, 8))
    _oracle_ambiguity(ctx, ctx.scale(60, 1000))
    _oracle_pairs(ctx, ctx.scale(1300, 20000))
    _oracle_json(ctx, ctx.scale(60, 1000))
    _oracle_refreshed(ctx, ctx.scale(56, 560))
    _oracle_sites(ctx, ctx.scale(4, 40))
    ctx.sample({"oracle": "one-ingredient pairs (hash.py and the real executor path), order independence, ambiguity "
                          "generators, JSON, refreshed on disk"})


def search(ctx):
    """An obligation or the translator broke and nothing produced a witness: run the oracle deeper."""
    _oracle_concurrent_digests(ctx, 8, 6)
    _oracle_sites(ctx, 40)
    if any(f.witness is not None and f.kind == "oracle" and f.signature.startswith("oracle:site:")
           for f in ctx.failures):
        return
    _oracle_ambiguity(ctx, 2000)
    _oracle_pairs(ctx, 30000)
    _oracle_refreshed(ctx, 560)


def replay(ctx, obj):
    w = obj["failure"].get("witness") or {}
    print("replaying", json.dumps(w)[:600])
    if "s1" in w and "s2" in w:
        from . import c13_exec as X
        with X.Runner() as runner:
            for nm in ("s1", "s2"):
                r = runner.run(w[nm])
                print(nm, "label", repr(r["label"]), "tracked",
                      {k: X.effective(w[nm], k) for k in w[nm]["env_deps"]}, "overrides", w[nm]["ovrs"])
                print(nm, "inp digest (_compute_inp_step_hash)", r["inp"][0].hex(), "(_compute_full_step_hash)",
                      r["full"][0].hex(), "out digest", r["full"][2].hex())
                print(nm, "bytes hashed:", r["inp"][1])
    if "c1" in w and "c2" in w:
        c1, c2 = _from_jsonable(w["c1"]), _from_jsonable(w["c2"])
        d1, d2 = impl_digests(c1, explained=False), impl_digests(c2, explained=False)
        print("c1 inp/out digest", d1[0].hex(), d1[1].hex())
        print("c2 inp/out digest", d2[0].hex(), d2[1].hex())
        print("same configuration:", _same_cfg(c1, c2, ("label", "shell", "inps", "envs", "ovrs", "outs")))
    correspondence(ctx)
    oracle(ctx)
