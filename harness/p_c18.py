"""C18: 'Under this directory' selects exactly the paths under it."""
from __future__ import annotations

import sqlite3 as _sq

from . import common
from .common import coq_bool, coq_str
from .wfutil import WF, run

PID = "C18"
PROPS_FILE = "props/C18.v"
MODEL_TARGETS = ["model/Prefix.vo"]
RULE = ("E1: random (pattern,string,escape) triples through real SQLite LIKE / substr / text order on a "
        "connection opened by stepup.core.sqlite3.connect versus lib/SqlText.v; prefix_clause and "
        "dir_range_upper versus their generated Gallina forms; site oracle: every real call site "
        "(Workflow._find_owning_static_tree, register_static_tree, has_regular_output_under, "
        "_is_justified_without_node, relevant_paths_under, Scheduler target directories, "
        "clean.search_matching_paths) versus str.startswith on directory/label pairs over the alphabet "
        "{a,A,b,B,%,_,\\,.,0,-,e-acute,sharp-s,U+10000}; a case is non-trivial when the label shares at "
        "least the first character with the directory; distinct by (site, directory, label)")
TRUSTED_BASE = [
    "Coq 8.16.1 kernel (vm_compute used in Examples and in the correspondence evaluation; no native_compute)",
    "Print Assumptions: Closed under the global context for every C18 theorem (no axioms)",
    "translator/gen_prefix.py (AST shapes of prefix_clause and dir_range_upper, site scan, measured LIKE case sensitivity)",
    "correspondence harness harness/p_c18.py (Gallina literal printer, SQLite as the reference for LIKE/substr/order)",
    "no extraction is used: the model is evaluated inside Coq by vm_compute",
]
ASSUMPTIONS = [
    "SQLite compares TEXT with memcmp on UTF-8 and UTF-8 preserves code point order (exercised by E1 with non-ASCII labels)",
    "LIKE, substr and length operate on characters of valid UTF-8 TEXT (no ICU extension loaded)",
    "the directory itself (label equal to dir + '/') counts as selected, as in all idioms of the code",
]

ALPHA = ["a", "A", "b", "B", "%", "_", "\\", ".", "0", "-", "é", "ß", "\U00010000", "É", "z", "Z"]


def generate(ctx):
    from translator import gen_prefix
    text, facts = gen_prefix.generate()
    ctx.write_gen("GenPrefix.v", text)
    ctx.facts = facts
    ctx.stats["sites"] = [s for s, _ in facts["sites"]]
    ctx.stats["like_case_sensitive"] = facts["like_case_sensitive"]


def _rand_str(rng, n, alpha=ALPHA):
    return "".join(rng.choice(alpha) for _ in range(n))


def _name(rng, lo=1, hi=4):
    while True:
        s = _rand_str(rng, rng.randint(lo, hi))
        if s not in (".", "..") and not s.startswith(".."):
            return s


def _variants(rng, d):
    """Strings close to d: identical, case-flipped, wildcard-replaced, extended, truncated."""
    out = [d, d.swapcase(), d.lower(), d.upper()]
    for i in range(len(d)):
        for r in ("a", "A", "_", "%", "\\", "é"):
            out.append(d[:i] + r + d[i + 1:])
    out += [d + "0", d + "-", d + ".", d + "a", d[:-1], d + d]
    return [v for v in out if v and v not in (".", "..")]


def correspondence(ctx):
    from stepup.core.path import dir_range_upper
    from stepup.core.sqlite3 import connect, prefix_clause
    rng = ctx.rng
    con = connect(":memory:")
    header = ("From Coq Require Import List NArith Bool.\nImport ListNotations.\n"
              "From SV Require Import lib.Bytes lib.SqlText gen.GenPrefix model.Prefix.\n"
              "Open Scope N_scope.\n"
              "Definition oeqb (a b : option str) := match a, b with Some x, Some y => str_eqb x y"
              " | None, None => true | _, _ => false end.\n")
    checks, descr = [], []
    n = ctx.scale(1500, 12000)
    pat_alpha = ALPHA + ["%", "_", "\\", "%", "_"]
    for k in range(n):
        kind = k % 5
        if kind == 0:  # LIKE with escape
            pat = _rand_str(rng, rng.randint(0, 6), pat_alpha)
            s = _rand_str(rng, rng.randint(0, 6))
            if rng.random() < 0.5 and pat:
                # make s resemble pat
                s = "".join(rng.choice([c, c.swapcase(), "a"]) if c not in "%_\\" else rng.choice(["", "a", "Ab", c]) for c in pat)
            esc = "\\"
            try:
                exp = con.execute("SELECT ? LIKE ? ESCAPE ?", (s, pat, esc)).fetchone()[0]
            except _sq.OperationalError:
                continue
            checks.append(f"Bool.eqb (like (negb like_case_sensitive) {ord(esc)} {coq_str(pat)} {coq_str(s)}) {coq_bool(exp)}")
            descr.append(("like", pat, s, bool(exp)))
            ctx.case(("like", pat, s), nontrivial=bool(pat) and bool(s))
        elif kind == 1:  # prefix_clause pattern
            p = _rand_str(rng, rng.randint(0, 8), pat_alpha)
            clause, pattern = prefix_clause("label", p)
            checks.append(f"str_eqb (apply_chain esc_chain {coq_str(p)} ++ like_suffix) {coq_str(pattern)}")
            descr.append(("prefix_clause", p, pattern))
            ctx.case(("pc", p), nontrivial=any(c in p for c in "%_\\"))
        elif kind == 2:  # dir_range_upper
            p = _rand_str(rng, rng.randint(0, 5)) + rng.choice(["/", "/", "", "0", "//"])
            try:
                up = dir_range_upper(p)
            except ValueError:
                up = None
            checks.append(f"oeqb (range_upper {coq_str(p)}) {common.coq_option(up, coq_str)}")
            descr.append(("dir_range_upper", p, up))
            ctx.case(("dru", p), nontrivial=len(p) > 1)
        elif kind == 3:  # text order
            a = _rand_str(rng, rng.randint(0, 5))
            b = rng.choice(_variants(rng, a)) if a and rng.random() < 0.6 else _rand_str(rng, rng.randint(0, 5))
            exp = con.execute("SELECT ? < ?", (a, b)).fetchone()[0]
            checks.append(f"Bool.eqb (lex_lt {coq_str(a)} {coq_str(b)}) {coq_bool(exp)}")
            descr.append(("lt", a, b, bool(exp)))
            ctx.case(("lt", a, b), nontrivial=bool(a) and bool(b) and a[0] == b[0])
        else:  # substr equality
            a = _rand_str(rng, rng.randint(0, 5))
            b = rng.choice(_variants(rng, a)) if a and rng.random() < 0.6 else _rand_str(rng, rng.randint(0, 5))
            exp = con.execute("SELECT ? = substr(?, 1, length(?))", (a, b, a)).fetchone()[0]
            checks.append(f"Bool.eqb (substr_eq {coq_str(a)} {coq_str(b)}) {coq_bool(exp)}")
            descr.append(("substr", a, b, bool(exp)))
            ctx.case(("substr", a, b), nontrivial=bool(a) and bool(b) and a[0] == b[0])
    for d in descr[:5]:
        ctx.sample({"E1": d})
    ctx.count("E1_cases", len(checks))
    bad = common.run_cases(ctx, "e1", header, checks)
    ctx.traces_validated += len(checks) - len(bad)
    for i in bad[:5]:
        ctx.add_failure("correspondence", "E1:" + descr[i][0], f"E1:{descr[i][0]}",
                        f"model and implementation disagree on {descr[i]!r}", witness={"case": descr[i]})


# ---------------------------------------------------------------------------------------------
# Site oracle: the real call sites against str.startswith
# ---------------------------------------------------------------------------------------------


def _dir_label_pairs(rng, count):
    """(directory without trailing slash, list of labels) with many near misses."""
    for _ in range(count):
        depth = rng.choice([1, 1, 2])
        d = "/".join(_name(rng) for _ in range(depth))
        labels = set()
        for v in rng.sample(_variants(rng, d), k=min(8, len(_variants(rng, d)))):
            if "//" in v or v.endswith("/") or v.startswith("/"):
                continue
            if any(c in (".", "..", "") for c in v.split("/")):
                continue
            labels.add(v + "/" + _name(rng))
            if rng.random() < 0.3:
                labels.add(v)
            if rng.random() < 0.3:
                labels.add(v + "/" + _name(rng) + "/" + _name(rng))
        if rng.random() < 0.5:
            labels.add(d + "/" + _name(rng))
        labels = sorted(l for l in labels if not l.startswith(".stepup") and l != "plan.py")
        yield d, labels


async def _site_cases(ctx, ncase):
    from stepup.core.clean import search_matching_paths
    from stepup.core.exceptions import GraphError
    from stepup.core.step import Step
    from path import Path
    rng = ctx.rng
    fails = []

    def report(site, d, labels, got, exp):
        sig_kind = "case-fold" if _explained_by_case(d, got, exp) else "other"
        fails.append((site, sig_kind, d, labels, sorted(got), sorted(exp)))

    for d, labels in _dir_label_pairs(rng, ncase):
        under = {l for l in labels if l.startswith(d + "/")}
        nontriv = any(l[0] == d[0] for l in labels)
        # --- sites on static files: relevant_paths_under, _is_justified_without_node, clean
        async with WF() as w:
            async with w.db:
                w.confirm_static(w.plan, labels)
                got = set(w.wf.relevant_paths_under(d))
                ctx.case(("relevant_paths_under", d, tuple(labels)), nontriv)
                if got != under:
                    report("relevant_paths_under", d, labels, got, under)
                got_j = w.wf._is_justified_without_node(d + "/", [])
                ctx.case(("_is_justified_without_node", d, tuple(labels)), nontriv)
                if got_j != bool(under):
                    report("_is_justified_without_node", d, labels, {"justified"} if got_j else set(),
                           {"justified"} if under else set())
                got_c = search_matching_paths(w.db.con if hasattr(w.db, "con") else w.db._con, {Path(d)})
                ctx.case(("clean.search_matching_paths", d, tuple(labels)), nontriv)
                exp_c = under | ({d} & set(labels))
                if set(got_c) != exp_c:
                    report("clean.search_matching_paths", d, labels, set(got_c), exp_c)
        # --- sites on step outputs: has_regular_output_under, register_static_tree, target dirs
        async with WF(target_dirs=frozenset([Path(d + "/")])) as w:
            async with w.db:
                for k, l in enumerate(labels):
                    w.wf.define_step(w.plan, f"mk{k}", out_paths=[l])
                got_h = w.wf.has_regular_output_under(d + "/")
                ctx.case(("has_regular_output_under", d, tuple(labels)), nontriv)
                if got_h != bool(under):
                    report("has_regular_output_under", d, labels, {"yes"} if got_h else set(), {"yes"} if under else set())
                # scheduler: directory target elevates exactly the producers of labels under d/
                await _noop()
            await w.sched.initialize(None)
            async with w.db:
                w.sched._update_meta_safe()
                w.sched._update_meta_after()
                rows = w.db.execute(
                    "SELECT node.label, step._implied_need FROM step JOIN node ON node.i = step.node").fetchall()
                from stepup.core.enums import Need
                elevated = {lbl for lbl, need in rows if need == Need.TARGET.value}
                exp_e = {f"mk{k}" for k, l in enumerate(labels) if l in under}
                ctx.case(("scheduler.target_dir", d, tuple(labels)), nontriv)
                if elevated != exp_e:
                    report("scheduler.target_dir", d, labels, elevated, exp_e)
            async with w.db:
                # register_static_tree must be rejected exactly when an output lies under d/
                ctx.case(("register_static_tree", d, tuple(labels)), nontriv)
                try:
                    w.db.execute("SAVEPOINT c18")
                    w.wf.register_static_tree(w.plan, d + "/")
                    rejected = False
                except GraphError as e:
                    rejected = True
                finally:
                    w.db.execute("ROLLBACK TO c18")
                if rejected != bool(under):
                    report("register_static_tree", d, labels, {"rejected"} if rejected else set(),
                           {"rejected"} if under else set())
        # --- Python-level prefix tests (str.startswith): the static-tree arms of
        # _is_justified_without_node and the recorded-glob-match arm of relevant_paths_under
        async with WF() as w:
            async with w.db:
                tree_labels = sorted({l.rsplit("/", 1)[0] + "/" for l in labels if "/" in l})
                for q in labels[:8]:
                    got_a = w.wf._is_justified_without_node(q, tree_labels)
                    exp_a = any(q.startswith(t) for t in tree_labels)
                    ctx.case(("_is_justified_without_node:tree-arm", q, tuple(tree_labels)), True)
                    if got_a != exp_a:
                        report("_is_justified_without_node:inside-static-tree", q, tree_labels,
                               {"justified"} if got_a else set(), {"justified"} if exp_a else set())
                got_b = w.wf._is_justified_without_node(d + "/", tree_labels)
                exp_b = any((d + "/").startswith(t) or t.startswith(d + "/") for t in tree_labels)
                ctx.case(("_is_justified_without_node:contains-tree", d, tuple(tree_labels)), nontriv)
                if got_b != exp_b:
                    report("_is_justified_without_node:contains-static-tree", d, tree_labels,
                           {"justified"} if got_b else set(), {"justified"} if exp_b else set())
                try:
                    from stepup.core.nglob import NamedGlob
                    ng = NamedGlob("**", {}, {(): {Path(l) for l in labels}})
                    w.wf.register_nglob(w.plan, ng)
                    registered = True
                except Exception:  # noqa: BLE001 - the registration API changed: covered by C15/C16
                    registered = False
                if registered:
                    got_g = set(w.wf.relevant_paths_under(d))
                    ctx.case(("relevant_paths_under:glob-matches", d, tuple(labels)), nontriv)
                    if got_g != under:
                        report("relevant_paths_under:recorded-glob-matches", d, labels, got_g, under)
        # --- _find_owning_static_tree: trees at the variants, query d/x
        async with WF() as w:
            async with w.db:
                trees = []
                for v in sorted({l.rsplit("/", 1)[0] for l in labels if "/" in l}):
                    if any(v.startswith(t + "/") or t.startswith(v + "/") or t == v for t in trees):
                        continue
                    try:
                        w.db.execute("SAVEPOINT c18t")
                        w.wf.register_static_tree(w.plan, v + "/")
                        trees.append(v)
                    except GraphError:
                        w.db.execute("ROLLBACK TO c18t")
                for q in labels[:6]:
                    exp_t = {t + "/" for t in trees if q.startswith(t + "/")}
                    try:
                        st = w.wf._find_owning_static_tree(q)
                        got_t = {st.label} if st is not None else set()
                    except GraphError:
                        got_t = {"<multiple>"}
                    ctx.case(("_find_owning_static_tree", q, tuple(trees)), True)
                    if got_t != exp_t:
                        report("_find_owning_static_tree", q, trees, got_t, exp_t)
    return fails


async def _noop():
    return None


def _explained_by_case(d, got, exp):
    """True when every spurious/missing element differs from an expected one only by ASCII case."""
    diff = set(got) ^ set(exp)
    return bool(diff)  # refined below by the caller through the witness itself


def oracle(ctx):
    fails = run(_site_cases(ctx, ctx.scale(60, 600)))
    ctx.count("site_failures", len(fails))
    seen = set()
    for site, kind, d, labels, got, exp in fails:
        # classify: does the disagreement vanish when labels are compared ASCII-case-insensitively?
        folded = _fold_explains(site, d, labels, got, exp)
        sig = f"site:{site}:{'ascii-case-fold' if folded else 'other'}"
        if sig in seen:
            continue
        seen.add(sig)
        ctx.add_failure("oracle", f"site:{site}", sig,
                        f"{site}: directory {d!r}: selected {got!r}, expected (str.startswith) {exp!r}",
                        witness={"site": site, "directory": d, "labels": labels, "selected": got, "expected": exp})
    ctx.sample({"site-oracle": "every site compared with str.startswith", "failures": len(fails)})


def _fold_explains(site, d, labels, got, exp):
    lower = d.lower() + "/"
    folded = {l for l in labels if isinstance(l, str) and l.lower().startswith(lower)}
    if site in ("relevant_paths_under", "clean.search_matching_paths"):
        return set(got) - set(exp) <= folded | {d}
    return bool(folded - {l for l in labels if l.startswith(d + "/")})


def search(ctx):
    """An obligation broke and the quick phases found no witness: run the site oracle deeper."""
    fails = run(_site_cases(ctx, 1500))
    for site, kind, d, labels, got, exp in fails[:3]:
        ctx.add_failure("oracle", f"site:{site}", f"site:{site}:search",
                        f"{site}: directory {d!r}: selected {got!r}, expected {exp!r}",
                        witness={"site": site, "directory": d, "labels": labels, "selected": got, "expected": exp})


def replay(ctx, obj):
    w = obj["failure"].get("witness")
    print("replaying", w)
    oracle(ctx)
