"""C12: Job, resource and hold limits are never exceeded."""
from __future__ import annotations

import asyncio
import json
import tempfile

from . import common
from . import c12_loop as LP
from .wfutil import WF, run

PID = "C12"
PROPS_FILE = "props/C12.v"
MODEL_TARGETS = ["model/Limits.vo"]
RULE = ("E2: seeded sequences of define (new / full recycle / partial recycle / duplicate) / pop_next_job / "
        "reset_for_rerun / mark_completed (success, failure, defer) / hash-check verdicts / hold / release / "
        "mark_step_pending on a real Workflow+Scheduler (in-memory SQLite, Scheduler.initialize('cpu:3,gpu:1,...')) "
        "versus model/Limits.v evaluated inside Coq: after every operation acceptance, every step row (creator, "
        "attached, state, _holding, _has_hash, step_resource) and, at every dispatch, the whole eligible set "
        "(SELECT_NEXT_STEP without LIMIT) are compared; the real pop choice must be a member. "
        "Oracle A: at every real dispatch of those sequences the three limits are checked on the implementation "
        "with a Python ghost of the executing commands. Oracle B (E3): generated projects (plans with nested hold "
        "blocks, resources, failures inside hold blocks, njob 1..4, seeded completion order) on the real serve(); "
        "start/stop stamps of every simulated command are checked against njob, availability, undefined names and "
        "open hold blocks of the declaring command. B3: generated projects whose steps call amend(inp=...) on files "
        "below a static tree that still need hashing (the command blocks in the RPC while its promoted hash jobs run), "
        "with hash jobs queued by others (static files, declared inputs), resources, nested hold blocks, sub-plans, "
        "njob 1..3, plus directed scenarios per mechanism; same stamp checks (a command blocked in an RPC still "
        "executes). Loop correspondence: the job-loop events of those builds (recorded by run-time wrappers around the "
        "real Builder/Scheduler/Executor) are replayed by the loop model inside Coq (len(running_tasks) and the number "
        "of parked amend calls after every event), and the model's counterexample search (shortest_overrun) is "
        "evaluated with the generated slot tests. Non-trivial: at least one dispatch refused or delayed by a "
        "limit; distinct by the operation sequence / project+schedule")
TRUSTED_BASE = [
    "Coq 8.16.1 kernel; vm_compute in Examples, refutation witnesses and the correspondence evaluation",
    "Print Assumptions: Closed under the global context for every C12 theorem",
    "translator/gen_limits.py (mini SQL expression parser, statement-shape regexes, expression translator of the "
    "job_loop slot tests, AST facts about job_loop, run_promoted_hash_jobs, after_recycle, hold/release, call sites "
    "of start_task/launch_command)",
    "harness/p_c12.py (drivers, Gallina printers, ghost bookkeeping of oracle A), harness/c12_loop.py (recording "
    "wrappers around the real Builder/Scheduler/Executor, project generators) and harness/e3.py (oracle B)",
    "_safe/_safe_ignoring_hold are modelled by definition; cached column = definition is C10 (checked here in the "
    "direction C12 needs: a real dispatch is always a member of the model's eligible set)",
]
ASSUMPTIONS = [
    "a command's resource holding starts at dispatch to RUNNING and ends when mark_completed is written "
    "(conservative: the real process lives strictly inside that window; observed on every command of the B3 "
    "builds: the step row is RUNNING when Executor._run_command is entered and when it returns)",
    "asyncio runs callbacks to completion (job_loop is the only starter of tasks; structure facts in GenLimits.v; "
    "the event order of the real loop is replayed by the loop model on every run)",
    "commands are only launched from Executor.execute_job inside a task started by Builder.start_task",
    "the full resource/hold theorems (no hypothesis on the history) hold iff the generated shape flags say the "
    "recycle code is repaired (C12_resources_full_iff_repaired, C12_hold_full_iff_repaired); for the unrepaired "
    "shape: hypothesis of the _calm theorems = a step whose job is in flight is declared again only as a full recycle "
    "with unchanged resources outside hold blocks, or while only its hash check runs (calm; quiet implies calm); "
    "without it the full statements are refuted (see C12_*_refuted and findings.d/C12-*)",
]

RES = {"cpu": 1, "gpu": 2, "lic": 3, "zzz": 9}
RES_INV = {v: k for k, v in RES.items()}
SIG_CLAIMS = "recycle-of-executing-step:claims-replaced:resource-overcommitted"
SIG_RESET = "recycle-of-executing-step:row-reset:command-runs-twice"
SIG_HOLD = "recycle-of-executing-step:holding-zeroed:held-child-runs"


def generate(ctx):
    from translator import gen_limits
    ctx._c12_gen_ok = False
    try:
        text, facts = gen_limits.generate()
    except Exception:
        # fail closed, but never leave a gen file of some other tree behind: the correspondence and
        # the oracle then run against the committed golden model
        golden = common.COQ / "gen.golden" / "GenLimits.v"
        if golden.exists():
            ctx.write_gen("GenLimits.v", golden.read_text())
        raise
    ctx.write_gen("GenLimits.v", text)
    ctx.facts = facts
    ctx._c12_gen_ok = True
    shape = facts["shape"]
    ctx.count("shape:" + ("keeps-inflight" if shape["recycle_keeps_inflight"] else
                          "rejects-inflight" if shape["define_rejects_inflight"] else "unrepaired(D21)"))


def _ensure_model(ctx):
    """The framework does not build MODEL_TARGETS after a translator failure; do it here."""
    if not getattr(ctx, "_c12_gen_ok", False):
        with common.CoqLock():
            ok, log = common.coq_make(list(MODEL_TARGETS))
        if not ok:
            raise RuntimeError("model does not compile: " + common.tail(log, 600))


# ---------------------------------------------------------------------------------------------
# Gallina printers
# ---------------------------------------------------------------------------------------------


def N(n):
    return f"{int(n)}%N"


def g_claims(cl):
    return "[" + "; ".join(f"({N(RES[k])}, {N(v)})" for k, v in sorted(cl.items())) + "]"


def g_bool(b):
    return "true" if b else "false"


def g_event(e):
    k = e[0]
    if k == "meta":
        return "ESetMeta [" + "; ".join(f"({g_bool(d)}, {N(n)}, {g_bool(r)})" for d, n, r in e[1]) + "]"
    if k == "dispatch":
        return f"EDispatch {e[1]}"
    if k == "reset":
        return f"EReset {e[1]}"
    if k == "complete":
        return f"EComplete {e[1]} {e[2]} {e[3]}"
    if k == "check":
        return f"ECheckDone {e[1]} {e[2]}"
    if k == "define":
        return f"EDefine {e[1]} {N(e[2])} {N(e[3])} {g_claims(e[4])} {N(e[5])} {g_bool(e[6])}"
    if k == "hold":
        return f"EHold {e[1]} {e[2]}"
    if k == "release":
        return f"ERelease {e[1]} {e[2]}"
    if k == "markpending":
        return f"EMarkPending {e[1]}"
    raise ValueError(k)


def _ev_text(it):
    """Gallina text of the event of a trace item; a late-verdict marker is printed as such."""
    return f"(* late_verdict {it[1]} {it[2]} *)" if it[0] == "late" else g_event(it[0])


def g_obs(o):
    lbl, cr, att, stc, h, hh, cl = o
    crs = "None" if cr is None else f"(Some {N(cr)})"
    return f"({N(lbl)}, {crs}, {g_bool(att)}, {N(stc)}, {N(h)}, {g_bool(hh)}, {g_claims(cl)})"


def g_item(it):
    e, acc, obs, el = it
    els = "None" if el is None else "(Some [" + "; ".join(N(x) for x in el) + "])"
    return f"({g_event(e)}, {g_bool(acc)}, [" + "; ".join(g_obs(o) for o in obs) + f"], {els})"


HEADER = ("From Coq Require Import List NArith Bool.\nImport ListNotations.\n"
          "From SV Require Import gen.GenLimits model.Limits.\n"
          "Definition plan0 : row := mkRow 0 None true Running 0 false [] [] false need_PLAN true [mkCmd [] 0].\n")


def g_case(avail, items):
    """items may contain markers ("late", idx, verdict, obs): a verdict of a hash-check job delivered to a row that
    is no longer CHECKING (model: late_verdict, not an event); the trace is checked piecewise around them."""
    segs, cur, lates = [], [], []
    for it in items:
        if it[0] == "late":
            segs.append(cur)
            lates.append(it)
            cur = []
        else:
            cur.append(it)
    segs.append(cur)

    def tr(seg):
        return "[\n    " + ";\n    ".join(g_item(i) for i in seg) + "]"

    def evs(seg):
        return "[" + "; ".join(g_event(i[0]) for i in seg) + "]"
    state = f"(mkSys [plan0] {g_claims(avail)} need_OPTIONAL)"
    parts = []
    for k, seg in enumerate(segs):
        parts.append(f"trace_ok {state} {tr(seg)}")
        if k < len(lates):
            _, idx, c, obs = lates[k]
            state = f"(late_verdict (run {state} {evs(seg)}) {idx} {c})"
            parts.append(f"obs_ok {state} [" + "; ".join(g_obs(o) for o in obs) + "]")
    return " && ".join(f"({p})" for p in parts)


# ---------------------------------------------------------------------------------------------
# E2 driver: real Workflow + Scheduler
# ---------------------------------------------------------------------------------------------


def lab(n):
    return "./plan.py" if n == 0 else f"s{n}"


def unlab(s):
    return 0 if s == "./plan.py" else int(s[1:])


class Driver:
    """Runs one operation sequence on the real classes and records trace items + oracle A."""

    def __init__(self, w, avail, rng):
        self.w, self.avail, self.rng = w, avail, rng
        self.idx = {0: 0}                  # label number -> model index
        self.cmds = {0: [{"held": {}, "depth": 0}]}   # ghost: executing commands per label number
        self.items = []
        self.violations = []               # oracle A
        self.recycled_executing = []       # (kind, label)
        self.nontrivial = False
        self.counts = {}

    def count(self, k):
        self.counts[k] = self.counts.get(k, 0) + 1

    def dump(self):
        db = self.w.db
        rows = db.execute(
            "SELECT node.label, node.creator, node.detached, step.state, step._holding, step._has_hash, node.i "
            "FROM step JOIN node ON node.i = step.node").fetchall()
        out = {}
        for label, creator, detached, state, holding, has_hash, i in rows:
            cr = None
            if creator is not None:
                r = db.execute("SELECT label FROM node WHERE i = ? AND kind = 'step'", (creator,)).fetchone()
                cr = None if r is None else unlab(r[0])
            cl = dict(db.execute("SELECT name, units FROM step_resource WHERE node = ?", (i,)).fetchall())
            out[unlab(label)] = (unlab(label), cr, not detached, state, holding, bool(has_hash), cl)
        return [out[n] for n in sorted(out, key=lambda n: self.idx.get(n, 10 ** 6))]

    async def op(self, event, fn, eligible=None):
        """Run fn inside one transaction; rejected = it raised (transaction rolled back)."""
        from stepup.core.exceptions import GraphError, ConsistencyError
        import sqlite3
        acc = True
        try:
            async with self.w.db:
                fn()
        except (GraphError, ConsistencyError, ValueError, sqlite3.IntegrityError) as exc:
            acc = False
            self.count("rejected:" + type(exc).__name__)
        async with self.w.db:
            obs = self.dump()
        self.items.append((event, acc, obs, eligible))
        return acc

    def step(self, n):
        from stepup.core.step import Step
        return self.w.wf.find(Step, lab(n))

    # -- operations ---------------------------------------------------------------------------
    async def define(self, p, n, g, cl, need, ev=None):
        """ev: the env_overrides of the declaration; the model's oracle input eo says whether they differ
        from the stored ones (read before the call; Step.after_recycle compares them)."""
        from stepup.core.enums import Need
        existed = n in self.idx
        executing = bool(self.cmds.get(n))
        before = None
        eo = False
        if existed:
            async with self.w.db:
                before = {o[0]: o for o in self.dump()}.get(n)
                eo = (ev or {}) != self.step(n).get_env_overrides()
        if eo:
            self.count("define_env_overrides_differ")

        def fn():
            self.w.wf.define_step(self.step(p), lab(n), resources=dict(cl), need=Need(need),
                                  out_paths=[f"{lab(n)}.o{g}"] if g else [], env_overrides=ev)
        acc = await self.op(("define", self.idx[p], n, g, cl, need, eo), fn)
        if acc and not existed:
            self.idx[n] = len(self.idx)
            self.cmds[n] = []
        from stepup.core.enums import StepState as _SS
        checking = before is not None and before[3] == _SS.CHECKING.value
        if acc and existed and (executing or checking):
            after = self.items[-1][2]
            after = {o[0]: o for o in after}.get(n)
            # benign (C12_*_calm): state, _holding and step_resource of the executing step are what they were;
            # only a re-declaration that changed one of them can be behind a D21 violation
            if before is not None and after is not None and before[3:5] == after[3:5] and before[6] == after[6]:
                self.count("recycled_executing_benign")
            else:
                self.recycled_executing.append(n)
                self.count("recycled_executing")
        self.count("define_ok" if acc else "define_rejected")
        if acc and existed:
            self.count("recycle")

    async def pop(self):
        from stepup.core.scheduler import SELECT_NEXT_STEP
        from stepup.core.enums import StepState
        sched, db = self.w.sched, self.w.db
        async with db:
            sched._update_meta_safe()
            sched._update_meta_after()
            sched._update_meta_ready()
            obs = self.dump()
            by = {o[0]: o for o in obs}

            def spec(n, hold):
                a, seen = by[n][1], set()
                while a is not None and a not in seen:
                    seen.add(a)
                    o = by[a]
                    if o[3] not in (StepState.RUNNING.value, StepState.SUCCEEDED.value) or (hold and o[4] != 0):
                        return False
                    a = o[1]
                return True
            meta = {}
            for label, d, n, r, sf, snh, hh in db.execute(
                    "SELECT node.label, step.deferred, step._implied_need, step._ready, step._safe, "
                    "step._safe_ignoring_hold, step._has_hash FROM step JOIN node ON node.i = step.node"):
                m = unlab(label)
                real_part = bool(sf) or (bool(hh) and bool(snh))
                spec_part = spec(m, True) or (bool(hh) and spec(m, False))
                if real_part and not spec_part:
                    self.violations.append(("safe-column-unsound", f"{label}: _safe/_safe_ignoring_hold admit dispatch although an "
                                            "ancestor is not RUNNING/SUCCEEDED or holds", None))
                stale = spec_part and not real_part
                if stale:
                    # cached column more conservative than its definition (C10's concern, not a limit
                    # violation): the row is taken out of the oracle-provided eligible set
                    self.count("safe_column_conservative")
                meta[m] = (bool(d), n, bool(r) and not stale)
            sql = SELECT_NEXT_STEP.rsplit("LIMIT 1", 1)[0]
            elig = sorted(unlab(r[1]) for r in db.execute(sql, (self.w.wf.need_threshold.value,)))
        order = sorted(meta, key=lambda n: self.idx[n])
        self.items.append((("meta", [meta[n] for n in order]), True, obs, elig))
        pending_blocked = [o for o in obs if o[3] == StepState.PENDING.value and o[2] and o[0] not in elig]
        if pending_blocked:
            self.nontrivial = True
        job = await sched.pop_next_job()
        if job is None:
            self.count("pop_none")
            if elig:
                self.violations.append(("pop-none-with-eligible", "pop_next_job returned None although "
                                        f"{[lab(n) for n in elig]} are eligible", None))
            return None
        n = unlab(job.step.label)
        async with db:
            obs = self.dump()
            state = job.step.get_state()
        self.items.append((("dispatch", self.idx[n]), True, obs, None))
        if n not in elig:
            self.violations.append(("pop-not-eligible", f"pop_next_job chose {lab(n)}, not in the eligible set", None))
        if state == StepState.RUNNING:
            self.count("dispatch_running")
            row = [o for o in obs if o[0] == n][0]
            self.cmds[n].append({"held": dict(row[6]), "depth": 0})
            self.oracle_at_dispatch(n, obs)
            if job.runs_command is False:
                self.violations.append(("running-without-command", f"{lab(n)} RUNNING but the job runs no command", None))
        else:
            self.count("dispatch_checking")
            if job.runs_command:
                self.violations.append(("checking-runs-command", f"{lab(n)} is CHECKING but its job runs the command", None))
        return n, state

    def oracle_at_dispatch(self, n, obs):
        """Property checks on the implementation at the instant step n starts executing."""
        rec = bool(self.recycled_executing)
        totals = {}
        for m, lst in self.cmds.items():
            for c in lst:
                for name, units in c["held"].items():
                    totals[name] = totals.get(name, 0) + units
        for name, units in totals.items():
            if name not in self.avail:
                self.violations.append(("undefined-resource-runs", f"{lab(n)} started; executing commands hold undefined resource {name}", None))
            elif units > self.avail[name]:
                twice = any(len(lst) > 1 for lst in self.cmds.values())
                sig = (SIG_RESET if twice else SIG_CLAIMS) if rec else "resource-overcommitted"
                self.violations.append((sig, f"{lab(n)} started; executing commands hold {units} {name} of {self.avail[name]}", None))
        if any(len(lst) > 1 for lst in self.cmds.values()) and not rec:
            self.violations.append(("command-runs-twice", f"{lab(n)} executes twice at once", None))
        by = {o[0]: o for o in obs}
        a = by[n][1]
        seen = set()
        while a is not None and a not in seen:
            seen.add(a)
            for c in self.cmds.get(a, []):
                if c["depth"] > 0:
                    sig = SIG_HOLD if rec else "held-child-runs"
                    self.violations.append((sig, f"{lab(n)} started while its ancestor {lab(a)} has an open hold block (depth {c['depth']})", None))
            a = by[a][1] if a in by else None

    async def reset(self, n):
        await self.op(("reset", self.idx[n]), lambda: self.step(n).reset_for_rerun())

    async def complete(self, n, k, o):
        from stepup.core.hash import StepHash

        def fn():
            st = self.step(n)
            if o == "OSucc":
                st.mark_completed(StepHash(b"i" * 32, None, b"o" * 32, None), False)
            else:
                st.mark_completed(None, o == "ODefer")
        acc = await self.op(("complete", self.idx[n], k, o), fn)
        if acc:
            del self.cmds[n][k]
        self.count("complete:" + o)

    async def check(self, n, c):
        from stepup.core.hash import StepHash
        from stepup.core.enums import StepState

        def fn():
            st = self.step(n)
            if c == "CSkip":
                st.mark_completed(StepHash(b"i" * 32, None, b"o" * 32, None), False)
            elif c == "CMismatch":
                st.reset_for_rerun()
                st.delete_hash()
                st.set_state(StepState.PENDING)
            else:
                st.set_state(StepState.PENDING)
        await self.op(("check", self.idx[n], c), fn)
        self.count("check:" + c)

    async def late_check(self, n, c):
        """The verdict of a hash-check job that is still in flight although the row is no longer CHECKING (possible
        after a partial recycle of a CHECKING step): the same writes as `check`, recorded as a marker."""
        from stepup.core.enums import StepState

        def fn():
            st = self.step(n)
            if c == "CMismatch":
                st.reset_for_rerun()
                st.delete_hash()
                st.set_state(StepState.PENDING)
            else:
                st.set_state(StepState.PENDING)
        async with self.w.db:
            fn()
        async with self.w.db:
            obs = self.dump()
        self.items.append(("late", self.idx[n], c, obs))
        self.count("late_verdict:" + c)

    async def hold(self, n, k):
        acc = await self.op(("hold", self.idx[n], k), lambda: self.step(n).hold())
        if acc:
            self.cmds[n][k]["depth"] += 1
        self.count("hold")

    async def release(self, n, k):
        acc = await self.op(("release", self.idx[n], k), lambda: self.step(n).release())
        if acc:
            self.cmds[n][k]["depth"] -= 1
        self.count("release_ok" if acc else "release_rejected")

    async def markpending(self, n):
        await self.op(("markpending", self.idx[n]), lambda: self.w.wf.mark_step_pending(self.step(n)))
        self.count("markpending")


def _rand_claims(rng):
    r = rng.random()
    if r < 0.35:
        return {}
    names = ["cpu", "gpu", "lic"] + (["zzz"] if rng.random() < 0.12 else [])
    k = 1 if r < 0.8 else 2
    return {n: rng.randint(1, 2) for n in rng.sample(names, k)}


async def _one_trace(rng, length, script=None, avail=None):
    from stepup.core.enums import Need, StepState
    fixed = avail
    avail = {"cpu": rng.choice([1, 2, 3]), "gpu": rng.choice([1, 1, 2])}
    if rng.random() < 0.5:
        avail["lic"] = rng.choice([0, 1])
    if fixed is not None:
        avail = dict(fixed)
    spec = ",".join(f"{k}:{v}" for k, v in avail.items())
    async with WF() as w:
        await w.sched.initialize(spec)
        d = Driver(w, avail, rng)
        if script is not None:
            await script(d)
            return d
        nxt = 1
        for _ in range(length):
            executing = [(n, k) for n, lst in d.cmds.items() for k in range(len(lst))]
            async with w.db:
                obs = d.dump()
            checking = [o[0] for o in obs if o[3] == StepState.CHECKING.value]
            r = rng.random()
            if r < 0.24:
                res = await d.pop()
                if res is not None and res[1] == StepState.RUNNING and rng.random() < 0.85:
                    await d.reset(res[0])
            elif r < 0.58 and executing:
                p = rng.choice(executing)[0]
                existing = [n for n in d.idx if n != 0]
                detached = [o[0] for o in obs if not o[2]]
                if detached and rng.random() < 0.6:
                    n = rng.choice(detached)
                elif existing and rng.random() < 0.15:
                    n = rng.choice(existing)
                else:
                    n, nxt = nxt, nxt + 1
                g = rng.choice([0, 0, 0, 1, 2])
                rn = rng.random()
                need = Need.DEFAULT.value if rn < 0.8 else Need.OPTIONAL.value if rn < 0.88 else Need.PLAN.value
                if n != p:
                    await d.define(p, n, g, _rand_claims(rng), need,
                                   ev=rng.choice([None, None, None, {"A": "1"}, {"A": "2"}]))
            elif r < 0.72 and executing:
                cand = [e for e in executing if e[0] != 0] or executing
                n, k = rng.choice(cand)
                if n != 0 or rng.random() < 0.1:
                    await d.complete(n, k, rng.choice(["OSucc", "OSucc", "OFail", "ODefer", "ODefer"]))
            elif r < 0.80 and checking:
                await d.check(rng.choice(checking), rng.choice(["CSkip", "CMismatch", "CMismatch", "CValid"]))
            elif r < 0.90 and executing:
                n, k = rng.choice(executing)
                if rng.random() < 0.55:
                    await d.hold(n, k)
                else:
                    await d.release(n, k)
            elif r < 0.94:
                done = [o[0] for o in obs if o[3] in (StepState.SUCCEEDED.value, StepState.FAILED.value)]
                cand = done if done and rng.random() < 0.8 else [n for n in d.idx if n != 0]
                if cand:
                    await d.markpending(rng.choice(cand))
            else:
                res = await d.pop()
        return d


def _recycle_script(rng):
    """A history that declares a detached step again while its job is in flight (the situation of D21
    and of its repairs), with seeded variations: job kind (command executing / hash check under way),
    full or partial recycle, claims of both declarations, open hold blocks, a child declared under the
    hold, a competitor for the resource. The random generator reaches this in about 1 of 300 traces."""
    from stepup.core.enums import Need, StepState
    kind = rng.choice(["running", "running", "checking"])
    g2 = rng.choice([0, 1])
    cl1 = rng.choice([{"gpu": 1}, {"gpu": 1}, {"cpu": 1}, {}])
    cl2 = rng.choice([{}, {"gpu": 1}, {"cpu": 2}, cl1, cl1, cl1])
    nhold = rng.choice([0, 0, 1, 1, 2])
    ev2 = rng.choice([None, None, {"A": "1"}])
    dn = Need.DEFAULT.value

    async def popr(d):
        res = await d.pop()
        if res is not None and res[1] == StepState.RUNNING:
            await d.reset(res[0])
        return res

    async def state_of(d, n):
        async with d.w.db:
            return {o[0]: o[3] for o in d.dump()}.get(n)

    async def script(d):
        await d.define(0, 1, 0, {}, dn)
        await popr(d)                                   # P = 1 executes
        await d.define(1, 2, 0, cl1, dn)                # P declares S = 2
        await popr(d)                                   # S executes
        if kind == "checking":
            await d.complete(2, 0, "OSucc")             # S gets a stored hash ...
            await d.markpending(2)
            await d.pop()                               # ... and is dispatched for a hash check
        else:
            for _ in range(nhold):
                await d.hold(2, 0)
            await d.define(2, 3, 0, {}, dn)             # child C = 3, under the open hold if nhold > 0
        await d.complete(1, 0, "ODefer")                # P ends, wants to run again
        for _ in range(3):                              # P executes again: S (in flight) is detached
            res = await popr(d)
            if res is None or res[0] == 1:
                break
        await d.define(1, 2, g2, cl2, dn, ev=ev2)       # ... and declared again
        await d.define(1, 4, 0, {"gpu": 1}, dn)         # a competitor for the gpu
        for _ in range(3):
            await popr(d)
        if kind == "checking":
            if await state_of(d, 2) == StepState.CHECKING.value:
                await d.check(2, rng.choice(["CSkip", "CMismatch", "CValid"]))
        else:
            for _ in range(nhold):
                await d.release(2, 0)
        for n in (2, 4, 3):
            while d.cmds.get(n):
                await d.complete(n, 0, rng.choice(["OSucc", "OSucc", "OFail"]))
        for _ in range(3):
            await popr(d)
        d.count("script:" + kind + (":partial" if g2 else ":full"))
    return script


def _late_verdict_script():
    """C12_resources_full_refuted_late_verdict on the real Workflow + Scheduler (gpu:1): S is CHECKING when the
    deferred P runs again and declares it with another output; S is checked again; the first verdict drops the
    hash, S executes; the second verdict reaches the RUNNING row; S is dispatched a second time."""
    from stepup.core.enums import Need, StepState
    dn = Need.DEFAULT.value

    async def script(d):
        await d.define(0, 1, 0, {}, dn)
        res = await d.pop()
        await d.reset(res[0])                            # P = 1 executes
        await d.define(1, 2, 0, {"gpu": 1}, dn)
        res = await d.pop()
        await d.reset(res[0])                            # S = 2 executes
        await d.complete(2, 0, "OSucc")
        await d.markpending(2)
        await d.pop()                                    # S CHECKING (first job)
        await d.complete(1, 0, "ODefer")
        res = await d.pop()
        await d.reset(res[0])                            # P again: S detached
        await d.define(1, 2, 1, {"gpu": 1}, dn)          # other output: partial recycle, row reset to PENDING
        await d.pop()                                    # S CHECKING again (second job)
        await d.check(2, "CMismatch")                    # verdict of the first job
        res = await d.pop()
        await d.reset(res[0])                            # S executes, holds the gpu
        await d.late_check(2, "CMismatch")               # verdict of the second job reaches the RUNNING row
        await d.pop()                                    # S dispatched again: two commands of S
        d.count("script:late-verdict")
    return script


def _run_scripts(ctx, n):
    out = [run(asyncio.wait_for(_one_trace(__import__("random").Random(7), 0, script=_late_verdict_script(), avail={"gpu": 1}), 120))]
    for _ in range(n):
        sub = __import__("random").Random(ctx.rng.getrandbits(48))
        out.append(run(asyncio.wait_for(_one_trace(sub, 0, script=_recycle_script(sub)), 120)))
    return out


def _run_traces(ctx, n, length):
    """Returns (cases, drivers)."""
    drivers = []
    for _ in range(n):
        sub = __import__("random").Random(ctx.rng.getrandbits(48))
        drivers.append(run(asyncio.wait_for(_one_trace(sub, length), 120)))
    return drivers


def _b3_runs(ctx):
    """The B3 builds (directed scenarios + generated amend projects), run once per check and shared by
    the loop correspondence and the oracle. Each entry: dict(name, proj, njob, avail, schedule, declared_in,
    res, rec)."""
    runs = getattr(ctx, "_c12_b3", None)
    if runs is not None:
        return runs
    runs = []
    ctx._c12_b3 = runs
    LP.WAITING_ATTRS = list((getattr(ctx, "facts", None) or {}).get("facts", {}).get("waiting_counters", []))
    directed = [("amend-slot:njob=1", LP.scenario_amend_slot(1, 1), 1),
                ("amend-slot:njob=2", LP.scenario_amend_slot(2, 2, with_static=True), 2),
                ("amend-slot:small-file", LP.scenario_amend_slot(1, 1, big=False), 1),
                ("resource-amend", LP.scenario_resource_amend(), 2),
                ("hold-amend", LP.scenario_hold_amend(), 2),
                ("over-release", LP.scenario_over_release(), 3),
                ("hold-plan", LP.scenario_hold_plan(), 3)]
    for name, (proj, avail, din), njob in directed:
        for schedule in (None, {"seed": 1, "points": ["start", "end"]}):
            res, rec = LP.run_build(proj, njob, avail, schedule)
            runs.append({"name": name, "proj": proj, "njob": njob, "avail": avail, "schedule": schedule,
                         "declared_in": din, "res": res, "rec": rec})
    for _ in range(ctx.scale(36, 400)):
        sub = __import__("random").Random(ctx.rng.getrandbits(48))
        proj, avail, din = LP.gen_amend_project(sub)
        njob = sub.randint(1, 3)
        schedule = sub.choice([None, {"seed": sub.getrandbits(30), "points": ["end"]},
                               {"seed": sub.getrandbits(30), "points": ["start", "end"]}])
        res, rec = LP.run_build(proj, njob, avail, schedule)
        runs.append({"name": "gen", "proj": proj, "njob": njob, "avail": avail, "schedule": schedule,
                     "declared_in": din, "res": res, "rec": rec})
    return runs


def _b3_witness(r):
    proj = r["proj"].to_json()
    # a long run of one character (the file that takes a while to hash) is stored compactly
    proj["sources"] = {p: (f"@repeat:{c[0]}:{len(c)}" if len(c) > 4096 and c == c[0] * len(c) else c)
                       for p, c in proj["sources"].items()}
    return {"project": proj, "schedule": r["schedule"], "njob": r["njob"], "resources": r["avail"],
            "commands": [[c["label"], c["start"], c["stop"], c["resources"], [x[0] for x in c["rpc"]]]
                         for c in r["res"].commands]}


def _loop_correspondence(ctx):
    """Part A tie: (1) the model's counterexample search with the generated slot tests; (2) the job-loop
    events of real builds replayed by the loop model."""
    import re
    vals = common.eval_terms(ctx, "ovr", LP.LOOP_HEADER, ["shortest_overrun 1 0 7", "shortest_overrun 2 0 8"])
    for njob, v in zip((1, 2), vals):
        ctx.case(("loop-search", njob), True)
        if v is None:
            ctx.add_failure("correspondence", "loop:search", "job-loop:search-not-evaluated",
                            "shortest_overrun could not be evaluated inside Coq", witness=None)
        elif "Some" in v:
            evs = re.sub(r"\s+", " ", v.strip().strip("()").strip()[4:].strip())
            ctx.count("loop:model_overrun")
            ctx.add_failure("correspondence", "loop:model-overrun", f"job-loop:slot-test-admits-overrun:njob={njob}",
                            f"the loop model built from the slot tests of Builder.job_loop ({getattr(ctx, 'facts', {}).get('facts', {}).get('slot_tests')}) "
                            f"exceeds njob={njob}: after {evs} more step commands execute than the limit "
                            "(a command parked in amend() has not ended)",
                            witness={"njob": njob, "loop_events": evs})
    runs = _b3_runs(ctx)
    checks = []
    for r in runs:
        if r["rec"].counter_mismatch is not None:
            pos, attr, val, own = r["rec"].counter_mismatch
            ctx.add_failure("correspondence", "loop:waiting-counter", "job-loop:waiting-counter-differs",
                            f"Builder.{attr} = {val} at event {pos} of a real build, but {own} calls of "
                            "run_promoted_hash_jobs are in progress (the translator reads it as that number)",
                            witness=_b3_witness(r))
            break
    for r in runs:
        items = LP.loop_items(r["rec"].events)
        r["items"] = items
        checks.append(LP.g_loop_case(r["njob"], items))
        ctx.case(("loop", tuple(i[0] for i in items), r["njob"]), r["rec"].max_tracked >= r["njob"])
        ctx.count("loop:events", len(items))
        ctx.count("loop:amend_waits", sum(1 for i in items if i[0].startswith("LAmendBegin")))
        ctx.count("loop:hash_tasks", sum(1 for i in items if i[0].startswith("LHashStart")))
        ctx.count("loop:slots_full", int(r["rec"].max_tracked >= r["njob"]))
    bad = common.run_cases(ctx, "loop", LP.LOOP_HEADER, checks, chunk=25, timeout=600)
    ctx.traces_validated += len(checks) - len(bad)
    for i in bad[:2]:
        r = runs[i]
        vals = common.eval_terms(ctx, "lmm", LP.LOOP_HEADER, [LP.g_loop_mismatch(r["njob"], r["items"])])
        m = re.search(r"Some (\d+)", vals[0] or "")
        pos = int(m.group(1)) if m else None
        ev = r["items"][pos] if pos is not None and pos < len(r["items"]) else None
        kind = ev[0].split()[0] if ev else "?"
        w = _b3_witness(r)
        w["loop_trace"] = [list(x) for x in r["items"][: (pos or 0) + 1]]
        ctx.add_failure("correspondence", "loop:" + kind, f"job-loop:model-disagrees:{kind}",
                        f"Builder.job_loop and the loop model disagree at event {pos} {ev} (event, len(running_tasks), "
                        f"parked amend calls as the implementation shows them) of a real build with njob={r['njob']}",
                        witness=w)


def correspondence(ctx):
    _ensure_model(ctx)
    _loop_correspondence(ctx)
    n = ctx.scale(100, 1200)
    length = ctx.scale(36, 60)
    drivers = _run_traces(ctx, n, length) + _run_scripts(ctx, ctx.scale(16, 120))
    ctx._c12_drivers = drivers
    checks = []
    for d in drivers:
        checks.append(g_case(d.avail, d.items))
        key = tuple(_ev_text(i) for i in d.items)
        ctx.case(("E2", key), d.nontrivial)
        for k, v in d.counts.items():
            ctx.count("E2:" + k, v)
        ctx.count("E2:items", len(d.items))
    ctx.sample({"E2-trace": [_ev_text(i) for i in drivers[0].items][:14]})
    bad = common.run_cases(ctx, "e2", HEADER, checks, chunk=12, timeout=900)
    ctx.traces_validated += len(checks) - len(bad)
    for i in bad[:3]:
        d = drivers[i]
        pos = _first_mismatch(ctx, d)
        ev = _ev_text(d.items[pos]) if pos is not None and pos < len(d.items) else "?"
        kind = ev.split()[0]
        ctx.add_failure("correspondence", "E2:" + kind, f"E2:{kind}",
                        f"model and implementation disagree at item {pos} ({ev}); implementation rows after it: "
                        f"{d.items[pos][2] if pos is not None else None}, accepted={d.items[pos][1] if pos is not None else None}, "
                        f"eligible={d.items[pos][3] if pos is not None else None}",
                        witness={"avail": d.avail, "events": [_ev_text(it) for it in d.items[:(pos or 0) + 1]]})


def _first_mismatch(ctx, d):
    late = next((k for k, it in enumerate(d.items) if it[0] == "late"), None)
    items = d.items if late is None else d.items[:late]
    term = (f"check_trace (mkSys [plan0] {g_claims(d.avail)} need_OPTIONAL) [\n    "
            + ";\n    ".join(g_item(i) for i in items) + "] 0")
    vals = common.eval_terms(ctx, "mm", HEADER, [term])
    import re
    m = re.search(r"Some (\d+)", vals[0] or "")
    return int(m.group(1)) if m else late


# ---------------------------------------------------------------------------------------------
# Oracle B: the real serve() through E3
# ---------------------------------------------------------------------------------------------


def _defer_project(kind):
    """The deferring-plan history of the refutation witnesses as a real project.

    plan.py declares Q (writes q.txt after a gate) and P. P declares S (and T), then amends q.txt,
    which is not built yet: P is deferred. Q completes, P runs again and declares S again."""
    from . import e3
    if kind == "claims":
        first = [{"op": "step", "label": "S", "resources": {"gpu": 1}}, {"op": "step", "label": "T", "resources": {"gpu": 1}},
                 {"op": "amend", "inp": ["q.txt"]}]
        second = [{"op": "step", "label": "S", "resources": {}}, {"op": "step", "label": "T", "resources": {"gpu": 1}},
                  {"op": "amend", "inp": ["q.txt"]}]
        cmds = {"S": [{"op": "gate", "name": "S"}], "T": [{"op": "gate", "name": "T"}]}
    elif kind == "reset":
        first = [{"op": "step", "label": "S", "resources": {"gpu": 1}}, {"op": "amend", "inp": ["q.txt"]}]
        second = [{"op": "step", "label": "S", "resources": {"gpu": 1}, "out": ["s2.txt"]}, {"op": "amend", "inp": ["q.txt"]}]
        cmds = {"S": [{"op": "gate", "name": "S"}, {"op": "auto"}]}
    else:  # hold
        first = [{"op": "step", "label": "S"}, {"op": "amend", "inp": ["q.txt"]}]
        second = [{"op": "step", "label": "S"}, {"op": "amend", "inp": ["q.txt"]}]
        cmds = {"S": [{"op": "hold"}, {"op": "step", "label": "C"}, {"op": "gate", "name": "S"}, {"op": "release", "catch": True}],
                "C": [{"op": "gate", "name": "C"}]}
    prog = {"scripts": {"plan.py": [{"op": "step", "label": "Q", "out": ["q.txt"]}, {"op": "step", "label": "P"}]},
            "commands": {"P": [{"op": "if_exists", "path": "q.txt", "then": second, "else": first}],
                         "Q": [{"op": "gate", "name": "Qw"}, {"op": "write", "path": "q.txt", "content": "q"}], **cmds}}
    order = ["end:P", "Qw", "end:Q", "end:P", "T", "end:T", "C", "end:C", "end:./plan.py", "S", "S#2"]
    return e3.Project(sources={}, program=prog), {"order": order, "policy": "fifo"}


def check_stamps(res, njob, avail, declared_in):
    """The three limits on the start/stop stamps of the simulated commands of one real build.

    declared_in: label -> label of the command that declares it (static knowledge of the project).
    Returns a list of (kind, detail)."""
    out = []
    cmds = res.commands
    inf = 10 ** 9

    def live(c, t):
        return c["start"] <= t and t < (c["stop"] if c["stop"] is not None else inf)

    for c in cmds:
        t = c["start"]
        running = [o for o in cmds if live(o, t)]
        if len(running) > njob:
            out.append(("njob-exceeded", f"{len(running)} commands run at stamp {t} with njob={njob}: {[o['label'] for o in running]}"))
        tot = {}
        for o in running:
            for name, units in o["resources"].items():
                tot[name] = tot.get(name, 0) + units
        for name, units in tot.items():
            if name not in avail:
                out.append(("undefined-resource-runs", f"{c['label']} runs at stamp {t} holding undefined {name}"))
            elif units > avail[name]:
                labels = [o["label"] for o in running if name in o["resources"]]
                kind = "command-runs-twice" if len(labels) != len(set(labels)) else "resource-overcommitted"
                out.append((kind, f"stamp {t}: executing {labels} hold {units} {name} of {avail[name]}"))
        # hold: c's label was declared by a command of label a; if that declaration happened inside an open
        # hold block and the block's outermost hold has not been released by stamp t, c must not start
        a = declared_in.get(c["label"])
        for dcl in [o for o in cmds if o["label"] == a and live(o, t)]:
            depth, inside, n_def = 0, False, 0
            defs = dcl.get("_defs", [])
            for name, ok, stamp in dcl["rpc"]:
                if stamp > t:
                    break
                if name == "hold_dispatch" and ok:
                    depth += 1
                elif name == "release_dispatch" and ok:
                    depth -= 1
                    if depth == 0:
                        inside = False
                elif name == "define_step":
                    lbl = defs[n_def] if n_def < len(defs) else None
                    n_def += 1
                    if ok and lbl == c["label"]:
                        inside = depth > 0
            if inside:
                out.append(("held-child-runs", f"{c['label']} started at stamp {t} although it was declared inside a hold "
                                                f"block of {a} whose outermost hold is not released yet"))
    return out


def _annotate_defs(res, program):
    """Attach to every command record the labels of its define_step calls, in order. The programs
    used here are straight-line (or an if_exists whose two branches declare the same labels), and a
    rejected declaration ends the command, so the i-th define_step RPC is the i-th step action."""
    for c in res.commands:
        acts = program["commands"].get(c["label"])
        if acts is None and c["label"] == "./plan.py":
            acts = program["scripts"]["plan.py"]
        acts = acts or []
        if len(acts) == 1 and acts[0]["op"] == "if_exists":
            acts = acts[0].get("then", [])
        c["_defs"] = [a["label"] for a in acts if a["op"] in ("step", "run", "plan")]
    return res


def _replay_witness(kind):
    from . import e3
    proj, schedule = _defer_project(kind)
    with tempfile.TemporaryDirectory(prefix="verif-c12-") as tmp:
        proj.materialise(tmp)
        with LP.watchdog():
            res = e3.build(tmp, proj.program, njob=4, resources="gpu:1", schedule=schedule, timeout=60)
    _annotate_defs(res, proj.program)
    declared_in = {"S": "P", "T": "P", "C": "S", "P": "./plan.py", "Q": "./plan.py"}
    found = check_stamps(res, 4, {"gpu": 1}, declared_in)
    trace = [[c["label"], c["start"], c["stop"], c["resources"], [r[0] for r in c["rpc"]]] for c in res.commands]
    return found, trace, proj.to_json(), schedule, res


def _gen_project(rng):
    """A random straight-line project: plan.py declares plans/steps, some inside (nested) hold blocks,
    with resources; some plans fail inside a hold block."""
    from . import e3
    names = ["cpu", "gpu"]
    avail = {"cpu": rng.choice([1, 2, 3]), "gpu": rng.choice([1, 2])}
    commands, declared_in = {}, {}
    counter = [0]

    def fresh(prefix):
        counter[0] += 1
        return f"{prefix}{counter[0]}"

    def res_for():
        r = rng.random()
        if r < 0.3:
            return {}
        if r < 0.92:
            return {rng.choice(names): rng.randint(1, 2)}
        return {"zzz": 1}

    def body(owner, depth):
        acts, open_holds = [], 0
        for _ in range(rng.randint(2, 5)):
            r = rng.random()
            if r < 0.25 and open_holds < 2:
                acts.append({"op": "hold"})
                open_holds += 1
            elif r < 0.40 and open_holds > 0:
                acts.append({"op": "release"})
                open_holds -= 1
            elif r < 0.55 and depth < 2:
                lbl = fresh("plan")
                declared_in[lbl] = owner
                # a planning step (api.plan: need = PLAN), possibly inside the open hold block of its creator
                acts.append({"op": "step", "label": lbl, "resources": res_for(), "need": "PLAN"})
                commands[lbl] = body(lbl, depth + 1)
            else:
                lbl = fresh("w")
                declared_in[lbl] = owner
                acts.append({"op": "step", "label": lbl, "resources": res_for()})
                commands[lbl] = []
        if open_holds and rng.random() < 0.3:
            # failure inside the hold block: api.hold() releases in its finally clause, then the command fails
            acts += [{"op": "release", "catch": True}] * open_holds + [{"op": "exit", "rc": 1}]
        else:
            acts += [{"op": "release"}] * open_holds
        return acts

    plan = body("./plan.py", 0)
    prog = {"scripts": {"plan.py": plan}, "commands": commands}
    return e3.Project(sources={}, program=prog), avail, declared_in


def _random_build(rng):
    from . import e3
    proj, avail, declared_in = _gen_project(rng)
    njob = rng.randint(1, 4)
    schedule = {"seed": rng.getrandbits(30), "points": rng.choice([["end"], ["start", "end"]])}
    with tempfile.TemporaryDirectory(prefix="verif-c12-") as tmp:
        proj.materialise(tmp)
        with LP.watchdog():
            res = e3.build(tmp, proj.program, njob=njob, resources=",".join(f"{k}:{v}" for k, v in avail.items()),
                           schedule=schedule, timeout=90, keep_going=True)
    _annotate_defs(res, proj.program)
    found = check_stamps(res, njob, avail, declared_in)
    return found, proj, njob, avail, schedule, res


def oracle(ctx):
    # oracle A: the dispatches of the E2 sequences
    drivers = getattr(ctx, "_c12_drivers", None) or _run_traces(ctx, ctx.scale(40, 200), 36)
    seen = set()
    for d in drivers:
        ctx.count("A:dispatches", d.counts.get("dispatch_running", 0))
        for sig, detail, _ in d.violations:
            if sig in seen:
                continue
            seen.add(sig)
            ctx.add_failure("oracle", "A:" + sig, sig, detail,
                            witness={"avail": d.avail, "events": [_ev_text(it) for it in d.items]})
    # oracle B1: the three refutation witnesses on the real serve()
    expect = {"claims": ("resource-overcommitted", SIG_CLAIMS), "reset": ("command-runs-twice", SIG_RESET),
              "hold": ("held-child-runs", SIG_HOLD)}
    for kind, (what, sig) in expect.items():
        found, trace, proj, schedule, res = _replay_witness(kind)
        ctx.case(("B1", kind), True)
        ctx.count("B1:witness_" + kind + ("_reproduced" if any(f[0] == what for f in found) else "_not_reproduced"))
        for k, detail in found:
            s = sig if k == what else f"serve:{k}"
            if s in seen:
                continue
            seen.add(s)
            ctx.add_failure("oracle", "B1:" + kind, s,
                            f"real serve(), deferring plan re-declares an executing step: {detail}",
                            witness={"project": proj, "schedule": schedule, "njob": 4, "resources": "gpu:1", "commands": trace})
    # oracle B3: amend()/hash-wait, queued hash jobs, resources, holds on the real serve()
    for r in _b3_runs(ctx):
        res, njob = r["res"], r["njob"]
        _annotate_defs(res, r["proj"].program)
        found = check_stamps(res, njob, r["avail"], r["declared_in"])
        if res.max_running > njob and not any(k == "njob-exceeded" for k, _ in found):
            found.append(("njob-exceeded", f"{res.max_running} simulated commands were executing at once with njob={njob}"))
        amends = sum(1 for c in res.commands for x in c["rpc"] if x[0] == "amend_step")
        ctx.case(("B3", r["name"], json.dumps(r["proj"].program, sort_keys=True), njob, json.dumps(r["schedule"])),
                 res.max_running >= njob or amends > 0)
        ctx.count("B3:builds")
        ctx.count("B3:commands", len(res.commands))
        ctx.count("B3:amend_rpcs", amends)
        ctx.count("B3:promoted_hash_jobs", sum(1 for e in r["rec"].events if e[0] == "promstart"))
        ctx.count("B3:hash_tasks_in_slots", sum(1 for e in r["rec"].events if e[0] == "hash"))
        ctx.count("B3:max_running_eq_njob", int(res.max_running == njob))
        ctx.count("B3:hold_rpcs", sum(1 for c in res.commands for x in c["rpc"] if x[0] == "hold_dispatch"))
        if res.error:
            ctx.count("B3:serve_error")
        # assumption "a command executes only while its step row is RUNNING" (what ties the stamps to the SUM of
        # RESOURCE_UNAVAILABLE and to FILL_SAFE_UPDATE), observed on the implementation
        ctx.count("B3:command_windows", len(r["rec"].windows))
        for lbl, job_i, st0, st1 in r["rec"].windows:
            if st0 != "RUNNING" or st1 != "RUNNING":
                found.append(("command-outside-running-window",
                              f"the command of {lbl} (job {job_i}) was launched with its step {st0} and returned with it {st1}"))
                break
        for k, detail in found:
            s = _serve_sig(k, res, njob)
            if s in seen:
                continue
            seen.add(s)
            ctx.add_failure("oracle", "B3:" + k, s, f"real serve() ({r['name']}): {detail}", witness=_b3_witness(r))
    # oracle B4: the hash-check bypass (steps with a stored hash are dispatched without looking at resources
    # or holds) on a second build after inputs changed: the commands still obey both limits
    b4 = [(k,) + LP.scenario_checking(k) for k in ("resource", "hold", "dynamic")]
    for _ in range(ctx.scale(8, 120)):
        sub = __import__("random").Random(ctx.rng.getrandbits(48))
        b4.append(("gen",) + LP.gen_checking_history(sub))
    for n, (name, proj, avail, din, hist) in enumerate(b4):
        njob = 3 if name != "gen" else 1 + n % 3
        schedule = {"seed": ctx.rng.getrandbits(30), "points": ["start", "end"] if n % 2 else ["end"]}
        results, prog2 = LP.run_checking(proj, avail, hist, njob, schedule)
        for phase, res in enumerate(results):
            _annotate_defs(res, prog2 if phase else proj.program)
            found = check_stamps(res, njob, avail, din)
            ctx.case(("B4", name, json.dumps(prog2, sort_keys=True), njob, schedule["seed"], phase), phase == 1)
            ctx.count("B4:builds")
            ctx.count("B4:commands", len(res.commands))
            if phase:
                ctx.count("B4:second_build_commands", len(res.commands))
            for k, detail in found:
                s = f"serve:{k}:" + ("second-build-with-stored-hashes" if phase else "first-build")
                if s in seen:
                    continue
                seen.add(s)
                ctx.add_failure("oracle", "B4:" + k, s, f"real serve(), build {phase + 1} of 2 ({name}): {detail}",
                                witness={"project": proj.to_json(), "history": hist, "schedule": schedule, "njob": njob,
                                         "resources": avail,
                                         "commands": [[c["label"], c["start"], c["stop"], c["resources"]] for c in res.commands]})
    # oracle B2: random projects
    nb = ctx.scale(40, 500)
    for _ in range(nb):
        sub = __import__("random").Random(ctx.rng.getrandbits(48))
        found, proj, njob, avail, schedule, res = _random_build(sub)
        blocked = res.max_running >= 2 or any(c["resources"] for c in res.commands)
        ctx.case(("B2", json.dumps(proj.program, sort_keys=True), njob, schedule["seed"]), blocked)
        ctx.count("B2:builds")
        ctx.count("B2:commands", len(res.commands))
        ctx.count(f"B2:njob={njob}")
        ctx.count("B2:max_running_eq_njob", int(res.max_running == njob))
        if res.error:
            ctx.count("B2:serve_error")
        for k, detail in found:
            s = f"serve:{k}"
            if s in seen:
                continue
            seen.add(s)
            ctx.add_failure("oracle", "B2:" + k, s, f"real serve(): {detail}",
                            witness={"project": proj.to_json(), "schedule": schedule, "njob": njob, "resources": avail,
                                     "commands": [[c["label"], c["start"], c["stop"], c["resources"]] for c in res.commands]})
    ctx.sample({"oracle": "A at every real dispatch; B1 three witnesses; B2 random projects on serve()", "B2_builds": nb})


def _serve_sig(k, res, njob):
    """Signature of a stamp violation on the real serve(): the same string whether the oracle or the search
    found it (the cause is what a KNOWN_FINDINGS entry names, not the phase that stumbled on it)."""
    if k == "njob-exceeded":
        circ = LP.njob_circumstance(res, njob)
        return f"serve:njob-exceeded:{circ[1] if circ else 'max-running'}"
    return f"serve:{k}"


def search(ctx):
    """Deeper run of the implementation-only oracles. Signatures are those of the oracle (a finding listed in
    KNOWN_FINDINGS.json stays a known finding when the search meets it); the search goes on past listed
    findings and stops at the first unlisted one."""
    known = common.load_known()
    reported = {f.signature for f in ctx.failures}

    def report(name, sig, detail, witness):
        """True iff the failure is unlisted (the search is done)."""
        if sig in reported:
            return False
        reported.add(sig)
        ctx.add_failure("oracle", name, sig, detail, witness=witness)
        return common.known_match(ctx.pid, ctx.failures[-1], known) is None

    for _ in range(300):
        sub = __import__("random").Random(ctx.rng.getrandbits(48))
        proj, avail, din = LP.gen_amend_project(sub)
        njob = sub.randint(1, 3)
        schedule = sub.choice([None, {"seed": sub.getrandbits(30), "points": ["end"]},
                               {"seed": sub.getrandbits(30), "points": ["start", "end"]}])
        res, rec = LP.run_build(proj, njob, avail, schedule)
        _annotate_defs(res, proj.program)
        for k, detail in check_stamps(res, njob, avail, din):
            r = {"proj": proj, "schedule": schedule, "njob": njob, "avail": avail, "res": res}
            if report("search:" + k, _serve_sig(k, res, njob), f"real serve() (search): {detail}", _b3_witness(r)):
                return
    for _ in range(400):
        sub = __import__("random").Random(ctx.rng.getrandbits(48))
        found, proj, njob, avail, schedule, res = _random_build(sub)
        for k, detail in found:
            if report("search:" + k, f"serve:{k}", f"real serve() (search): {detail}",
                      {"project": proj.to_json(), "schedule": schedule, "njob": njob, "resources": avail}):
                return
    for d in _run_traces(ctx, 300, 50):
        for sig, detail, _ in d.violations:
            if report("search:" + sig, sig, detail + " (search)",
                      {"avail": d.avail, "events": [_ev_text(it) for it in d.items]}):
                return


def replay(ctx, obj):
    w = obj["failure"].get("witness") or {}
    print("replaying", json.dumps(w)[:400])
    if "loop_events" in w:
        # a model-level history of the job loop: the directed scenario that realises it on the real serve()
        njob = w["njob"]
        proj, avail, din = LP.scenario_amend_slot(njob, njob)
        res, rec = LP.run_build(proj, njob, avail, {"seed": 1, "points": ["start", "end"]})
        for c in res.commands:
            print(c["label"], c["start"], c["stop"], [x[0] for x in c["rpc"]])
        print("max commands executing at once:", res.max_running, "njob:", njob)
    if "history" in w:
        from . import e3
        proj = e3.Project.from_json(w["project"])
        results, _ = LP.run_checking(proj, w["resources"], w["history"], w["njob"], w["schedule"])
        for phase, res in enumerate(results):
            for c in res.commands:
                print("build", phase + 1, c["label"], c["start"], c["stop"], c["resources"])
    elif "project" in w:
        from . import e3
        for p, c in list(w["project"].get("sources", {}).items()):
            if c.startswith("@repeat:"):
                _, ch, n = c.split(":")
                w["project"]["sources"][p] = ch * int(n)
        proj = e3.Project.from_json(w["project"])
        resources = w["resources"] if isinstance(w["resources"], str) else ",".join(f"{k}:{v}" for k, v in w["resources"].items())
        with tempfile.TemporaryDirectory(prefix="verif-c12-") as tmp:
            proj.materialise(tmp)
            res = e3.build(tmp, proj.program, njob=w["njob"], resources=resources or None, schedule=w["schedule"], timeout=90,
                           keep_going=True)
        for c in res.commands:
            print(c["label"], c["start"], c["stop"], c["resources"], [x[0] for x in c["rpc"]])
        print("max commands executing at once:", res.max_running, "njob:", w["njob"])
    oracle(ctx)
