"""Shared by harness/p_c10.py and harness/p_c11.py.

* `to_coq(snap)`: Gallina literal of a snapshot (model/Sched.v `graph`).
* Python re-statement *by definition* of the specifications (safe_spec, ready_spec, need_spec,
  eligible) and of the flag invariants, computed directly from a snapshot dict. They are written
  independently of the Coq model and of the SQL text (only the enum values are read from the repo).
* Deterministic replays of the Coq refutation witnesses (D8, D11) on the real Workflow+Scheduler.
"""
from __future__ import annotations

import functools

from stepup.core.enums import FileState, Need, StepState

PENDING, RUNNING, SUCCEEDED, FAILED, CHECKING = (StepState.PENDING.value, StepState.RUNNING.value,
                                                 StepState.SUCCEEDED.value, StepState.FAILED.value,
                                                 StepState.CHECKING.value)
OPTIONAL, DEFAULT, TARGET, PLAN = (Need.OPTIONAL.value, Need.DEFAULT.value, Need.TARGET.value,
                                   Need.PLAN.value)
FS = FileState

# ---------------------------------------------------------------------------------------------
# Gallina printer
# ---------------------------------------------------------------------------------------------


def cstr(s: str) -> str:
    return "[" + ";".join(str(b) for b in s.encode("utf8")) + "]"


def cbool(b) -> str:
    return "true" if b else "false"


def copt(x) -> str:
    return "None" if x is None else f"(Some {x})"


def step_to_coq(s: dict) -> str:
    res = "[" + "; ".join(f"({cstr(n)}, {u})" for n, u in s["resources"]) + "]"
    return ("(mkStep {key} {state} {need} {df} {dc} {hold} {det} {cr} {safe} {safe_nh} {ineed} {rdy} "
            "{hh} {hs} {cs} {ca} {crd} {dur} {tail} {res})").format(
        key=s["key"], state=s["state"], need=s["need"], df=cbool(s["deferred"]), dc=s["defer_count"],
        hold=s["holding"], det=cbool(s["detached"]), cr=copt(s["creator"]), safe=cbool(s["safe"]),
        safe_nh=cbool(s["safe_nh"]), ineed=s["ineed"], rdy=cbool(s["ready"]), hh=cbool(s["has_hash"]),
        hs=cbool(s["hash_stored"]), cs=cbool(s["chk_safe"]), ca=cbool(s["chk_after"]),
        crd=cbool(s["chk_ready"]), dur=s["duration"], tail=s["tail"], res=res)


def file_to_coq(f: dict) -> str:
    return (f"(mkFile {f['key']} {cstr(f['label'])} {f['state']} {cbool(f['detached'])} "
            f"{copt(f['creator'])} {cbool(f['hash'])})")


def to_coq(snap: dict) -> str:
    steps = "[" + ";\n   ".join(step_to_coq(s) for s in snap["steps"]) + "]"
    files = "[" + ";\n   ".join(file_to_coq(f) for f in snap["files"]) + "]"
    others = "[" + "; ".join(f"(mkOnode {o['key']} {cbool(o['detached'])} {copt(o['creator'])})"
                             for o in snap["others"]) + "]"
    deps = "[" + "; ".join(f"(mkDep {d['src']} {d['snk']} {cbool(d['dyn'])})" for d in snap["deps"]) + "]"
    targets = "[" + "; ".join(cstr(t) for t in snap["targets"]) + "]"
    tdirs = "[" + "; ".join(f"({cstr(p)}, {cstr(u)})" for p, u in snap["target_dirs"]) + "]"
    avail = "[" + "; ".join(f"({cstr(n)}, {u})" for n, u in snap["avail"]) + "]"
    return (f"(mkGraph\n  {steps}\n  {files}\n  {others}\n  {deps}\n  {targets} {tdirs} {avail} "
            f"{snap['threshold']})")


COQ_HEADER = """From Coq Require Import List NArith Bool.
Import ListNotations.
From SV Require Import lib.Bytes lib.SqlExpr gen.GenSched model.Sched.
Open Scope N_scope.
Definition opt_eqb (a b : option N) : bool :=
  match a, b with Some x, Some y => x =? y | None, None => true | _, _ => false end.
Definition step_eqb (a b : step) : bool :=
  (s_key a =? s_key b) && (s_state a =? s_state b) && (s_need a =? s_need b)
  && Bool.eqb (s_deferred a) (s_deferred b) && (s_defer_count a =? s_defer_count b)
  && (s_holding a =? s_holding b) && Bool.eqb (s_detached a) (s_detached b)
  && opt_eqb (s_creator a) (s_creator b) && Bool.eqb (s_safe a) (s_safe b)
  && Bool.eqb (s_safe_nh a) (s_safe_nh b) && (s_ineed a =? s_ineed b) && Bool.eqb (s_ready a) (s_ready b)
  && Bool.eqb (s_has_hash a) (s_has_hash b) && Bool.eqb (s_hash_stored a) (s_hash_stored b)
  && Bool.eqb (s_chk_safe a) (s_chk_safe b) && Bool.eqb (s_chk_after a) (s_chk_after b)
  && Bool.eqb (s_chk_ready a) (s_chk_ready b) && (s_duration a =? s_duration b) && (s_tail a =? s_tail b).
Definition file_eqb (a b : file) : bool :=
  (f_key a =? f_key b) && (f_state a =? f_state b) && Bool.eqb (f_detached a) (f_detached b)
  && opt_eqb (f_creator a) (f_creator b) && Bool.eqb (f_hash a) (f_hash b).
Definition onode_eqb (a b : onode) : bool :=
  (o_key a =? o_key b) && Bool.eqb (o_detached a) (o_detached b) && opt_eqb (o_creator a) (o_creator b).
Definition dep_eqb3 (a b : dep) : bool :=
  (d_src a =? d_src b) && (d_snk a =? d_snk b) && Bool.eqb (d_dyn a) (d_dyn b).
Fixpoint list_eqb {A} (e : A -> A -> bool) (l1 l2 : list A) : bool :=
  match l1, l2 with
  | [], [] => true
  | a :: r1, b :: r2 => e a b && list_eqb e r1 r2
  | _, _ => false
  end.
(* order-insensitive on edges (the model appends, the dump sorts) *)
Definition deps_sub (l1 l2 : list dep) : bool := forallb (fun a => existsb (dep_eqb3 a) l2) l1.
Definition graph_eqb (a b : graph) : bool :=
  list_eqb step_eqb (g_steps a) (g_steps b) && list_eqb file_eqb (g_files a) (g_files b)
  && list_eqb onode_eqb (g_others a) (g_others b)
  && deps_sub (g_deps a) (g_deps b) && deps_sub (g_deps b) (g_deps a).
Definition steps_agree (a b : graph) : bool := list_eqb step_eqb (g_steps a) (g_steps b).
Definition choice_ok (g : graph) (choice : option N) (ns : N) : bool :=
  match choice with
  | Some k => existsb (fun s => (s_key s =? k) && (dispatched_state s =? ns)) (dispatch_set g)
  | None => match dispatch_set g with [] => true | _ => false end
  end.
Definition tick_ok (before after_meta : graph) (choice : option N) (ns : N) : bool :=
  match update_meta before with
  | Some g' => steps_agree g' after_meta
  | None => false
  end && choice_ok after_meta choice ns.
Definition queue_eqb (l1 l2 : list (N * bool)) : bool :=
  forallb (fun a => existsb (fun b => (fst a =? fst b) && Bool.eqb (snd a) (snd b)) l2) l1
  && forallb (fun a => existsb (fun b => (fst a =? fst b) && Bool.eqb (snd a) (snd b)) l1) l2.
"""

# ---------------------------------------------------------------------------------------------
# Specifications by definition (Python, independent of the model)
# ---------------------------------------------------------------------------------------------


class View:
    """Indexes over one snapshot."""

    def __init__(self, snap: dict):
        self.snap = snap
        self.steps = {s["key"]: s for s in snap["steps"]}
        self.files = {f["key"]: f for f in snap["files"]}
        self.out_edges: dict[int, list] = {}
        self.in_edges: dict[int, list] = {}
        for d in snap["deps"]:
            self.out_edges.setdefault(d["src"], []).append(d)
            self.in_edges.setdefault(d["snk"], []).append(d)
        self.targets = set(snap["targets"])
        self.tdirs = [tuple(x) for x in snap["target_dirs"]]
        self._need: dict[int, int] = {}

    # -- safe: every step ancestor RUNNING/SUCCEEDED (and not holding)
    def safe_spec(self, key: int) -> tuple[int, int]:
        safe, safe_nh = 1, 1
        seen = set()
        cur = self.steps[key]
        while True:
            c = cur["creator"]
            if c is None or c not in self.steps or c in seen:
                return safe, safe_nh
            seen.add(c)
            cs = self.steps[c]
            ok = cs["state"] in (RUNNING, SUCCEEDED)
            if not ok:
                safe_nh = 0
            if not ok or cs["holding"] != 0:
                safe = 0
            cur = cs

    def ancestors_or_self(self, key: int):
        out, seen = [], set()
        cur = key
        while cur is not None and cur in self.steps and cur not in seen:
            seen.add(cur)
            out.append(cur)
            cur = self.steps[cur]["creator"]
        return out

    # -- ready: no unavailable input
    def unavailable(self, d: dict) -> bool:
        f = self.files.get(d["src"])
        if f is None:
            return False
        st, det, dyn = f["state"], f["detached"], d["dyn"]
        if st == FS.VOLATILE.value:
            return True
        if dyn:
            return (not det) and st in (FS.PLANNED.value, FS.OUTDATED.value)
        return bool(det) or st not in (FS.BUILT.value, FS.CONFIRMED.value)

    def ready_spec(self, key: int) -> int:
        return int(not any(self.unavailable(d) for d in self.in_edges.get(key, [])))

    # -- need
    def outputs(self, key: int):
        return [self.files[d["snk"]] for d in self.out_edges.get(key, []) if d["snk"] in self.files]

    @staticmethod
    def regular(f: dict) -> bool:
        return (not f["detached"]) and f["state"] != FS.VOLATILE.value

    def local_need(self, key: int) -> int:
        s = self.steps[key]
        outs = [f for f in self.outputs(key) if self.regular(f)]
        elev = OPTIONAL
        if any(f["label"] in self.targets for f in outs):
            elev = TARGET
        elif s["need"] == DEFAULT and any(p <= f["label"] < u for f in outs for p, u in self.tdirs):
            elev = TARGET
        return max(s["need"], elev)

    def consumers(self, key: int) -> list[int]:
        out = []
        for d1 in self.out_edges.get(key, []):
            for d2 in self.out_edges.get(d1["snk"], []):
                y = self.steps.get(d2["snk"])
                if y is not None and not y["detached"]:
                    out.append(y["key"])
        return out

    def need_spec(self, key: int, _stack=()) -> int:
        if key in self._need:
            return self._need[key]
        if key in _stack:
            raise RuntimeError("cyclic consumer relation")
        val = self.local_need(key)
        for y in self.consumers(key):
            val = max(val, self.need_spec(y, (*_stack, key)))
        self._need[key] = val
        return val

    def consistent(self, key: int) -> bool:
        """cached _implied_need = max(local, cached values of the attached consumers)."""
        val = self.local_need(key)
        for y in self.consumers(key):
            val = max(val, self.steps[y]["ineed"])
        return self.steps[key]["ineed"] == val

    # -- resources / eligibility
    def running_usage(self, name: str) -> int:
        return sum(u for s in self.snap["steps"] if s["state"] == RUNNING
                   for n, u in s["resources"] if n == name)

    def resources_free(self, key: int) -> bool:
        avail = dict((n, u) for n, u in self.snap["avail"])
        for n, u in self.steps[key]["resources"]:
            if n not in avail or avail[n] - self.running_usage(n) < u:
                return False
        return True

    def eligible_spec(self, key: int, ignore_deferred: bool = False) -> bool:
        s = self.steps[key]
        safe, safe_nh = self.safe_spec(key)
        need = self.need_spec(key)
        return (s["state"] == PENDING and not s["detached"] and (ignore_deferred or not s["deferred"])
                and (safe or (s["hash_stored"] and safe_nh))
                and need > OPTIONAL and need > self.snap["threshold"]
                and bool(self.ready_spec(key))
                and (bool(s["hash_stored"]) or self.resources_free(key)))

    def eligible_set(self) -> list[int]:
        return sorted(k for k in self.steps if self.eligible_spec(k))

    # -- flag invariants (which cached values may be stale)
    def flaginv_safe_violations(self):
        bad = []
        for k, s in self.steps.items():
            if (s["safe"], s["safe_nh"]) != self.safe_spec(k):
                if not any(self.steps[a]["chk_safe"] for a in self.ancestors_or_self(k)):
                    bad.append(k)
        return bad

    def stale_low_seeds(self):
        """Flagged steps whose creator's cached _safe is lower than its definition."""
        bad = []
        for k, s in self.steps.items():
            c = s["creator"]
            if s["chk_safe"] and c in self.steps:
                cs, spec = self.steps[c], self.safe_spec(c)
                if (spec[0] and not cs["safe"]) or (spec[1] and not cs["safe_nh"]):
                    bad.append(k)
        return bad

    def flaginv_need_violations(self):
        bad = []
        for k, s in self.steps.items():
            if s["detached"] or s["chk_after"]:
                continue
            if any(self.steps[y]["chk_after"] for y in self.consumers(k)):
                continue
            if not self.consistent(k):
                bad.append(k)
        return bad

    def flaginv_ready_violations(self):
        return [k for k, s in self.steps.items()
                if not s["chk_ready"] and s["ready"] != self.ready_spec(k)]

    def cached_vs_spec(self):
        """(column, key, cached, spec) for every cached attribute that differs from its definition."""
        out = []
        for k, s in self.steps.items():
            spec = self.safe_spec(k)
            if s["safe"] != spec[0]:
                out.append(("_safe", k, s["safe"], spec[0]))
            if s["safe_nh"] != spec[1]:
                out.append(("_safe_ignoring_hold", k, s["safe_nh"], spec[1]))
            if s["ready"] != self.ready_spec(k):
                out.append(("_ready", k, s["ready"], self.ready_spec(k)))
            if not s["detached"] and s["ineed"] != self.need_spec(k):
                out.append(("_implied_need", k, s["ineed"], self.need_spec(k)))
            if s["has_hash"] != s["hash_stored"]:
                out.append(("_has_hash", k, s["has_hash"], s["hash_stored"]))
        return out

    def shape(self):
        steps = self.snap["steps"]
        att = [s for s in steps if not s["detached"]]
        depth = max((len(self.ancestors_or_self(s["key"])) for s in steps), default=0)
        return {
            "steps": len(steps), "attached": len(att), "files": len(self.snap["files"]),
            "deps": len(self.snap["deps"]), "dyn_deps": sum(d["dyn"] for d in self.snap["deps"]),
            "optional": sum(s["need"] == OPTIONAL for s in att), "creator_depth": depth,
            "targets": len(self.snap["targets"]), "target_dirs": len(self.snap["target_dirs"]),
        }


def label_of(snap: dict, key: int) -> str:
    for s in snap["steps"]:
        if s["key"] == key:
            return s["label"]
    return f"#{key}"


# ---------------------------------------------------------------------------------------------
# Composite operations as sequences of model primitives
# ---------------------------------------------------------------------------------------------

STATIC_STATES = (FS.UNCONFIRMED.value, FS.MISSING.value, FS.CONFIRMED.value)


class _Decomposer:
    """Re-traces, on a copy of the rows, what Step.reset_for_rerun / Workflow.mark_step_pending do to the
    tables that model/Sched.v reads, and emits the primitive sequence. A wrong re-trace cannot produce
    a false pass: the model applies the sequence and must land exactly on the real tables."""

    def __init__(self, snap: dict):
        self.steps = {s["key"]: dict(s) for s in snap["steps"]}
        self.files = {f["key"]: dict(f) for f in snap["files"]}
        self.deps = [dict(d) for d in snap["deps"]]
        self.prims: list[str] = []

    # -- primitives
    def del_dep(self, d):
        self.prims.append(f"PDelDep (mkDep {d['src']} {d['snk']} {cbool(d['dyn'])})")
        self.deps = [e for e in self.deps if (e["src"], e["snk"]) != (d["src"], d["snk"])]

    def detach_file(self, key):
        self.prims.append(f"PDetachFile {key}")
        f = self.files[key]
        if f["creator"] is not None:
            f["creator"], f["detached"] = None, 1

    def detach_step(self, key):
        self.prims.append(f"PDetach {key}")
        s = self.steps[key]
        if s["creator"] is None:
            return
        was_attached = not s["detached"]
        s["creator"], s["detached"] = None, 1
        if was_attached:
            todo, seen = [key], {key}
            while todo:
                k = todo.pop()
                for coll in (self.steps, self.files):
                    for n in coll.values():
                        if n["creator"] == k and n["key"] not in seen:
                            seen.add(n["key"])
                            n["detached"] = 1
                            todo.append(n["key"])

    def set_file_state(self, key, st, new_hash=None):
        """UPDATE file SET state[, hash] followed by the file_clear_hash trigger (file.py)."""
        f = self.files[key]
        h = f["hash"] if new_hash is None else int(new_hash)
        if st in (FS.MISSING.value, FS.PLANNED.value, FS.VOLATILE.value) or (
                st == FS.UNCONFIRMED.value and f["state"] in (FS.BUILT.value, FS.OUTDATED.value)):
            h = 0
        self.prims.append(f"PSetFileState {key} {st} {cbool(h)}")
        f["state"], f["hash"] = st, h

    def set_step_state(self, key, st, deferred=False):
        self.prims.append(f"PSetState {key} {st} {cbool(deferred)}")
        self.steps[key]["state"] = st

    def set_hash(self, key, b):
        self.prims.append(f"PSetHash {key} {cbool(b)}")

    # -- Workflow.update_file_hashes (the transition table is read from the repository)
    def update_file_hashes(self, hashes: dict, cause: int):
        from stepup.core.enums import FileState, HashUpdateCause
        from stepup.core.workflow import _HASH_TRANSITIONS
        by_label = {f["label"]: f["key"] for f in self.files.values()}
        actions = {"updated": [], "deleted": [], "completed": []}
        for path in sorted(hashes):
            key = by_label[path]
            known = bool(hashes[path])
            new_state, action = _HASH_TRANSITIONS[(HashUpdateCause(cause), FileState(self.files[key]["state"]), known)]
            self.set_file_state(key, new_state.value, new_hash=True)
            if action is not None:
                actions[action].append(key)
        for key in actions["updated"]:
            st = self.files[key]["state"]
            if st == FS.CONFIRMED.value:
                self.mark_consumers_pending(key)
            elif st in (FS.PLANNED.value, FS.OUTDATED.value):
                c = self.files[key]["creator"]
                if c in self.steps:
                    self.mark_step_pending(c)
        for key in actions["deleted"]:
            if self.files[key]["state"] == FS.PLANNED.value:
                c = self.files[key]["creator"]
                if c in self.steps:
                    self.mark_step_pending(c)
            self.mark_consumers_pending(key)
        for key in actions["completed"]:
            self.mark_consumers_pending(key)

    def mark_consumers_pending(self, key):
        for d in [e for e in self.deps if e["src"] == key]:
            if d["snk"] in self.steps:
                self.mark_step_pending(d["snk"])

    # -- Step.mark_completed
    def mark_completed(self, k, success: bool, wants_defer: bool, cap: int):
        products = sorted(f["key"] for f in self.files.values() if f["creator"] == k)
        if not success:
            for key in products:
                if self.files[key]["state"] == FS.BUILT.value:
                    self.set_file_state(key, FS.OUTDATED.value)
            if wants_defer:
                self.prims.append(f"PIncDefer {k}")
                self.steps[k]["defer_count"] += 1
                if self.steps[k]["defer_count"] <= cap:
                    ok = (FS.CONFIRMED.value, FS.BUILT.value)
                    deferred = any(e["dyn"] and e["snk"] == k and e["src"] in self.files
                                   and self.files[e["src"]]["state"] not in ok for e in self.deps)
                    self.set_step_state(k, PENDING, deferred)
                else:
                    self.set_step_state(k, FAILED)
            else:
                self.set_step_state(k, FAILED)
            if self.steps[k]["state"] == FAILED:
                for key in sorted(s["key"] for s in self.steps.values() if s["creator"] == k):
                    self.detach_step(key)
            self.set_hash(k, False)
        else:
            self.set_step_state(k, SUCCEEDED)
            for key in products:
                if self.files[key]["state"] == FS.OUTDATED.value:
                    self.set_file_state(key, FS.BUILT.value)
                    self.mark_consumers_pending(key)
            self.set_hash(k, True)

    def reset_to_pending(self, k):
        """Executor._reset_step_to_pending"""
        self.reset_for_rerun(k)
        self.set_hash(k, False)
        self.set_step_state(k, PENDING)

    # -- composites
    def mark_file_outdated(self, key):
        f = self.files[key]
        if f["state"] == FS.BUILT.value:
            self.set_file_state(key, FS.OUTDATED.value)
            for d in [e for e in self.deps if e["src"] == key]:
                if d["snk"] in self.steps:
                    self.mark_step_pending(d["snk"])

    def mark_step_pending(self, key):
        st = self.steps[key]["state"]
        if st in (RUNNING, CHECKING):
            return
        self.set_step_state(key, PENDING)
        if st in (SUCCEEDED, FAILED):
            for d in [e for e in self.deps if e["src"] == key]:
                if d["snk"] in self.files and self.files[d["snk"]]["state"] == FS.BUILT.value:
                    self.mark_file_outdated(d["snk"])

    def reset_for_rerun(self, k):
        for d in [e for e in self.deps if e["snk"] == k and e["dyn"]]:
            self.del_dep(d)
        for d in [e for e in self.deps if e["src"] == k and e["dyn"]]:
            self.del_dep(d)
            if d["snk"] in self.files:
                self.detach_file(d["snk"])
        for key in sorted(s["key"] for s in self.steps.values() if s["creator"] == k):
            self.detach_step(key)
        for key in sorted(f["key"] for f in self.files.values() if f["creator"] == k and f["state"] in STATIC_STATES):
            self.detach_file(key)
        for key in sorted(f["key"] for f in self.files.values() if f["creator"] == k and f["state"] == FS.BUILT.value):
            self.mark_file_outdated(key)

    def term(self) -> str:
        return "[" + "; ".join(self.prims) + "]"


def decompose(op: str, snap: dict, key: int) -> str:
    d = _Decomposer(snap)
    getattr(d, op)(key)
    return d.term()


def decompose_event(ev: dict):
    """Primitive sequence of a history event (None when the event is not decomposed)."""
    op, args, before = ev["op"], ev.get("args") or {}, ev["before"]
    d = _Decomposer(before)
    if op == "start":
        d.reset_for_rerun(args["step"])
    elif op == "mark_pending":
        d.mark_step_pending(args["step"])
    elif op == "end":
        d.update_file_hashes(args["out_hashes"], args["cause"])
        d.mark_completed(args["step"], bool(args["stored_hash"]), bool(args["wants_defer"]), before["defer_cap"])
    elif op == "skip":
        if args["ok"]:
            from stepup.core.enums import HashUpdateCause
            d.update_file_hashes({p: True for p in args["out_hashes"]}, HashUpdateCause.SUCCEEDED.value)
            d.mark_completed(args["step"], True, False, before["defer_cap"])
        else:
            d.reset_to_pending(args["step"])
    elif op == "validate":
        if args["changed"]:
            d.reset_to_pending(args["step"])
        else:
            d.set_step_state(args["step"], PENDING)
    elif op == "external":
        if args.get("skipped"):
            return "[]"
        from stepup.core.enums import HashUpdateCause
        d.update_file_hashes({args["path"]: args["known"]}, HashUpdateCause.EXTERNAL.value)
    else:
        return None
    return d.term()


# ---------------------------------------------------------------------------------------------
# Deterministic replays of the Coq witnesses on the real code
# ---------------------------------------------------------------------------------------------


async def _snap(w):
    from .sched_common import snapshot

    class _S:  # minimal adapter: snapshot() reads .db, .wf, .sched
        pass
    o = _S()
    o.db, o.wf, o.sched = w.db, w.wf, w.sched
    async with w.db:
        return snapshot(o)


async def replay_d8():
    """Witness of C10_del_dep_need_flag_refuted_for_sink_only_trigger on the real Workflow + Scheduler.

    plan (RUNNING) declares p_in.txt and defines P (OPTIONAL, inp p_in.txt, out f.txt) and C
    (DEFAULT).  C runs, amends f.txt (not built yet) and is deferred; P is now needed, runs and
    succeeds; C reruns (reset_for_rerun deletes the dynamic edge f.txt -> C) and this time does not
    amend f.txt.  From then on nothing needs P.  Phase 1 ends; in phase 2 p_in.txt has changed.
    Returns what the real code does: the stale _implied_need of P, whether revert_optional_steps
    reverts P at the end of phase 1, and whether phase 2 executes P."""
    from stepup.core.enums import HashUpdateCause
    from stepup.core.finalize import revert_optional_steps
    from stepup.core.step import Step
    from .sched_common import _fh, _step_hash
    from .wfutil import WF

    async def reporter(*a, **k):
        return None

    out = {}
    async with WF() as w:
        wf, sched, db = w.wf, w.sched, w.db
        async with db:
            w.confirm_static(w.plan, ["p_in.txt"])
            wf.define_step(w.plan, "P", inp_paths=["p_in.txt"], out_paths=["f.txt"], need=Need.OPTIONAL)
            wf.define_step(w.plan, "C", out_paths=["c.txt"])
            P, C = wf.find(Step, "P"), wf.find(Step, "C")
            w.plan.mark_completed(_step_hash("./plan.py"), False)
        trace = []
        job = await sched.pop_next_job()
        trace.append(job.step.label if job else None)           # C
        async with db:
            C.reset_for_rerun()
        async with db:
            unavailable, _unfresh, _ = wf.amend_step(C, inp_paths=["f.txt"],
                                                    ran_concurrently=sched.ran_concurrently)
        out["amend_unavailable"] = sorted(str(p) for p in unavailable)
        async with db:
            C.mark_completed(None, True)                         # deferred
        job = await sched.pop_next_job()
        trace.append(job.step.label if job else None)           # P: needed through the amended input
        async with db:
            P.reset_for_rerun()
        async with db:
            wf.update_file_hashes({"f.txt": _fh("f.txt")}, cause=HashUpdateCause.SUCCEEDED)
            P.mark_completed(_step_hash("P"), False)
        job = await sched.pop_next_job()
        trace.append(job.step.label if job else None)           # C again
        async with db:
            C.reset_for_rerun()                                  # drops the dynamic edge f.txt -> C
        out["before"] = await _snap(w)
        async with db:
            wf.update_file_hashes({"c.txt": _fh("c.txt")}, cause=HashUpdateCause.SUCCEEDED)
            C.mark_completed(_step_hash("C"), False)             # no amend this time
        job = await sched.pop_next_job()
        trace.append(job.step.label if job else None)           # None: phase 1 is over
        out["phase1_end"] = await _snap(w)
        await revert_optional_steps(wf, reporter)
        out["to_be_deleted"] = sorted(wf.to_be_deleted)
        out["after_revert"] = await _snap(w)
        # -- phase 2: p_in.txt edited
        async with db:
            wf.update_file_hashes({"p_in.txt": _fh("p_in.txt", 1)}, cause=HashUpdateCause.EXTERNAL)
        job = await sched.pop_next_job()
        out["phase2_choice"] = job.step.label if job else None
        out["after"] = await _snap(w)
        out["trace"] = trace
    return out


async def replay_d36():
    """Witness of C10_validate_without_defer_refuted on the real Workflow + Scheduler.

    plan (SUCCEEDED) declares a.txt and defines S; S runs, amends a.txt and succeeds (stored hash).
    a.txt is deleted: S becomes PENDING, its dynamic input is MISSING, so its next job is a
    ValidateDynamicJob (state CHECKING).  With the pre-d760e3e outcome `set_state(PENDING)` the scheduler
    hands out the same validation job again; with the outcome of the repository's executor it does not."""
    from stepup.core.enums import HashUpdateCause
    from stepup.core.hash import FileHash
    from stepup.core.job import ValidateDynamicJob
    from stepup.core.step import Step
    from .sched_common import _fh, _step_hash, _validate_unchanged_outcome
    from .wfutil import WF

    def kind(job):
        if job is None:
            return None
        return "validate" if isinstance(job, ValidateDynamicJob) else ("run" if job.step_hash is None else "check")

    out = {}
    async with WF() as w:
        wf, sched, db = w.wf, w.sched, w.db
        async with db:
            w.confirm_static(w.plan, ["a.txt"])
            wf.define_step(w.plan, "S")
            S = wf.find(Step, "S")
            w.plan.mark_completed(_step_hash("./plan.py"), False)
        job = await sched.pop_next_job()
        assert job is not None and job.step.label == "S", job
        async with db:
            S.reset_for_rerun()
        async with db:
            wf.amend_step(S, inp_paths=["a.txt"], ran_concurrently=sched.ran_concurrently)
        async with db:
            S.mark_completed(_step_hash("S"), False)
        assert await sched.pop_next_job() is None
        async with db:
            wf.update_file_hashes({"a.txt": FileHash.unknown()}, cause=HashUpdateCause.EXTERNAL)
        job = await sched.pop_next_job()
        out["first"] = kind(job)
        # the outcome before d760e3e
        async with db:
            S.set_state(StepState.PENDING)
        job = await sched.pop_next_job()
        out["prefix_outcome_next"] = kind(job)
        # the outcome of the repository's executor
        state_name, deferred = _validate_unchanged_outcome()
        async with db:
            if deferred == "unusable_dynamic_input":      # the repaired shape: computed in the outcome transaction
                deferred = bool(S.has_unusable_dynamic_input())
            S.set_state(StepState[state_name], deferred)
        out["repo_outcome"] = [state_name, deferred]
        job = await sched.pop_next_job()
        out["repo_outcome_next"] = kind(job)
        out["after"] = await _snap(w)
    return out


async def replay_d11():
    """Witness of C10_update_meta_refuted_for_min_merge on the real Workflow + Scheduler.

    plan -> c -> b, everything SUCCEEDED.  plan becomes PENDING without a stored hash (what
    persist_nglob_matches does when a glob of plan.py gained a match) and b becomes PENDING (its
    input changed).  One tick (njob = 1) dispatches plan; its rerun detaches and recycles c; plan
    succeeds.  The next tick must dispatch b."""
    from stepup.core.step import Step
    from .sched_common import _step_hash
    from .wfutil import WF
    out = {}
    async with WF() as w:
        wf, sched, db = w.wf, w.sched, w.db
        plan = w.plan
        async with db:
            wf.define_step(plan, "c")
            c = wf.find(Step, "c")
        j = await sched.pop_next_job()
        assert j.step.label == "c"
        async with db:
            c.reset_for_rerun()
            wf.define_step(c, "b", out_paths=["b.txt"])
            b = wf.find(Step, "b")
        async with db:
            c.mark_completed(_step_hash("c"), False)
        j = await sched.pop_next_job()
        assert j.step.label == "b", j
        async with db:
            b.reset_for_rerun()
            b.mark_completed(_step_hash("b"), False)
            plan.mark_completed(_step_hash("./plan.py"), False)
        assert await sched.pop_next_job() is None
        # -- restart: the plan must rerun (no stored hash), b must rerun too
        async with db:
            plan.delete_hash()
            wf.mark_step_pending(plan)
            b.delete_hash()
            wf.mark_step_pending(b)
        j = await sched.pop_next_job()
        out["first_dispatch"] = j.step.label if j else None
        async with db:
            plan.reset_for_rerun()          # detaches c (and with it b)
        async with db:
            wf.define_step(plan, "c")       # full recycle: c is reattached, still SUCCEEDED
        async with db:
            plan.mark_completed(_step_hash("./plan.py", 1), False)
        out["before"] = await _snap(w)
        j = await sched.pop_next_job()
        out["choice"] = j.step.label if j else None
        out["after"] = await _snap(w)
    return out


# ---------------------------------------------------------------------------------------------
# Targeted family: a file with several consumers of different need; the higher-need one drops its edge
# ---------------------------------------------------------------------------------------------

MULTI_VARIANTS = [
    # (name, consumers of f.txt besides the dropper, how the dropper loses its edge)
    ("amend-drop+optional-initial", [("C2", OPTIONAL, "root", False)], "no_amend"),
    ("amend-drop+optional-initial+detached-default", [("C2", OPTIONAL, "root", False), ("C3", DEFAULT, "sub2", True)], "no_amend"),
    ("amend-drop+optional-in-other-subplan", [("C2", OPTIONAL, "sub2", False)], "no_amend"),
    ("amend-drop+two-optional", [("C2", OPTIONAL, "root", False), ("C4", OPTIONAL, "sub2", False)], "no_amend"),
    ("initial-dropped-by-partial-recycle+optional", [("C2", OPTIONAL, "root", False)], "partial_recycle"),
    ("initial-dropped-by-creator+optional", [("C2", OPTIONAL, "sub2", False)], "creator_drops"),
    ("amend-drop+default-stays", [("C2", DEFAULT, "root", False)], "no_amend"),   # control: P stays needed
]


class _Mini:
    """A minimal executor on the real Workflow + Scheduler: runs every dispatched job to completion,
    one at a time, with scripted step behaviours (what a step defines / amends when it runs)."""

    def __init__(self, w):
        self.w = w
        self.defines: dict[str, list] = {}     # label -> list of define_step kwargs
        self.statics: dict[str, list] = {}     # label -> static paths declared when it runs
        self.amends: dict[str, list] = {}      # label -> paths amended as inputs when it runs
        self.dirty: set[str] = set()           # labels whose stored hash no longer matches
        self.salt = 0
        self.log: list = []
        self.ticks: list = []                  # snapshots after the meta updates of every tick

    async def drive(self, maxjobs=60):
        from stepup.core.enums import HashUpdateCause
        from .sched_common import _fh, _step_hash, snapshot
        w = self.w
        wf, sched, db = w.wf, w.sched, w.db
        for _ in range(maxjobs):
            job = await sched.pop_next_job()
            async with db:
                adapter = type("S", (), {"db": db, "wf": wf, "sched": sched})()
                self.ticks.append((snapshot(adapter), job.step.i if job else None))
            if job is None:
                return
            step = job.step
            label = step.label
            async with db:
                state = step.get_state()
            if state == StepState.CHECKING:
                if label not in self.dirty:
                    async with db:
                        outs = {str(r.path): _fh(str(r.path), self._salt()) for r in step.out_paths()
                                if r.state != FileState.BUILT}
                        wf.update_file_hashes(outs, cause=HashUpdateCause.SUCCEEDED)
                        step.mark_completed(job.step_hash, False)
                    self.log.append(("skip", label))
                    continue
                async with db:
                    step.reset_for_rerun()
                    step.delete_hash()
                    step.set_state(StepState.PENDING)
                self.log.append(("mismatch", label))
                continue
            self.dirty.discard(label)
            async with db:
                step.reset_for_rerun()
            self.log.append(("run", label))
            if self.statics.get(label):
                async with db:
                    w.confirm_static(step, self.statics[label])
            for kw in self.defines.get(label, []):
                async with db:
                    wf.define_step(step, **kw)
            unavailable = set()
            if self.amends.get(label):
                async with db:
                    unavailable, _unfresh, _ = wf.amend_step(step, inp_paths=self.amends[label],
                                                            ran_concurrently=sched.ran_concurrently)
            async with db:
                if unavailable:
                    step.mark_completed(None, True)
                    self.log.append(("defer", label))
                else:
                    outs = {str(r.path): _fh(str(r.path), self._salt()) for r in step.out_paths()}
                    wf.update_file_hashes(outs, cause=HashUpdateCause.SUCCEEDED)
                    step.mark_completed(_step_hash(label, self._salt()), False)
        raise RuntimeError("mini executor: too many jobs (livelock?)")

    def _salt(self):
        self.salt += 1
        return self.salt

    async def edit(self, path, consumers_dirty=()):
        from stepup.core.enums import HashUpdateCause
        from .sched_common import _fh
        async with self.w.db:
            self.w.wf.update_file_hashes({path: _fh(path, self._salt())}, cause=HashUpdateCause.EXTERNAL)
        self.dirty.update(consumers_dirty)


from stepup.core.enums import FileState  # noqa: E402


async def multi_consumer_case(variant):
    """One member of the family on the real code. Returns observations for the generic oracle:
    the tick snapshots (after the meta updates) with the dispatched node, the revert event, and the
    dispatches of the phase after an edit of the optional producer's input."""
    from stepup.core.finalize import revert_optional_steps
    from .sched_common import snapshot
    from .wfutil import WF

    name, others, how = variant

    async def reporter(*a, **k):
        return None

    out = {"variant": name}
    async with WF() as w:
        wf, sched, db = w.wf, w.sched, w.db
        async with db:
            w.plan.set_state(StepState.PENDING)   # let the mini executor run the plan as well
        m = _Mini(w)
        dropper_amends = how == "no_amend"
        m.statics["./plan.py"] = ["p_in.txt", "c1_in.txt", "q_in.txt", "q2_in.txt"]
        root_defs = [dict(command="P", inp_paths=["p_in.txt"], out_paths=["f.txt"], need=Need.OPTIONAL),
                     dict(command="Q", inp_paths=["q_in.txt"], need=Need.PLAN),
                     dict(command="Q2", inp_paths=["q2_in.txt"], need=Need.PLAN)]
        c1 = dict(command="C1", inp_paths=["c1_in.txt"] + ([] if dropper_amends else ["f.txt"]), out_paths=["c1.txt"])
        m.defines["Q"] = [c1]
        if dropper_amends:
            m.amends["C1"] = ["f.txt"]
        m.defines["Q2"] = []
        for label, need, where, _detached in others:
            kw = dict(command=label, inp_paths=["f.txt"], out_paths=[label.lower() + ".txt"], need=Need(need))
            (root_defs if where == "root" else m.defines["Q2"]).append(kw)
        m.defines["./plan.py"] = root_defs
        await m.drive()
        # consumers that must be detached: their sub-plan reruns without defining them
        drop_from_q2 = [label for label, _n, where, det in others if det and where == "sub2"]
        if drop_from_q2:
            m.defines["Q2"] = [kw for kw in m.defines["Q2"] if kw["command"] not in drop_from_q2]
            await m.edit("q2_in.txt", ["Q2"])
            await m.drive()
        out["phase1_log"] = list(m.log)
        # -- the higher-need consumer loses its edge
        if how == "no_amend":
            m.amends["C1"] = []
            await m.edit("c1_in.txt", ["C1"])
        elif how == "partial_recycle":
            m.defines["Q"] = [dict(command="C1", inp_paths=["c1_in.txt"], out_paths=["c1.txt"])]
            await m.edit("q_in.txt", ["Q"])
        elif how == "creator_drops":
            m.defines["Q"] = []
            await m.edit("q_in.txt", ["Q"])
        m.ticks.clear()
        await m.drive()
        out["ticks"] = list(m.ticks)
        adapter = type("S", (), {"db": db, "wf": wf, "sched": sched})()
        async with db:
            out["before_revert"] = snapshot(adapter)
        await revert_optional_steps(wf, reporter)
        out["to_be_deleted"] = sorted((p, "none" if h is None else "hash") for p, h in wf.to_be_deleted.items()
                                      if not p.endswith("/"))
        wf.to_be_deleted.clear()
        async with db:
            out["after_revert"] = snapshot(adapter)
        # -- next phase: the input of the optional producer is edited
        await m.edit("p_in.txt", ["P"])
        m.ticks.clear()
        await m.drive()
        out["phase3_ticks"] = list(m.ticks)
        out["log"] = list(m.log)
    return out


def judge_multi_consumer(obs) -> list[tuple[str, str]]:
    """Generic oracle on one case: (symptom, detail) list; empty when everything is as defined."""
    bad = []
    for snap, choice in obs["ticks"] + obs["phase3_ticks"]:
        v = View(snap)
        for col, k, cached, spec in v.cached_vs_spec():
            bad.append((f"cached-{col}", f"step {label_of(snap, k)!r}: {col} = {cached}, definition {spec}"))
        if choice is not None:
            need = v.need_spec(choice)
            if not (need > OPTIONAL and need > snap["threshold"]):
                bad.append(("unneeded-step-dispatched", f"step {label_of(snap, choice)!r} dispatched with need_spec {need}"))
    vb = View(obs["before_revert"])
    after = {s["key"]: s for s in obs["after_revert"]["steps"]}
    exp_queue = {}
    for k, s in vb.steps.items():
        if s["detached"]:
            continue
        opt = vb.need_spec(k) == OPTIONAL
        if opt and after[k]["state"] != PENDING:
            bad.append(("optional-step-not-reverted", f"step {s['label']!r} (need_spec OPTIONAL, cached {s['ineed']}) left in state {after[k]['state']}"))
        if not opt and after[k]["state"] != s["state"]:
            bad.append(("needed-step-reverted", f"step {s['label']!r}"))
        if opt:
            for f in vb.outputs(k):
                if f["state"] in (FS.BUILT.value, FS.OUTDATED.value):
                    exp_queue[f["label"]] = "hash"
                elif f["state"] == FS.VOLATILE.value:
                    exp_queue[f["label"]] = "none"
    if dict(obs["to_be_deleted"]) != exp_queue:
        bad.append(("revert-queue", f"queued {dict(obs['to_be_deleted'])}, outputs of unneeded optional steps {exp_queue}"))
    return bad


def random_multi_variant(rng):
    """A random member of the family: 1-4 further consumers of f.txt with random need, sub-plan and
    attachment; the higher-need consumer drops its edge in a random way."""
    others = []
    for i in range(rng.randint(1, 4)):
        need = rng.choice([OPTIONAL, OPTIONAL, DEFAULT])
        where = rng.choice(["root", "sub2"])
        detached = where == "sub2" and rng.random() < 0.4
        others.append((f"C{i + 2}", need, where, detached))
    how = rng.choice(["no_amend", "no_amend", "partial_recycle", "creator_drops"])
    name = "random:" + how + ":" + ",".join(f"{l}/{n}/{w}/{int(d)}" for l, n, w, d in others)
    return (name, others, how)


def run_multi_consumer_family(variants, fail, count=None):
    """Run the cases and report through fail(signature, name, detail, witness)."""
    from .wfutil import run
    for variant in variants:
        obs = run(multi_consumer_case(variant))
        if count is not None:
            count(variant, obs)
        for symptom, detail in judge_multi_consumer(obs):
            fail(f"multi-consumer-edge-drop:{symptom}", "multi-consumer:" + symptom,
                 f"file f.txt of the OPTIONAL producer P has several consumers of different need; the higher-need one "
                 f"dropped its edge ({variant[2]}) while {[(l, n) for l, n, _w, _d in variant[1]]} stayed: {detail}",
                 {"family": "multi-consumer-edge-drop", "variant": variant[0], "others": [list(x) for x in variant[1]],
                  "how": variant[2], "log": [list(x) for x in obs["log"]], "to_be_deleted": [list(x) for x in obs["to_be_deleted"]],
                  "before_revert": obs["before_revert"]})
