"""C16: scenario generators and Gallina printers for the correspondence with model/Rpc.v."""
from __future__ import annotations

import pickle

from stepup.core.rpc import MAX_BODY_SIZE, RPCCall, _encode_body, _encode_message

from .common import coq_bool, coq_list, coq_str

COQ_HEADER = r"""
From Coq Require Import List Arith NArith Bool.
Import ListNotations.
From SV Require Import lib.Bytes lib.RpcTypes gen.GenRpc model.Rpc.
Open Scope N_scope.
Definition sub (s : str) (lo n : nat) : str := firstn n (skipn lo s).
Fixpoint assoc {A} (tbl : list (str * A)) (b : str) : option A :=
  match tbl with [] => None | (k, v) :: r => if str_eqb k b then Some v else assoc r b end.
Definition S_work := [119;111;114;107].
Definition S_quick := [113;117;105;99;107].
Definition S_hidden := [104;105;100;100;101;110].
Definition S_hidden_async := [104;105;100;100;101;110;95;97;115;121;110;99].
Definition S_not_callable := [110;111;116;95;99;97;108;108;97;98;108;101].
Definition hlookup (n : str) : lookup :=
  if str_eqb n S_work || str_eqb n S_quick then LAllowed
  else if str_eqb n S_hidden || str_eqb n S_hidden_async || str_eqb n S_not_callable then LNotAllowed
  else LMissing.
Definition kind_eqb (a b : kind) := match a, b with KOk, KOk | KUsage, KUsage | KGeneric, KGeneric | KSentinel, KSentinel => true | _, _ => false end.
Definition status_eqb (a b : status) := match a, b with StUp, StUp | StClosed, StClosed | StFailedRecv, StFailedRecv | StFailedSend, StFailedSend => true | _, _ => false end.
Fixpoint list_eqb {A} (eq : A -> A -> bool) (a b : list A) : bool :=
  match a, b with [], [] => true | x :: a', y :: b' => eq x y && list_eqb eq a' b' | _, _ => false end.
Definition wk_eqb (a b : N * kind) := (fst a =? fst b) && kind_eqb (snd a) (snd b).
Fixpoint insert (x : N) (l : list N) := match l with [] => [x] | y :: r => if x <=? y then x :: l else y :: insert x r end.
Definition sortN (l : list N) := fold_right insert [] l.
Definition opt_eqb (a b : option str) := match a, b with None, None => true | Some x, Some y => str_eqb x y | _, _ => false end.
(* observation of the implementation after one event *)
Record ob := mk_ob { o_wire : list (N * kind); o_queue : list N; o_inflight : list N; o_invoked : list str;
  o_cancelled : list N; o_finished : list N; o_stop : bool; o_status : status; o_draining : bool }.
Definition wire_ok (c : conn) (w : list (N * kind)) : bool :=
  existsb (fun n => list_eqb wk_eqb w (c_wire c ++ map (fun r => (fst r, kind_of (snd r))) (firstn n (c_racy c))))
          (seq 0 (S (length (c_racy c)))).
Definition ob_ok (c : conn) (o : ob) : bool :=
  wire_ok c (o_wire o)
  && (if sender_alive (c_send c) then list_eqb N.eqb (map fst (c_queue c)) (o_queue o) else true)
  && list_eqb N.eqb (map fst (c_inflight c)) (o_inflight o)
  && list_eqb str_eqb (c_invoked c) (o_invoked o)
  && list_eqb N.eqb (sortN (c_cancelled c)) (sortN (o_cancelled o))
  && list_eqb N.eqb (c_completed c) (o_finished o)
  && Bool.eqb (c_stop c) (o_stop o)
  && status_eqb (status_of c) (o_status o)
  && Bool.eqb (match c_send c with SDrain | SDrainFail => true | _ => false end) (o_draining o).
Fixpoint obs_ok (cs : list conn) (os : list ob) : bool :=
  match cs, os with [], [] => true | c :: cs', o :: os' => ob_ok c o && obs_ok cs' os' | _, _ => false end.
Definition cres_eqb (a b : cresult) := match a, b with CRConnLost, CRConnLost => true | CRBody x, CRBody y => opt_eqb x y | _, _ => false end.
Definition done_eqb (a b : N * cresult) := (fst a =? fst b) && cres_eqb (snd a) (snd b).
Definition pend_eqb (a b : N * bool) := (fst a =? fst b) && Bool.eqb (snd a) (snd b).
Definition item_eqb (a b : ritem) := match a, b with
  | IMsg i x, IMsg j y => (i =? j) && opt_eqb x y | IOversize i s, IOversize j t => (i =? j) && (s =? t) | _, _ => false end.
Definition sync_eqb (a b : sync_result) := match a, b with
  | SyOk x, SyOk y => opt_eqb x y | SyMismatch i, SyMismatch j => i =? j | SyConnReset, SyConnReset => true
  | SyBadFrame, SyBadFrame => true | _, _ => false end.
"""

OUTCOMES = {"ok": "OReturn", "unpicklable": "OUnpicklable", "usage": "(ORaise true)", "usage2": "(ORaise true)",
            "internal": "(ORaise false)"}
KINDS = {"ok": "KOk", "usage": "KUsage", "generic": "KGeneric", "sentinel": "KSentinel"}
STATUS = {"up": "StUp", "closed": "StClosed"}


def coq_status(s):
    if s in STATUS:
        return STATUS[s]
    if s.startswith("failed:"):
        names = set(s[7:].split(","))
        if names <= {"RPCError", "OSError"}:
            return "StFailedRecv"
        return "StFailedSend"
    raise ValueError(s)


def coq_nlist(xs):
    return "[" + ";".join(str(x) for x in xs) + "]"


# ---------------------------------------------------------------------------------------------
# messages of a scenario
# ---------------------------------------------------------------------------------------------

def make_message(rng, call_id, kind):
    """Returns (wire bytes, body bytes or None, classification or None, description)."""
    if kind == "work":
        body = _encode_body(RPCCall("work", (call_id,), {}))
        return _encode_message(call_id, body), body, ("work", True, None), f"work({call_id})"
    if kind.startswith("quick:"):
        oc = kind.split(":")[1]
        body = _encode_body(RPCCall("quick", (call_id, oc), {}))
        return _encode_message(call_id, body), body, ("quick", True, oc), f"quick({call_id},{oc})"
    if kind in ("hidden", "hidden_async", "not_callable", "nosuch", "_private", "__class__"):
        body = _encode_body(RPCCall(kind, (call_id,), {}))
        return _encode_message(call_id, body), body, (kind, True, None), f"{kind}({call_id})"
    if kind == "badargs":
        body = _encode_body(RPCCall("work", (), {"nope": 1}))
        return _encode_message(call_id, body), body, ("work", False, None), "work(nope=1)"
    if kind == "close":
        return _encode_message(call_id, None), None, None, "close"
    if kind == "emptybytes":
        return _encode_message(call_id, b""), None, None, "close(b'')"
    if kind == "badbody":
        body = rng.choice([b"GET / HTTP/1.1\r\n", pickle.dumps(("not", "a call")), pickle.dumps(None), b"\x80"])
        return _encode_message(call_id, body), body, "bad", "badbody"
    if kind == "oversize":
        size = rng.choice([MAX_BODY_SIZE + 1, MAX_BODY_SIZE + 7, 2 ** 40, 2 ** 64 - 1, int.from_bytes(b"HTTP/1.1", "big")])
        return call_id.to_bytes(8, "big") + size.to_bytes(8, "big") + b"xx", None, None, f"oversize({size})"
    if kind == "maxsize":  # exactly MAX_BODY_SIZE is accepted: the reader then waits for the body
        return call_id.to_bytes(8, "big") + MAX_BODY_SIZE.to_bytes(8, "big") + b"tail", None, None, "maxsize"
    raise AssertionError(kind)


def classify_table(msgs):
    """Gallina association list body -> option request for the bodies used in a scenario."""
    seen, rows = set(), []
    for _, body, cls, _ in msgs:
        if body is None or body in seen:
            continue
        seen.add(body)
        if cls == "bad" or cls is None:
            continue  # absent from the table = classify gives None
        name, args_ok, imm = cls
        immc = "None" if imm is None else f"(Some {OUTCOMES[imm]})"
        rows.append(f"({coq_str(body)}, mk_rq {coq_str(name)} {coq_bool(args_ok)} {immc})")
    return "[" + "; ".join(rows) + "]"


def fragment(rng, data: bytes, style):
    """Cut `data` into fragments. style: 'one', 'bytes', 'random', 'hdr' (cuts inside headers)."""
    n = len(data)
    if n == 0:
        return []
    if style == "one":
        return [data]
    if style == "bytes":
        return [data[i:i + 1] for i in range(n)]
    cuts = set()
    k = rng.randint(1, max(1, min(12, n - 1)))
    for _ in range(k):
        cuts.add(rng.randint(1, max(1, n - 1)))
    if style == "hdr":
        for _ in range(4):
            c = rng.randint(1, max(1, min(n - 1, 40)))
            cuts.add(c)
            cuts.add(min(n - 1, c + 1) or 1)
    cuts = sorted(c for c in cuts if 0 < c < n)
    out, prev = [], 0
    for c in cuts + [n]:
        out.append(data[prev:c])
        prev = c
    return out


def server_scenario(rng, size):
    """A random event list for one connection: returns (events, msgs, stream)."""
    nmsg = rng.randint(1, size)
    kinds_ok = ["work"] * 6 + ["quick:ok", "quick:usage", "quick:internal", "hidden", "nosuch", "badargs",
                               "hidden_async", "not_callable", "_private", "__class__"]
    faults = ["close", "emptybytes", "badbody", "oversize", "maxsize", "quick:unpicklable"]
    msgs = []
    ids = []
    next_id = rng.choice([1, 1, 1, 7, 2 ** 32, 2 ** 64 - 40])
    dup = rng.random() < 0.08
    pfault = rng.choice([0.0, 0.0, 0.1, 0.25])
    for i in range(nmsg):
        kind = rng.choice(faults) if rng.random() < pfault else rng.choice(kinds_ok)
        cid = next_id if not (dup and ids and rng.random() < 0.4) else rng.choice(ids)
        next_id += rng.choice([1, 1, 1, 3])
        msgs.append(make_message(rng, cid, kind))
        if kind == "work":
            ids.append(cid)
    stream = b"".join(m[0] for m in msgs)
    frags = fragment(rng, stream, rng.choice(["one", "random", "random", "hdr", "hdr", "bytes" if len(stream) < 400 else "hdr"]))
    # interleave the other events between the fragments
    events = []
    todo = list(ids)
    pcomplete = rng.choice([0.3, 0.6, 1.0])
    psent = rng.choice([0.2, 0.6, 1.5])
    pfault2 = rng.choice([0.0, 0.0, 0.02, 0.06])
    outcomes = ["ok"] * 4 + ["usage", "usage2", "internal", "internal"] + (["unpicklable"] if rng.random() < 0.3 else [])

    def extras():
        while todo and rng.random() < pcomplete / (1 + pcomplete):
            cid = todo.pop(rng.randrange(len(todo)))
            events.append(["complete", cid, rng.choice(outcomes)])
            if rng.random() < psent / (1 + psent):
                events.append(["sent"])
        while rng.random() < psent / (1 + psent):
            events.append(["sent"])
        r = rng.random()
        if r < pfault2:
            events.append([rng.choice(["stop", "peergone", "garbage", "sentfail", "sentfail"])])

    pos = 0
    for f in frags:
        events.append(["recv", pos, len(f)])
        pos += len(f)
        extras()
    # tail: complete what is left in random order, drain, maybe end the connection
    for _ in range(3):
        extras()
    rng.shuffle(todo)
    for cid in todo:
        events.append(["complete", cid, rng.choice(outcomes)])
        if rng.random() < 0.7:
            events.append(["sent"])
    todo.clear()
    if rng.random() < 0.5:
        events.append([rng.choice(["stop", "peergone", "peergone", "garbage", "sentfail"])])
    for _ in range(rng.randint(0, 4)):
        events.append(["sent"])
    return events, msgs, stream


def coq_event(ev):
    k = ev[0]
    if k == "recv":
        return f"EvRecv (sub stream {ev[1]} {ev[2]})"
    if k == "complete":
        return f"EvComplete {ev[1]} {OUTCOMES[ev[2]]}"
    return {"sent": "EvSent", "sentfail": "EvSendFail", "peergone": "EvPeerGone", "garbage": "EvGarbage",
            "stop": "EvStop"}[k]


def coq_ob(o):
    wire = "[" + ";".join(f"({cid},{KINDS[k]})" for cid, k in o["sent"]) + "]"
    return (f"mk_ob {wire} {coq_nlist(o['queued_ids'])} {coq_nlist(o['in_flight'])} "
            f"{coq_list([coq_str(n) for n in o['invoked']])} {coq_nlist(o['cancelled'])} {coq_nlist(o['finished'])} "
            f"{coq_bool(o['stop'])} {coq_status(o['status'])} {coq_bool(o['draining'])}")


def server_check_term(events, msgs, stream, obs):
    """Gallina bool: the model's trace agrees with the observations obs[1:] (obs[0] is the start)."""
    return (f"let stream := {coq_str(stream)} in let tbl := {classify_table(msgs)} in "
            f"ob_ok conn_init ({coq_ob(obs[0])}) && "
            f"obs_ok (trace (assoc tbl) hlookup conn_init {coq_list([coq_event(e) for e in events])}) "
            f"{coq_list(['(' + coq_ob(o) + ')' for o in obs[1:]])}")
