"""C16: scenario generators and Gallina printers for the correspondence with model/Rpc.v."""
from __future__ import annotations

import pickle

from stepup.core.rpc import MAX_BODY_SIZE, RPCCall, _encode_body, _encode_message

from .common import coq_bool, coq_list, coq_str

COQ_HEADER = r"""
From Coq Require Import String Ascii.
From Coq Require Import List Arith NArith Bool.
Import ListNotations.
From SV Require Import lib.Bytes lib.RpcTypes gen.GenRpc model.Rpc.
Open Scope N_scope.
Definition hexval (a : ascii) : N := let n := N_of_ascii a in if n <? 58 then n - 48 else n - 87.
Fixpoint hex (s : string) : str :=
  match s with String a (String b r) => (hexval a * 16 + hexval b) :: hex r | _ => [] end.
Definition sub (s : str) (lo n : nat) : str := firstn n (skipn lo s).
Fixpoint assoc {A} (tbl : list (str * A)) (b : str) : option A :=
  match tbl with [] => None | (k, v) :: r => if str_eqb k b then Some v else assoc r b end.
Definition S_work := [119;111;114;107].
Definition S_quick := [113;117;105;99;107].
Definition S_hidden := [104;105;100;100;101;110].
Definition S_hidden_async := [104;105;100;100;101;110;95;97;115;121;110;99].
Definition S_not_callable := [110;111;116;95;99;97;108;108;97;98;108;101].
Definition hlookup (n : str) : lookup :=
  if str_eqb n S_work || str_eqb n S_quick then LAllowed
  else if str_eqb n S_hidden || str_eqb n S_hidden_async || str_eqb n S_not_callable then LNotAllowed
  else LMissing.
Definition kind_eqb (a b : kind) := match a, b with KOk, KOk | KUsage, KUsage | KGeneric, KGeneric | KSentinel, KSentinel => true | _, _ => false end.
Definition status_eqb (a b : status) := match a, b with StUp, StUp | StClosed, StClosed | StFailedRecv, StFailedRecv | StFailedSend, StFailedSend => true | _, _ => false end.
Fixpoint list_eqb {A} (eq : A -> A -> bool) (a b : list A) : bool :=
  match a, b with [], [] => true | x :: a', y :: b' => eq x y && list_eqb eq a' b' | _, _ => false end.
Definition wk_eqb (a b : N * kind) := (fst a =? fst b) && kind_eqb (snd a) (snd b).
Fixpoint insert (x : N) (l : list N) := match l with [] => [x] | y :: r => if x <=? y then x :: l else y :: insert x r end.
Definition sortN (l : list N) := fold_right insert [] l.
Definition opt_eqb (a b : option str) := match a, b with None, None => true | Some x, Some y => str_eqb x y | _, _ => false end.
(* observation of the implementation after one event *)
Record ob := mk_ob { o_wire : list (N * kind); o_queue : list N; o_inflight : list N; o_invoked : list str;
  o_cancelled : list N; o_finished : list N; o_stop : bool; o_status : status; o_draining : bool }.
Definition wire_ok (c : conn) (w : list (N * kind)) : bool :=
  existsb (fun n => list_eqb wk_eqb w (c_wire c ++ map (fun r => (fst r, kind_of (snd r))) (firstn n (c_racy c))))
          (seq 0 (S (length (c_racy c)))).
Definition ob_ok (c : conn) (o : ob) : bool :=
  wire_ok c (o_wire o)
  && (if sender_alive (c_send c) then list_eqb N.eqb (map fst (c_queue c)) (o_queue o) else true)
  && list_eqb N.eqb (map fst (c_inflight c)) (o_inflight o)
  && list_eqb str_eqb (c_invoked c) (o_invoked o)
  && list_eqb N.eqb (sortN (c_cancelled c)) (sortN (o_cancelled o))
  && list_eqb N.eqb (c_completed c) (o_finished o)
  && Bool.eqb (c_stop c) (o_stop o)
  && status_eqb (status_of c) (o_status o)
  && Bool.eqb (match c_send c with SDrain | SDrainFail => true | _ => false end) (o_draining o).
(* intermediate observations carry only the lengths of the append-only lists *)
Record lob := mk_lob { l_nwire : nat; l_queue : list N; l_inflight : list N; l_ninvoked : nat;
  l_cancelled : list N; l_nfinished : nat; l_stop : bool; l_status : status; l_draining : bool }.
Definition lob_ok (c : conn) (o : lob) : bool :=
  (Nat.leb (length (c_wire c)) (l_nwire o) && Nat.leb (l_nwire o) (length (c_wire c) + length (c_racy c)))
  && (if sender_alive (c_send c) then list_eqb N.eqb (map fst (c_queue c)) (l_queue o) else true)
  && list_eqb N.eqb (map fst (c_inflight c)) (l_inflight o)
  && Nat.eqb (length (c_invoked c)) (l_ninvoked o)
  && list_eqb N.eqb (sortN (c_cancelled c)) (sortN (l_cancelled o))
  && Nat.eqb (length (c_completed c)) (l_nfinished o)
  && Bool.eqb (c_stop c) (l_stop o)
  && status_eqb (status_of c) (l_status o)
  && Bool.eqb (match c_send c with SDrain | SDrainFail => true | _ => false end) (l_draining o).
Fixpoint obs_ok (cs : list conn) (os : list lob) (last : ob) : bool :=
  match cs, os with
  | [c], [] => ob_ok c last
  | c :: cs', o :: os' => lob_ok c o && obs_ok cs' os' last
  | _, _ => false
  end.
Definition cres_eqb (a b : cresult) := match a, b with CRConnLost, CRConnLost => true | CRBody x, CRBody y => opt_eqb x y | _, _ => false end.
Definition done_eqb (a b : N * cresult) := (fst a =? fst b) && cres_eqb (snd a) (snd b).
Definition pend_eqb (a b : N * bool) := (fst a =? fst b) && Bool.eqb (snd a) (snd b).
Definition item_eqb (a b : ritem) := match a, b with
  | IMsg i x, IMsg j y => (i =? j) && opt_eqb x y | IOversize i s, IOversize j t => (i =? j) && (s =? t) | _, _ => false end.
Definition sync_eqb (a b : sync_result) := match a, b with
  | SyOk x, SyOk y => opt_eqb x y | SyMismatch i, SyMismatch j => i =? j | SyConnReset, SyConnReset => true
  | SyBadFrame, SyBadFrame => true | _, _ => false end.
"""

OUTCOMES = {"ok": "OReturn", "unpicklable": "OUnpicklable", "usage": "(ORaise true)", "usage2": "(ORaise true)",
            "internal": "(ORaise false)",
            # a CancelledError / BaseException raised by the handler itself is captured like any internal error
            "cancel_self": "(ORaise false)", "await_cancelled": "(ORaise false)", "base_exc": "(ORaise false)"}
KINDS = {"ok": "KOk", "usage": "KUsage", "generic": "KGeneric", "sentinel": "KSentinel"}
STATUS = {"up": "StUp", "closed": "StClosed"}


def coq_status(s):
    if s in STATUS:
        return STATUS[s]
    if s.startswith("failed:"):
        names = set(s[7:].split(","))
        if names <= {"RPCError", "OSError"}:
            return "StFailedRecv"
        return "StFailedSend"
    raise ValueError(s)


def coq_hex(b: bytes) -> str:
    return f'(hex "{b.hex()}"%string)'


def coq_nlist(xs):
    return "[" + ";".join(str(x) for x in xs) + "]"


# ---------------------------------------------------------------------------------------------
# messages of a scenario
# ---------------------------------------------------------------------------------------------

def make_message(rng, call_id, kind):
    """Returns (wire bytes, body bytes or None, classification or None, description)."""
    if kind == "work":
        body = _encode_body(RPCCall("work", (call_id,), {}))
        return _encode_message(call_id, body), body, ("work", True, None), f"work({call_id})"
    if kind.startswith("quick:"):
        oc = kind.split(":")[1]
        body = _encode_body(RPCCall("quick", (call_id, oc), {}))
        return _encode_message(call_id, body), body, ("quick", True, oc), f"quick({call_id},{oc})"
    if kind in ("hidden", "hidden_async", "not_callable", "nosuch", "_private", "__class__"):
        body = _encode_body(RPCCall(kind, (call_id,), {}))
        return _encode_message(call_id, body), body, (kind, True, None), f"{kind}({call_id})"
    if kind == "badargs":
        body = _encode_body(RPCCall("work", (), {"nope": 1}))
        return _encode_message(call_id, body), body, ("work", False, None), "work(nope=1)"
    if kind == "close":
        return _encode_message(call_id, None), None, None, "close"
    if kind == "emptybytes":
        return _encode_message(call_id, b""), None, None, "close(b'')"
    if kind == "badbody":
        body = rng.choice([b"GET / HTTP/1.1\r\n", pickle.dumps(("not", "a call")), pickle.dumps(None), b"\x80"])
        return _encode_message(call_id, body), body, "bad", "badbody"
    if kind == "oversize":
        size = rng.choice([MAX_BODY_SIZE + 1, MAX_BODY_SIZE + 7, 2 ** 40, 2 ** 64 - 1, int.from_bytes(b"HTTP/1.1", "big")])
        return call_id.to_bytes(8, "big") + size.to_bytes(8, "big") + b"xx", None, None, f"oversize({size})"
    if kind == "maxsize":  # exactly MAX_BODY_SIZE is accepted: the reader then waits for the body
        return call_id.to_bytes(8, "big") + MAX_BODY_SIZE.to_bytes(8, "big") + b"tail", None, None, "maxsize"
    raise AssertionError(kind)


def classify_table(msgs):
    """Gallina association list body -> option request for the bodies used in a scenario."""
    seen, rows = set(), []
    for _, body, cls, _ in msgs:
        if body is None or body in seen:
            continue
        seen.add(body)
        if cls == "bad" or cls is None:
            continue  # absent from the table = classify gives None
        name, args_ok, imm = cls
        immc = "None" if imm is None else f"(Some {OUTCOMES[imm]})"
        rows.append(f"({coq_hex(body)}, mk_rq {coq_str(name)} {coq_bool(args_ok)} {immc})")
    return "[" + "; ".join(rows) + "]"


def fragment(rng, data: bytes, style):
    """Cut `data` into fragments. style: 'one', 'bytes', 'random', 'hdr' (cuts inside headers)."""
    n = len(data)
    if n == 0:
        return []
    if style == "one":
        return [data]
    if style == "bytes":
        return [data[i:i + 1] for i in range(n)]
    cuts = set()
    k = rng.randint(1, max(1, min(12, n - 1)))
    for _ in range(k):
        cuts.add(rng.randint(1, max(1, n - 1)))
    if style == "hdr":
        for _ in range(4):
            c = rng.randint(1, max(1, min(n - 1, 40)))
            cuts.add(c)
            cuts.add(min(n - 1, c + 1) or 1)
    cuts = sorted(c for c in cuts if 0 < c < n)
    out, prev = [], 0
    for c in cuts + [n]:
        out.append(data[prev:c])
        prev = c
    return out


def server_scenario(rng, size):
    """A random event list for one connection: returns (events, msgs, stream)."""
    nmsg = rng.randint(1, size)
    kinds_ok = ["work"] * 6 + ["quick:ok", "quick:usage", "quick:internal", "quick:cancel_self", "quick:base_exc", "hidden", "nosuch", "badargs",
                               "hidden_async", "not_callable", "_private", "__class__"]
    faults = ["close", "emptybytes", "badbody", "oversize", "maxsize", "quick:unpicklable"]
    msgs = []
    ids = []
    next_id = rng.choice([1, 1, 1, 7, 2 ** 32, 2 ** 64 - 40])
    dup = rng.random() < 0.08
    pfault = rng.choice([0.0, 0.0, 0.1, 0.25])
    for i in range(nmsg):
        kind = rng.choice(faults) if rng.random() < pfault else rng.choice(kinds_ok)
        cid = next_id if not (dup and ids and rng.random() < 0.4) else rng.choice(ids)
        next_id += rng.choice([1, 1, 1, 3])
        msgs.append(make_message(rng, cid, kind))
        if kind == "work":
            ids.append(cid)
    stream = b"".join(m[0] for m in msgs)
    frags = fragment(rng, stream, rng.choice(["one", "random", "random", "hdr", "hdr", "bytes" if len(stream) < 400 else "hdr"]))
    # interleave the other events between the fragments
    events = []
    todo = list(ids)
    pcomplete = rng.choice([0.3, 0.6, 1.0])
    psent = rng.choice([0.2, 0.6, 1.5])
    pfault2 = rng.choice([0.0, 0.0, 0.02, 0.06])
    outcomes = (["ok"] * 4 + ["usage", "usage2", "internal", "internal", rng.choice(["cancel_self", "await_cancelled", "base_exc"])]
                + (["unpicklable"] if rng.random() < 0.3 else []))

    def extras():
        while todo and rng.random() < pcomplete / (1 + pcomplete):
            cid = todo.pop(rng.randrange(len(todo)))
            events.append(["complete", cid, rng.choice(outcomes)])
            if rng.random() < psent / (1 + psent):
                events.append(["sent"])
        while rng.random() < psent / (1 + psent):
            events.append(["sent"])
        r = rng.random()
        if r < pfault2:
            events.append([rng.choice(["stop", "peergone", "garbage", "sentfail", "sentfail"])])

    pos = 0
    for f in frags:
        events.append(["recv", pos, len(f)])
        pos += len(f)
        extras()
    # tail: complete what is left in random order, drain, maybe end the connection
    for _ in range(3):
        extras()
    rng.shuffle(todo)
    for cid in todo:
        events.append(["complete", cid, rng.choice(outcomes)])
        if rng.random() < 0.7:
            events.append(["sent"])
    todo.clear()
    if rng.random() < 0.5:
        events.append([rng.choice(["stop", "peergone", "peergone", "garbage", "sentfail"])])
    for _ in range(rng.randint(0, 4)):
        events.append(["sent"])
    return events, msgs, stream


def coq_event(ev):
    k = ev[0]
    if k == "recv":
        return f"EvRecv (sub stream {ev[1]} {ev[2]})"
    if k == "complete":
        return f"EvComplete {ev[1]} {OUTCOMES[ev[2]]}"
    return {"sent": "EvSent", "sentfail": "EvSendFail", "peergone": "EvPeerGone", "garbage": "EvGarbage",
            "stop": "EvStop"}[k]


def coq_ob(o):
    wire = "[" + ";".join(f"({cid},{KINDS[k]})" for cid, k in o["sent"]) + "]"
    return (f"mk_ob {wire} {coq_nlist(o['queued_ids'])} {coq_nlist(o['in_flight'])} "
            f"{coq_list([coq_str(n) for n in o['invoked']])} {coq_nlist(o['cancelled'])} {coq_nlist(o['finished'])} "
            f"{coq_bool(o['stop'])} {coq_status(o['status'])} {coq_bool(o['draining'])}")


def coq_lob(o):
    return (f"(mk_lob {len(o['sent'])} {coq_nlist(o['queued_ids'])} {coq_nlist(o['in_flight'])} "
            f"{len(o['invoked'])} {coq_nlist(o['cancelled'])} {len(o['finished'])} "
            f"{coq_bool(o['stop'])} {coq_status(o['status'])} {coq_bool(o['draining'])})")


def server_check_term(events, msgs, stream, obs):
    """Gallina bool: the model's trace agrees with the observations after every event.

    The written replies, the invoked procedures and the finished handlers only ever grow (checked
    on the implementation's side by the harness), so the intermediate observations carry their
    lengths and the last one the full lists."""
    if not events:
        return f"ob_ok conn_init ({coq_ob(obs[0])})"
    return (f"let stream : str := {coq_hex(stream)} in let tbl := {classify_table(msgs)} in "
            f"ob_ok conn_init ({coq_ob(obs[0])}) && "
            f"obs_ok (trace (assoc tbl) hlookup conn_init {coq_list([coq_event(e) for e in events])}) "
            f"{coq_list([coq_lob(o) for o in obs[1:-1]])} ({coq_ob(obs[-1])})")


# ---------------------------------------------------------------------------------------------
# client scenarios
# ---------------------------------------------------------------------------------------------

COQ_HEADER_CLIENT = COQ_HEADER + r"""
Record cob := mk_cob { b_alive : bool; b_failed : bool; b_counter : N; b_pending : list (N * bool); b_ndone : nat }.
Definition cob_ok (k : client) (o : cob) : bool :=
  Bool.eqb (k_alive k) (b_alive o) && Bool.eqb (k_failed k) (b_failed o) && (k_counter k =? b_counter o)
  && list_eqb pend_eqb (k_pending k) (b_pending o) && Nat.eqb (length (k_done k)) (b_ndone o).
Fixpoint ctrace_ok (k : client) (evs : list cevent) (os : list cob) : bool :=
  match evs, os with
  | [], [] => true
  | e :: r, o :: os' => let k' := cstep k e in cob_ok k' o && ctrace_ok k' r os'
  | _, _ => false
  end.
Fixpoint sync_calls (exps : list N) (st : rphase) (buf : list ritem) (frags : list str) : list sync_result :=
  match exps with
  | [] => []
  | e :: r => let '(res, st', buf', frags') := sync_recv e st buf frags in
              match res with
              | SyOk _ | SyMismatch _ => res :: sync_calls r st' buf' frags'
              | _ => [res]
              end
  end.
"""


def reply_body(rng, nonce):
    """A unique, self-identifying response body (or None for the sentinel)."""
    from stepup.core.rpc import RemoteFailure
    kind = rng.choice(["ok", "ok", "ok", "usage", "internal", "none"])
    if kind == "ok":
        return _encode_body(("ok", nonce)), kind
    if kind == "usage":
        return _encode_body(RemoteFailure("stepup.core.exceptions", rng.choice(["CyclicError", "GraphError"]),
                                          f"u{nonce}#", f"TB u{nonce}#", True)), kind
    if kind == "internal":
        return _encode_body(RemoteFailure("builtins", "RuntimeError", f"i{nonce}#", f"TB i{nonce}#", False)), kind
    return None, kind


def client_scenario(rng, size):
    ncall = rng.randint(1, size)
    replies = []
    ids = list(range(1, ncall + 1))
    rng.shuffle(ids)
    p_weird = rng.choice([0.0, 0.0, 0.15])
    nonce = 100
    for cid in ids:
        if rng.random() < 0.15:
            continue  # never answered
        nonce += 1
        r = rng.random()
        if r < p_weird / 3:
            replies.append(("oversize", cid, None, nonce))
        elif r < 2 * p_weird / 3:
            replies.append(("msg", rng.choice([0, ncall + 5, cid, 2 ** 63]), *reply_body(rng, nonce)[:1], nonce))
            replies.append(("msg", cid, *reply_body(rng, nonce + 1000)[:1], nonce + 1000))
        else:
            replies.append(("msg", cid, reply_body(rng, nonce)[0], nonce))
    stream = b""
    bodies = {}
    for kind, cid, body, n in replies:
        if kind == "oversize":
            stream += cid.to_bytes(8, "big") + (MAX_BODY_SIZE + 1 + n).to_bytes(8, "big")
        else:
            stream += _encode_message(cid, body)
            bodies[n] = body
    frags = fragment(rng, stream, rng.choice(["one", "random", "hdr", "hdr", "bytes" if len(stream) < 300 else "random"]))
    events = []
    calls_left = ncall
    issued = 0
    early = rng.random() < 0.6
    if early:  # issue most calls first, so that replies find them pending
        k = rng.randint(max(1, ncall - 1), ncall)
        for _ in range(k):
            events.append(["call"])
            issued += 1
        calls_left -= k
    pos = 0
    for f in frags:
        while calls_left and rng.random() < 0.5:
            events.append(["call"])
            calls_left -= 1
            issued += 1
        if issued and rng.random() < 0.08:
            events.append(["cancel", rng.randint(1, issued)])
        events.append(["recv", pos, len(f)])
        pos += len(f)
        if rng.random() < 0.03:
            events.append(["peergone"])
    while calls_left:
        events.append(["call"])
        calls_left -= 1
    r = rng.random()
    if r < 0.4:
        events.append(["peergone"])
    elif r < 0.8:
        events.append(["close"])
    if rng.random() < 0.3:
        events.append(["call"])
    return events, stream, bodies


def coq_cevent(ev):
    k = ev[0]
    if k == "call":
        return "CCall"
    if k == "cancel":
        return f"CCancel {ev[1]}"
    if k == "recv":
        return f"CRecv (sub stream {ev[1]} {ev[2]})"
    return {"peergone": "CPeerGone", "close": "CClose"}[k]


def real_done_to_coq(done, bodies):
    """Map the outcomes the callers saw back to what their future must have received."""
    import re
    out = []
    for cid, oc in done:
        if oc[0] == "value":
            nonce = oc[1][1]
            out.append(f"({cid}, CRBody (Some {coq_hex(bodies[nonce])}))")
        else:
            _, cls, msg = oc
            if cls == "ConnectionResetError":
                out.append(f"({cid}, CRConnLost)")
            elif cls == "RPCError" and "could not send a reply" in msg:
                out.append(f"({cid}, CRBody None)")
            else:
                m = re.search(r"[ui](\d+)#", msg)
                if not m:
                    out.append(f"({cid}, CRBody (Some [255]))")  # unexplained outcome: cannot match
                else:
                    out.append(f"({cid}, CRBody (Some {coq_hex(bodies[int(m.group(1))])}))")
    return "[" + "; ".join(out) + "]"


def coq_cob(o):
    pend = "[" + ";".join(f"({c},{coq_bool(w)})" for c, w in o["pending"]) + "]"
    return f"(mk_cob {coq_bool(o['alive'])} {coq_bool(o['failed'])} {o['counter']} {pend} {len(o['done'])})"


def client_check_term(events, stream, bodies, obs):
    evs = coq_list([coq_cevent(e) for e in events])
    return (f"let stream : str := {coq_hex(stream)} in "
            f"cob_ok client_init {coq_cob(obs[0])} && ctrace_ok client_init {evs} {coq_list([coq_cob(o) for o in obs[1:]])} "
            f"&& list_eqb done_eqb (k_done (crun client_init {evs})) {real_done_to_coq(obs[-1]['done'], bodies)}")


def sync_scenario(rng):
    n = rng.randint(1, 5)
    msgs, exps = [], []
    stream = b""
    for i in range(n):
        cid = rng.choice([i + 1, i + 1, i + 1, 2 ** 64 - 1 - i])
        exp = cid if rng.random() < 0.8 else cid + 1
        r = rng.random()
        if r < 0.08:
            stream += cid.to_bytes(8, "big") + (MAX_BODY_SIZE + 1).to_bytes(8, "big")
        else:
            body = None if r < 0.2 else bytes(rng.randrange(256) for _ in range(rng.randint(1, 40)))
            stream += _encode_message(cid, body)
        exps.append(exp)
    if rng.random() < 0.3:
        stream = stream[:rng.randint(0, len(stream))]
        exps.append(1)
    frags = fragment(rng, stream, rng.choice(["one", "random", "hdr", "bytes"]))
    return frags, exps


def sync_check_term(frags, exps, real):
    def res(r):
        if r[0] == "ok":
            return "SyOk " + ("None" if r[1] is None else f"(Some {coq_hex(r[1])})")
        if r[0] == "mismatch":
            return f"SyMismatch {r[1]}"
        return {"reset": "SyConnReset", "badframe": "SyBadFrame"}[r[0]]
    return (f"list_eqb sync_eqb (sync_calls {coq_nlist(exps)} reader_idle [] {coq_list([coq_hex(f) for f in frags])}) "
            f"{coq_list(['(' + res(r) + ')' for r in real])}")
