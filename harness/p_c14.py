"""C14: a watch-mode rebuild is equivalent to a restart."""
from __future__ import annotations

import asyncio
import contextlib
import os
import re
import tempfile

from . import c14_driver as D
from . import c14_scripted as SC
from . import common
from .common import coq_bool, coq_list, coq_str

PID = "C14"
PROPS_FILE = "props/C14.v"
MODEL_TARGETS = ["model/Watch.vo", "model/WatchBuild.vo", "model/WatchSet.vo"]
RULE = ("fold: random graph states on a real Workflow (attached files in every state, detached nodes, nglob rows "
        "with partly stale matches) and random change-item sequences (UPDATED/DELETED/DELETED_PARENT, with and "
        "without during_build) through the real Watcher.record_change versus model fold_changes over "
        "change_is_relevant/relevant_paths_under; non-trivial when at least one item is recorded and one is "
        "filtered or overridden.  change_loop: the raw inotify events delivered to the real AsyncInotifyWrapper "
        "for each file-system operation (real inotify, tempdir, sentinel-synchronised) replayed through model "
        "process_event on the post-operation tree: queued items and the watches dictionary must agree; file "
        "operations additionally against the documented kernel rows (kernel_events).  oracle: random projects "
        "(static files CONFIRMED/MISSING, steps SUCCEEDED/FAILED/PENDING with BUILT outputs, glob patterns on "
        "files and directories) x random operation sequences (write, rewrite same content, rm, mkdir, rmtree, "
        "mv file, mv dir), real inotify -> real change_loop -> real record_change -> start_build_phase's FAILED "
        "reset + Watcher.run_once commit on one copy of the SQLite database versus startup.resume_from_db on the "
        "other copy; canonical dumps (attached files with state+digest+mode+size, steps with state/deferred/has "
        "hash, nglob rows) must be equal; non-trivial when the operations changed at least one relevant path.  "
        "sys (E3): the real serve(do_watch=True) with simulated steps; 15 named histories (delete then recreate, "
        "changed then restored, directory removed with matched files, moved directory (and back), new / removed / "
        "renamed matching directory, new and lost glob match, output deleted / tampered, D10d, D15) and generated "
        "projects (e3_gen, 1-3 phases of 1-3 edits): edits while watching, barrier sync, copy of tree + .stepup, "
        "`rebuild` + wait versus a complete build by a fresh director on the copy; return-code class, all files, "
        "directory set and canonical graph with digests must be equal; non-trivial when the watcher recorded a change")
TRUSTED_BASE = [
    "Coq 8.16.1 kernel (vm_compute in Examples, witnesses and the correspondence evaluation)",
    "Print Assumptions: Closed under the global context for every C14 theorem",
    "translator/gen_watch.py (enum/tables import, AST shape flags, function fingerprints: fail closed)",
    "harness/p_c14.py + harness/c14_driver.py (Gallina literal printer, canonical dumps, inotify tap)",
    "kernel model of inotify (model/Watch.v comment): assumption, compared with real inotify on every run",
    "C13 (FileHash.refreshed is a function of the file), C17 (glob scan = regex filter of the tree), C18 (LIKE prefix = is_prefix), C02 (order of hash results)",
]
ASSUMPTIONS = [
    "inotify delivers the events of one instance in order and change_loop handles each event on the tree as it is right after the operation that caused it (no operation races ahead of the watcher)",
    "at the start of a watch phase no step is RUNNING/CHECKING and no attached file is UNCONFIRMED (every hash job of the build phase has completed)",
    "the order in which hash results are applied does not matter (C02 hash_result_commutes); the model applies them in label order on both sides",
    "recorded glob matches are compared as canonical (sorted, duplicate free) lists; the matcher is abstract (C17)",
]

SIG_D10 = "watch-vs-restart:nglob:matched-directory-change-not-queued"
SIG_D10D = "watch-vs-restart:nglob:file-in-new-unwatched-directory-not-queued"
SIG_STALE = "watch-vs-restart:nglob:updated-path-under-removed-directory-kept"
SIG_D15 = "watch-commit:ConsistencyError:EXTERNAL-rehash-of-detached-node"
SIG_W1 = "watch-vs-restart:watchset:stale-watch-of-subdirectory-moved-with-parent"
SIG_W2 = "watch-vs-restart:watchset:late-IGNORED-clobbers-reinstalled-watch"

HEADER = ("From Coq Require Import List NArith Bool.\nImport ListNotations.\n"
          "From SV Require Import lib.Bytes gen.GenWatch model.Watch.\nOpen Scope N_scope.\n"
          "Definition subset (a b : list path) := forallb (fun p => pmem p b) a.\n"
          "Definition seteq (a b : list path) := subset a b && subset b a.\n"
          "Definition cnt (x : str) (l : list str) := length (filter (str_eqb x) l).\n"
          "Definition mseteq (a b : list str) := forallb (fun x => Nat.eqb (cnt x a) (cnt x b)) (a ++ b).\n"
          "Definition ikey (it : item) : str := (match it_change it with Updated => 1 | Deleted => 2 | DeletedParent => 3 end) :: it_path it.\n"
          "Definition wkey (e : path * bool) : str := (if snd e then 1 else 0) :: fst e.\n"
          "Definition ekey (e : event) : str := ev_mask e :: ev_path e.\n"
          "Definition tab (t : list (list path)) (i : N) (p : path) : bool := pmem p (nth (N.to_nat i) t []).\n"
          "Definition is_bo (s : fstate) := match s with FS_BUILT | FS_OUTDATED => true | _ => false end.\n"
          "Definition st_sim (a b : fstate) := fstate_eqb a b || (is_bo a && is_bo b).\n"
          "Fixpoint files_sim (a b : list fnode) : bool := match a, b with [] , [] => true | x :: a', y :: b' => "
          "str_eqb (f_path x) (f_path y) && Bool.eqb (f_attached x) (f_attached y) && st_sim (f_state x) (f_state y) "
          "&& ofh_eqb (f_hash x) (f_hash y) && files_sim a' b' | _, _ => false end.\n"
          "Fixpoint rows_eq (a b : list ngrow) : bool := match a, b with [], [] => true | x :: a', y :: b' => "
          "paths_eqb (ng_matches x) (ng_matches y) && rows_eq a' b' | _, _ => false end.\n"
          "Definition res_sim (r : option (gstate unit)) (err : bool) (fs : list fnode) (rows : list ngrow) : bool := "
          "match r with None => err | Some g => negb err && files_sim (g_files g) fs && rows_eq (g_nglobs g) rows end.\n"
          "Fixpoint assoc (l : list (path * N)) (p : path) : option N := match l with [] => None | (q, v) :: r => "
          "if str_eqb q p then Some v else assoc r p end.\n"
          "Definition idA : action -> path -> list fnode * unit -> list fnode * unit := fun _ _ x => x.\n"
          "Definition idN : str -> list fnode * unit -> list fnode * unit := fun _ x => x.\n"
          "Definition run_events (t : tree) (w : watches) (evs : list event) : watches * list item :=\n"
          "  fold_left (fun acc ev => let o := process_event t (fst acc) ev in (fst o, snd acc ++ snd o)) evs (w, []).\n")


def generate(ctx):
    from translator import gen_watch
    ctx.facts = {}
    text, facts = gen_watch.generate()
    ctx.write_gen("GenWatch.v", text)
    # the statement-level translations of record_change / process_nglob_changes / will_change (gen_nglob_batch)
    # and extend / reduce (gen_nglob_code) that proofs/WatchTie.v ties C14's model to: regenerated from the same
    # tree on every run of this check as well (C17 writes the same text from the same tree)
    from translator import gen_nglob_batch, gen_nglob_code
    btext, bfacts = gen_nglob_batch.generate()
    ctx.write_gen("GenNglobBatch.v", btext)
    ctext, _cfacts = gen_nglob_code.generate()
    ctx.write_gen("GenNglobCode.v", ctext)
    ctx.stats["record_change_translated_set_operations"] = len(bfacts.get("branches", []))
    ctx.facts = facts
    ctx.stats["isdir_emits_self"] = facts["isdir_emits_self"]
    ctx.stats["commit_attached_only"] = facts["commit_attached_only"]
    ctx.stats["commit_program"] = facts["commit_program"]
    ctx.stats["during_build_flags"] = {"drain": facts["drain_during_build"], "loop": facts["loop_during_build"]}
    ctx.stats["hash_transitions"] = facts["transitions"]


# ---------------------------------------------------------------------------------------------
# correspondence 1: Watcher.record_change / change_is_relevant / relevant_paths_under vs the model
# ---------------------------------------------------------------------------------------------

POOL_FILES = ["a.txt", "b.txt", "d1/s1.txt", "d1/sub/s2.txt", "d2/s3.txt", "gone.txt", "o1.txt", "d1/o2.txt",
              "v.tmp", "d1/x.dat", "d2/y.dat", "n.dat", "d1/sub/z.dat", "det/out.txt", "data/k/f.txt", "D1/s1.txt"]
POOL_DIRS = ["d1", "d1/sub", "d2", "data", "data/k", "det", "d", "D1"]
POOL_LABELS = POOL_FILES + ["data/k/", "data/new/", "d1/sub/", "d2/"]
PATTERNS = ["*.dat", "d1/*.dat", "d*/*.dat", "data/*/", "d1/s*.txt", "d1/*/", "d1/**/*.dat", "*.txt"]


def _coq_item(kind, path, build):
    c = {"UPDATED": "Updated", "DELETED": "Deleted", "DELETED_PARENT": "DeletedParent"}[kind]
    return f"mk_item {c} {coq_str(path)} {coq_bool(build)}"


async def _fold_cases(ctx, ncase):
    from stepup.core.enums import Change, FileState, HashUpdateCause, Need, StepState
    from stepup.core.file import File
    from stepup.core.hash import FileHash
    from stepup.core.nglob import NamedGlob
    from stepup.core.step import Step
    from path import Path
    from .wfutil import fake_hash
    rng = ctx.rng
    checks, descr = [], []
    for _ in range(ncase):
        with D.open_stack_db(":memory:") as db:
            st = await D.Stack(db, None).init()
            wf = st.wf
            async with db:
                unconf = wf.declare_static_files(wf.root, ["plan.py"])
                wf.update_file_hashes({p: fake_hash(p) for p in unconf}, cause=HashUpdateCause.CONFIRMED)
                wf.define_step(wf.root, "./plan.py", inp_paths=["plan.py"], need=Need.PLAN, _safe=True)
                plan = wf.find(Step, "./plan.py")
                plan.set_state(StepState.RUNNING)
                statics = [p for p in ["a.txt", "b.txt", "d1/s1.txt", "d1/sub/s2.txt", "d2/s3.txt", "gone.txt", "D1/s1.txt"]
                           if rng.random() < 0.7]
                unconf = wf.declare_static_files(plan, statics)
                hashes = {p: (FileHash.unknown() if (p == "gone.txt" or rng.random() < 0.15) else fake_hash(p))
                          for p in unconf}
                leave = {p for p in hashes if rng.random() < 0.08}     # stays UNCONFIRMED
                wf.update_file_hashes({p: h for p, h in hashes.items() if p not in leave}, cause=HashUpdateCause.CONFIRMED)
                outs = [p for p in ["o1.txt", "d1/o2.txt"] if rng.random() < 0.8]
                vols = ["v.tmp"] if rng.random() < 0.5 else []
                if outs or vols:
                    wf.define_step(plan, "mk", out_paths=outs, vol_paths=vols)
                    built = {p: fake_hash(p) for p in outs if rng.random() < 0.7}
                    wf.update_file_hashes(built, cause=HashUpdateCause.SUCCEEDED)
                    for p in built:
                        if rng.random() < 0.3:
                            wf.mark_file_outdated(wf.find(File, p))
                if rng.random() < 0.6:
                    wf.define_step(plan, "sdet", out_paths=["det/out.txt"])
                    if rng.random() < 0.6:
                        wf.update_file_hashes({"det/out.txt": fake_hash("det/out.txt")}, cause=HashUpdateCause.SUCCEEDED)
                    wf.find(Step, "sdet").detach()
                pats = rng.sample(PATTERNS, k=rng.randint(0, 3))
                for pat in pats:
                    ng = NamedGlob(pat, {})
                    cand = [p for p in POOL_LABELS if ng._regex.fullmatch(p)]
                    ng.extend([p for p in cand if rng.random() < 0.6])
                    try:
                        db.execute("SAVEPOINT c14g")
                        wf.register_nglob(plan, ng)
                    except Exception:  # noqa: BLE001  (a match that is a build product: rejected, skip)
                        db.execute("ROLLBACK TO c14g")
                # dump for the model
                files = [(lbl, not det, FileState(stv).name, h is not None) for lbl, det, stv, h in db.execute(
                    "SELECT label, detached, state, hash FROM node JOIN file ON node.i = file.node ORDER BY label")]
                rows = []
                for _i, ng, step in wf.nglob_registrations():
                    rows.append((ng.pattern, ng._regex.pattern, step.label, [str(p) for p in ng.files()]))
            # items
            items = []
            for _k in range(rng.randint(1, 12)):
                r = rng.random()
                build = rng.random() < 0.3
                if r < 0.12:
                    items.append(("DELETED_PARENT", rng.choice(POOL_DIRS), build))
                else:
                    items.append((rng.choice(["UPDATED", "DELETED"]), rng.choice(POOL_LABELS), build))
            for kind, path, build in items:
                async with db:
                    await st.watcher.record_change(Change[kind], Path(path), during_build=build)
            got_u = sorted(str(p) for p in st.watcher.updated)
            got_d = sorted(str(p) for p in st.watcher.deleted)
        tables = [[p for p in POOL_LABELS if re.compile(rx).fullmatch(p)] for _pat, rx, _s, _m in rows]
        cfiles = coq_list([f"mk_fnode {coq_str(l)} {coq_bool(a)} FS_{s} {'(Some 1)' if h else 'None'}"
                           for l, a, s, h in files])
        crows = coq_list([f"mk_ng {i} {coq_str(s)} true {coq_list([coq_str(m) for m in ms])}"
                          for i, (_p, _rx, s, ms) in enumerate(rows)])
        ctab = coq_list([coq_list([coq_str(p) for p in t]) for t in tables])
        citems = coq_list([_coq_item(*it) for it in items])
        term = (f"let g := @mk_g unit {cfiles} {crows} tt in "
                f"let w := fold_changes (change_is_relevant unit (tab {ctab}) g) (relevant_paths_under unit g) {citems} ws_empty in "
                f"seteq (ws_updated w) {coq_list([coq_str(p) for p in got_u])} && seteq (ws_deleted w) {coq_list([coq_str(p) for p in got_d])}")
        checks.append(term)
        d = {"files": files, "nglobs": [(p, m) for p, _rx, _s, m in rows], "items": items, "updated": got_u, "deleted": got_d}
        descr.append(d)
        recorded = len(got_u) + len(got_d)
        ctx.case(("fold", repr(files), repr(items)), nontrivial=recorded > 0 and recorded < len(items))
        ctx.count("fold_items", len(items))
        ctx.count("fold_recorded", recorded)
    return checks, descr


# ---------------------------------------------------------------------------------------------
# oracle (+ correspondence 2: change_loop on real inotify events)
# ---------------------------------------------------------------------------------------------

GLOB_CHOICES = ["*.dat", "d1/*.dat", "d*/*.dat", "data/*/", "d1/s*.txt", "d1/*/"]


def _rand_project(rng):
    dirs = [d for d in ["d1", "d1/sub", "d2", "data/old", "data/k"] if rng.random() < 0.8]
    static = {}
    for p in ["a.txt", "b.txt", "d1/s1.txt", "d1/sub/s2.txt", "d2/s3.txt"]:
        if rng.random() < 0.7:
            static[p] = "S:" + p
    if rng.random() < 0.4:
        static["gone.txt"] = None
    extra = {p: "E:" + p for p in ["d1/x.dat", "d2/y.dat", "n.dat", "data/k/f.txt"] if rng.random() < 0.6}
    steps = []
    ins = sorted(p for p in static if static[p] is not None)
    if rng.random() < 0.8:
        o1 = rng.choice(["o1.txt", "d2/o1.txt"])
        s1 = {"cmd": "s1", "inp": rng.sample(ins, k=min(len(ins), rng.randint(0, 2))), "out": {o1: "O1"},
              "state": rng.choice(["SUCCEEDED", "SUCCEEDED", "STALE", "FAILED", "PENDING"])}
        steps.append(s1)
        if rng.random() < 0.7:
            st2 = rng.choice(["SUCCEEDED", "FAILED", "PENDING"]) if s1["state"] == "SUCCEEDED" else rng.choice(["FAILED", "PENDING"])
            steps.append({"cmd": "s2", "inp": [o1], "out": {"d1/o2.txt": "O2"}, "state": st2})
    globs = [{"step": "./plan.py", "pattern": g} for g in rng.sample(GLOB_CHOICES, k=rng.randint(0, 3))]
    return {"dirs": dirs, "static": static, "extra": extra, "steps": steps, "globs": globs,
            "plan_state": "SUCCEEDED" if rng.random() < 0.85 else "PENDING"}


def _rand_ops(rng, spec):
    files = sorted(set(list(spec["static"]) + list(spec["extra"])
                       + [o for s in spec["steps"] for o in s["out"]]
                       + ["n1.dat", "d1/n2.dat", "d2/n3.dat", "d1/sub/n4.txt", "data/new/f.txt", "d3/z.dat", "d1/s9.txt"]))
    dirs = ["d1", "d1/sub", "d2", "d3", "data/old", "data/k", "data/new", "d1/sub2", "data"]
    ops = []
    for _ in range(rng.randint(1, 6)):
        r = rng.random()
        if r < 0.35:
            p = rng.choice(files)
            ops.append(["write", p, rng.choice(["X1", "X2", "S:" + p, "O1"])])
        elif r < 0.46:
            ops.append(["rm", rng.choice(files)])
        elif r < 0.5:
            ops.append(["vanish", rng.choice(sorted(spec["static"]) or files)])
        elif r < 0.65:
            ops.append(["mkdir", rng.choice(dirs)])
        elif r < 0.75:
            ops.append(["rmtree", rng.choice(dirs)])
        elif r < 0.87:
            ops.append(["mv", rng.choice(files), rng.choice(files)])
        else:
            ops.append(["mv", rng.choice(dirs), rng.choice(dirs)])
    return ops


def _tree_entries():
    out = []
    for p, c in sorted(D.snapshot_tree(".").items()):
        out.append((p.rstrip("/"), p.endswith("/")))
    return out


async def _one_history(spec, ops, queued_during_build=0):
    """Run one project + operation sequence.  Returns a result dict."""
    res = {"ops_applied": [], "batches": [], "error": None}
    with tempfile.TemporaryDirectory() as tmp:
        root = os.path.join(tmp, "proj")
        os.mkdir(root)
        with contextlib.chdir(root):
            dq = asyncio.Queue()
            with D.open_stack_db(os.path.join(tmp, "a.db")) as db:
                st = await D.Stack(db, dq).init()
                await D.build_project(st, spec)
                async with D.wrapper_ctx(dq) as w:
                    await D.settle_dir_queue(w)
                    await D.drain_real(w)
                    n0 = len(w.inotify.log)
                    all_items = []
                    for op in ops:
                        snap0 = D.snapshot_tree(".")
                        pre_files = sorted(p for p, c in snap0.items() if c is not None)
                        pre_dirs = sorted(p.rstrip("/") for p, c in snap0.items() if c is None)
                        pre_empty = op[0] == "rmtree" and os.path.isdir(op[1]) and not os.listdir(op[1])
                        w0 = D.watches_dump(w)
                        if not (await D.vanish(st, op[1]) if op[0] == "vanish" else D.apply_op(op)):
                            continue
                        items = await D.drain_real(w)
                        raw = [(m, p) for m, p in w.inotify.log[n0:] if D.SENTINEL not in p]
                        n0 = len(w.inotify.log)
                        res["ops_applied"].append(op)
                        res["batches"].append({"op": op, "raw": raw, "items": items, "tree": _tree_entries(),
                                               "w0": w0, "w1": D.watches_dump(w), "pre_files": pre_files,
                                               "pre_dirs": pre_dirs, "pre_empty": pre_empty})
                        all_items += items
                    res["watch_keys"] = sorted(D.watches_dump(w))
                    # the first `queued_during_build` items are treated as queued while the build ran
                    # Only changes to static files are promised to be picked up when they happen while
                    # the build is still running: the leading items count as queued-during-build as
                    # long as they concern declared static files.
                    nqb = 0
                    while nqb < min(queued_during_build, len(all_items)) and all_items[nqb][1] in spec.get("static", {}):
                        nqb += 1
                    queued_during_build = nqb
                    qb = all_items[:queued_during_build]
                    res["items"] = all_items
                    res["nqb"] = queued_during_build
                    res["pre"] = await D.dump_graph(st)
                    res["final_tree"] = _tree_entries()
                    res["final_hashes"] = {}
                    for p, isdir in res["final_tree"]:
                        if not isdir:
                            fh = D.real_hash(p)
                            res["final_hashes"][p] = [fh.digest.hex(), fh.mode, fh.size]
                    D.backup_db(db, os.path.join(tmp, "b.db"))
                    try:
                        await D.watch_commit(st, queued=qb, items=all_items[queued_during_build:])
                    except Exception as e:  # noqa: BLE001
                        res["error"] = f"{type(e).__name__}: {e}"
                    res["watch_reports"] = list(st.rep.calls)
                    res["a"] = await D.dump_graph(st)
            with D.open_stack_db(os.path.join(tmp, "b.db")) as db2:
                st2 = await D.Stack(db2, None).init()
                try:
                    await D.startup_rescan(st2)
                except Exception as e:  # noqa: BLE001
                    res["restart_error"] = f"{type(e).__name__}: {e}"
                res["b"] = await D.dump_graph(st2)
                res["restart_reports"] = list(st2.rep.calls)
    res["diff"] = D.diff_dumps(res["a"], res["b"])
    return res


def _conservative_only(res):
    """True when the only difference is that the watch side is MORE cautious than a restart: some pattern
    rows carry extra paths that were recorded as updated and whose directory was moved away afterwards
    (they do not exist in the final tree), nothing is missing, and the only other difference is that the
    step that registered such a pattern is pending without stored hash on the watch side.  That step
    reruns in the rebuild and registers the pattern afresh from the real tree, so outputs, graph and
    return code after the rebuild are those of a restart (checked end to end by the E3 case
    STALE-new-match-then-directory-moved); C14 compares the result of the rebuild, not the set of steps
    that run.  Counted and shown in the evidence, not a failure."""
    if res.get("error") or res.get("restart_error") or not res["diff"]:
        return False
    items = res.get("items") or []
    exists = {p + ("/" if isdir else "") for p, isdir in res.get("final_tree", [])}
    steps = set()
    for sec, key, a, b in res["diff"]:
        if sec != "nglobs":
            continue
        sa, sb = set(a or []), set(b or [])
        if sb - sa:
            return False
        for p in sa - sb:
            gone_under = any(k == "DELETED_PARENT" and p.startswith(d.rstrip("/") + "/") and
                             any(k2 == "UPDATED" and p2 == p for k2, p2 in items[:i])
                             for i, (k, d) in enumerate(items))
            if not gone_under or p in exists:
                return False
        steps.add(key[0])
    if not steps:
        return False
    for sec, key, a, b in res["diff"]:
        if sec == "nglobs":
            continue
        if sec != "steps" or key not in steps or a is None or a[1] != "PENDING" or a[3]:
            return False
    return True


def _classify(res):
    """Signatures that explain the difference; 'other' when something is left unexplained."""
    if res.get("error"):
        if res["error"].startswith("ConsistencyError: Unexpected file hash update: cause=EXTERNAL") and \
                any(st in res["error"] for st in ("state=UNDECLARED", "state=PLANNED", "state=VOLATILE")):
            return {SIG_D15}
        return {"watch-commit:exception:" + res["error"].split(":")[0]}
    if res.get("restart_error"):
        return {"restart:exception:" + res["restart_error"].split(":")[0]}
    sigs = set()
    glob_steps = set()
    watch_keys = set(res.get("watch_keys", []))
    for sec, key, a, b in res["diff"]:
        if sec == "nglobs":
            glob_steps.add(key[0])
            sa, sb = set(a or []), set(b or [])
            items = res.get("items") or []
            for p in sa ^ sb:
                # recorded as updated, then a directory above it went away (DELETED_PARENT): the entry stays
                gone_under = any(k == "DELETED_PARENT" and p.startswith(d.rstrip("/") + "/") and
                                 any(k2 == "UPDATED" and p2 == p for k2, p2 in items[:i])
                                 for i, (k, d) in enumerate(items))
                unchanged_deleted = (["UNCHANGED", p] in [list(c) for c in res.get("watch_reports", [])]
                                     and any(k == "DELETED" and q == p for k, q in items))
                if p in sa and p not in sb and gone_under:
                    sigs.add(SIG_STALE)
                elif p in sa and p not in sb and unchanged_deleted:
                    sigs.add("watch-vs-restart:nglob:deleted-match-kept:unchanged-rehash-of-deleted-path")
                elif p.endswith("/"):
                    sigs.add(SIG_D10)
                elif p in sb and (os.path.dirname(p) or ".") not in watch_keys:
                    sigs.add(SIG_D10D)
                else:
                    sigs.add("watch-vs-restart:nglob:other")
    for sec, key, a, b in res["diff"]:
        if sec == "steps" and key in glob_steps and sigs:
            continue        # the registering step is pending / lost its hash on the restart side only
        if sec != "nglobs":
            sigs.add(f"watch-vs-restart:{sec}:other")
    return sigs


M_ISDIR, M_CREATE, M_DELETE, M_DELETE_SELF, M_MOVED_FROM, M_MOVED_TO, M_MOVE_SELF, M_IGNORED = (
    0x40000000, 0x100, 0x200, 0x400, 0x40, 0x80, 0x800, 0x8000)


def _dir_rows_mismatch(batch):
    """The documented kernel rows for directory operations (model/Watch.v comment) versus the raw events.
    Returns None when they agree or the operation is not a row of the table."""
    op, w0 = batch["op"], batch["w0"]
    pre_dirs = batch.get("pre_dirs")
    if pre_dirs is None:
        return None

    def watched(p):
        return w0.get(p, False)

    def parent(p):
        return os.path.dirname(p) or "."
    raw = sorted((m, p) for m, p in batch["raw"] if not (m & M_IGNORED))
    # a watch whose directory was renamed earlier keeps reporting under its old path: skip histories
    # in which a watched directory is not where `watches` says (only happens after a directory move)
    if any(v and k != "." and k not in pre_dirs for k, v in w0.items()):
        return None
    if op[0] == "mkdir":
        exp = [(M_CREATE | M_ISDIR, op[1])] if watched(parent(op[1])) else []
    elif op[0] == "mv" and op[1] in pre_dirs:
        exp = []
        if watched(parent(op[1])):
            exp.append((M_MOVED_FROM | M_ISDIR, op[1]))
        if watched(parent(op[2])):
            exp.append((M_MOVED_TO | M_ISDIR, op[2]))
        if watched(op[1]):
            exp.append((M_MOVE_SELF, op[1]))
    elif op[0] == "rmtree" and batch.get("pre_empty"):
        exp = []
        if watched(op[1]):
            exp.append((M_DELETE_SELF, op[1]))
        if watched(parent(op[1])):
            exp.append((M_DELETE | M_ISDIR, op[1]))
    else:
        return None
    return None if sorted(exp) == raw else {"expected": sorted(exp), "raw": raw}


def _batch_checks(batch, facts):
    """Gallina checks for one operation: change_loop model on the raw events; kernel rows for file ops."""
    checks = []
    tree = coq_list([f"({coq_str(p)}, {coq_bool(isdir)})" for p, isdir in batch["tree"]])
    w0 = coq_list([f"({coq_str(p)}, {coq_bool(v)})" for p, v in sorted(batch["w0"].items())])
    w1 = coq_list([f"({coq_str(p)}, {coq_bool(v)})" for p, v in sorted(batch["w1"].items())])
    evs = coq_list([f"mk_event {m} {coq_str(p)}" for m, p in batch["raw"]])
    items = coq_list([_coq_item(k, p, False) for k, p in batch["items"]])
    checks.append(("change_loop", f"let r := run_events {tree} {w0} {evs} in "
                   f"mseteq (map ikey (snd r)) (map ikey {items}) && mseteq (map wkey (fst r)) (map wkey {w1})"))
    op = batch["op"]
    pre = set(batch["pre_files"])

    def parent_watched(p):
        return batch["w0"].get(os.path.dirname(p) or ".", False)
    if op[0] in ("write", "rm", "vanish") or (op[0] == "mv" and op[1] in pre):
        paths = [op[1]] + ([op[2]] if op[0] == "mv" else [])
        if op[0] == "mv" and op[2] in pre:
            return checks      # rename onto an existing file: not a row of the kernel table
        watched = coq_list([coq_str(p) for p in paths if parent_watched(p)])
        exist = coq_list([coq_str(p) for p in paths if p in pre])
        cop = {"write": f"FWrite {coq_str(op[1])} 0", "rm": f"FRemove {coq_str(op[1])}", "vanish": f"FRemove {coq_str(op[1])}",
               "mv": f"FMove {coq_str(op[1])} {coq_str(op[2]) if op[0] == 'mv' else ''}"}[op[0]]
        raw = [(m, p) for m, p in batch["raw"] if not (m & 32768)]
        checks.append(("kernel_rows", f"mseteq (map ekey (kernel_events (fun p => pmem p {watched}) "
                       f"(fun p => if pmem p {exist} then Some 0 else None) ({cop}))) "
                       f"(map ekey {coq_list([f'mk_event {m} {coq_str(p)}' for m, p in raw])})"))
    return checks


def _commit_checks(res):
    """Model watch_commit / startup_rescan on the dumped pre-state versus the real results (files modulo
    the BUILT->OUTDATED cascades of mark_step_pending, which live in the abstract on_action; nglob rows)."""
    ids = {}

    def hid(row):     # row = [state, digest hex, mode, size]
        key = tuple(row[1:]) if not isinstance(row, tuple) else row
        if key[0] == "75":      # b"u": unknown
            return "None"
        return f"(Some {ids.setdefault(key, len(ids) + 1)})"

    def files_of(dump):
        rows = [(l, True, r) for l, r in dump["files"].items()] + [(l, False, r) for l, r in dump["detached_files"].items()]
        return coq_list([f"mk_fnode {coq_str(l)} {coq_bool(a)} FS_{r[0]} {hid(r)}" for l, a, r in sorted(rows)])

    def rows_of(dump):
        return coq_list([f"mk_ng {i} {coq_str(s)} true {coq_list([coq_str(m) for m in ms])}"
                         for i, (s, _p, ms) in enumerate(dump["nglobs"])])
    pre, a, b = res["pre"], res["a"], res["b"]
    if [(x[0], x[1]) for x in pre["nglobs"]] != [(x[0], x[1]) for x in a["nglobs"]] or \
            [(x[0], x[1]) for x in pre["nglobs"]] != [(x[0], x[1]) for x in b["nglobs"]]:
        return []
    from stepup.core.nglob import NamedGlob
    exist = [p + ("/" if isdir else "") for p, isdir in res["final_tree"]]
    universe = sorted(set(exist) | set(pre["files"]) | set(pre["detached_files"])
                      | {m for _s, _p, ms in pre["nglobs"] for m in ms} | {p for _k, p in res["items"]})
    regexes = [NamedGlob(p, {})._regex for _s, p, _m in pre["nglobs"]]
    tab = coq_list([coq_list([coq_str(p) for p in universe if rx.fullmatch(p)]) for rx in regexes])
    g = f"@mk_g unit {files_of(pre)} {rows_of(pre)} tt"
    htab = coq_list([f"({coq_str(p)}, {ids.setdefault(tuple(v), len(ids) + 1)})" for p, v in sorted(res["final_hashes"].items())])
    # ids must be final before printing g: re-render
    g = f"@mk_g unit {files_of(pre)} {rows_of(pre)} tt"
    # items queued before run_once started are recorded by its drain loop, the others by its watch loop:
    # the during_build flag of each is the one the translator read from the code
    def _it(k, pth, queued):
        c = {"UPDATED": "Updated", "DELETED": "Deleted", "DELETED_PARENT": "DeletedParent"}[k]
        return f"mk_item {c} {coq_str(pth)} {'drain_during_build' if queued else 'loop_during_build'}"
    items = coq_list([_it(k, p, i < res["nqb"]) for i, (k, p) in enumerate(res["items"])])
    uni = coq_list([coq_str(p) for p in universe])
    ex = coq_list([coq_str(p) for p in exist])
    common_let = (f"let g := {g} in let T := tab {tab} in let H := assoc {htab} in "
                  f"let w := fold_changes (change_is_relevant unit T g) (relevant_paths_under unit g) {items} ws_empty in ")
    out = [("commit_model", common_let + f"res_sim (watch_commit unit idA idN H T {uni} g (ws_updated w) (ws_deleted w)) "
            f"{coq_bool(bool(res.get('error')))} {files_of(a)} {rows_of(a)}"),
           ("rescan_model", common_let + f"res_sim (startup_rescan unit idA idN H (fun p => pmem p {ex}) T {uni} g) "
            f"{coq_bool(bool(res.get('restart_error')))} {files_of(b)} {rows_of(b)}")]
    return out


WITNESSES = {
    # (spec, ops): the Coq witnesses replayed on the real watcher
    "D10-mkdir": ({"dirs": ["data/old"], "static": {"a.txt": "A"}, "globs": [{"step": "./plan.py", "pattern": "data/*/"}]},
                  [["mkdir", "data/new"]]),
    "D10-rmdir": ({"dirs": ["data/old"], "static": {"a.txt": "A"}, "globs": [{"step": "./plan.py", "pattern": "data/*/"}]},
                  [["rmtree", "data/old"]]),
    "D10-mvdir": ({"dirs": ["data/old"], "static": {"a.txt": "A"}, "globs": [{"step": "./plan.py", "pattern": "data/*/"}]},
                  [["mv", "data/old", "data/old2"]]),
    "D10d-newdir": ({"dirs": ["d1"], "static": {"a.txt": "A"}, "extra": {"d1/x.dat": "x"},
                     "globs": [{"step": "./plan.py", "pattern": "*/x.dat"}]},
                    [["mkdir", "d5"], ["write", "d5/x.dat", "x"]]),
    "D15-undeclared": ({"static": {"a.txt": "A"},
                        "steps": [{"cmd": "s1", "inp": ["a.txt", "nothere.txt"], "out": {"o1.txt": "O"}, "state": "PENDING"}],
                        "globs": [{"step": "./plan.py", "pattern": "*.txt"}]},
                       [["write", "nothere.txt", "x"]]),
    "stale-dir-under-moved-dir": ({"dirs": ["data/old"], "static": {"a.txt": "A"},
                                   "globs": [{"step": "./plan.py", "pattern": "data/*/"}]},
                                  [["mkdir", "data/new"], ["mv", "data", "d3"]]),
    "stale-file-under-moved-dir": ({"dirs": ["d1"], "static": {"d1/s1.txt": "S"}, "extra": {"d1/x.dat": "x"},
                                    "globs": [{"step": "./plan.py", "pattern": "d1/*.dat"}]},
                                   [["write", "d1/n2.dat", "n"], ["mv", "d1", "d9"]]),
    # sequences named in the property record; these must agree
    "delete-recreate": ({"static": {"a.txt": "A"}, "steps": [{"cmd": "s1", "inp": ["a.txt"], "out": {"o1.txt": "O"}}]},
                        [["rm", "a.txt"], ["write", "a.txt", "A"]]),
    "changed-restored": ({"static": {"a.txt": "A"}, "steps": [{"cmd": "s1", "inp": ["a.txt"], "out": {"o1.txt": "O"}}]},
                         [["write", "a.txt", "B"], ["write", "a.txt", "A"]]),
    "dir-removed-with-matches": ({"dirs": ["d1"], "static": {"d1/s1.txt": "S"}, "extra": {"d1/x.dat": "x"},
                                  "steps": [{"cmd": "s1", "inp": ["d1/s1.txt"], "out": {"o1.txt": "O"}}],
                                  "globs": [{"step": "./plan.py", "pattern": "d1/*.dat"}]},
                                 [["rmtree", "d1"]]),
    "dir-moved-and-back": ({"dirs": ["d1"], "static": {"d1/s1.txt": "S"}, "extra": {"d1/x.dat": "x"},
                            "steps": [{"cmd": "s1", "inp": ["d1/s1.txt"], "out": {"o1.txt": "O"}}],
                            "globs": [{"step": "./plan.py", "pattern": "d1/*.dat"}]},
                           [["mv", "d1", "d9"], ["mv", "d9", "d1"]]),
    "output-deleted": ({"static": {"a.txt": "A"}, "steps": [{"cmd": "s1", "inp": ["a.txt"], "out": {"o1.txt": "O"}},
                                                              {"cmd": "s2", "inp": ["o1.txt"], "out": {"o2.txt": "P"}}]},
                       [["rm", "o1.txt"]]),
    "created-during-build": ({"static": {"a.txt": "A", "gone.txt": None},
                              "steps": [{"cmd": "s1", "inp": ["a.txt", "gone.txt"], "out": {"o1.txt": "O"}, "state": "PENDING"}]},
                             [["write", "gone.txt", "G"], ["write", "a.txt", "A2"]], 5),
    "stale-output-changed": ({"static": {"a.txt": "A"},
                              "steps": [{"cmd": "s1", "inp": ["a.txt"], "out": {"o1.txt": "O"}, "state": "STALE"},
                                        {"cmd": "s2", "inp": ["o1.txt"], "out": {"o2.txt": "P"}, "state": "PENDING"}]},
                             [["write", "o1.txt", "tampered"]]),
    "failed-step": ({"static": {"a.txt": "A"}, "steps": [{"cmd": "s1", "inp": ["a.txt"], "out": {"o1.txt": "O"}, "state": "FAILED"}]},
                    [["write", "b.txt", "x"]]),
    # events while the build runs / unchanged re-hashes of deleted paths, on real inotify
    "vanished-match-during-build": (SC._GLOB_STATIC, [["vanish", "d1/x.dat"]], 5),
    "vanished-match-event-while-watching": (SC._GLOB_STATIC, [["vanish", "d1/x.dat"]]),
    "vanished-match-recreated-same": (SC._GLOB_STATIC, [["vanish", "d1/x.dat"], ["write", "d1/x.dat", "x"]], 1),
    "match-deleted-recreated-same": (SC._GLOB_STATIC_OK, [["rm", "d1/x.dat"], ["write", "d1/x.dat", "x"]]),
    "match-moved-away-and-back": (SC._GLOB_STATIC_OK, [["mv", "d1/x.dat", "d1/x.bak"], ["mv", "d1/x.bak", "d1/x.dat"]]),
    "missing-created-then-deleted": (SC._MISSING_MATCH, [["write", "gone.txt", "G"], ["rm", "gone.txt"]]),
}
EXPECT = {"D10-mkdir": SIG_D10, "D10-rmdir": SIG_D10, "D10-mvdir": SIG_D10, "D10d-newdir": SIG_D10D,
          "D15-undeclared": SIG_D15}


def _report(ctx, name, spec, ops, res, sigs, seen):
    for sig in sorted(sigs):
        if sig in seen:
            continue
        seen.add(sig)
        detail = (f"{name}: after {res['ops_applied']!r} the watch-phase commit and a restart on a copy of the same "
                  f"database and tree disagree: error={res.get('error')!r} diff={res['diff']!r}; "
                  f"items queued by change_loop: {res.get('items')!r}; restart reported {res.get('restart_reports')!r}")
        ctx.add_failure("oracle", f"rebuild-vs-restart:{name}", sig, detail,
                        witness={"case": name, "project": spec, "ops": res["ops_applied"], "diff": res["diff"],
                                 "watch_error": res.get("error"), "items": res.get("items")})


def _run_histories(ctx, nrandom, do_model=True):
    rng = ctx.rng
    seen = set()
    checks, descr = [], []
    cases = [(name, w[0], w[1], w[2] if len(w) > 2 else 0) for name, w in WITNESSES.items()]
    for k in range(nrandom):
        spec = _rand_project(rng)
        ops = _rand_ops(rng, spec)
        cases.append((f"random-{k}", spec, ops, rng.choice([0, 0, 1, 2])))
    for name, spec, ops, qb in cases:
        try:
            res = D.run(_one_history(spec, ops, qb), timeout=120)
        except D.InotifyUnavailable:
            ctx.count("histories_skipped_no_inotify_instance")
            continue
        except Exception as e:  # noqa: BLE001  (e.g. change_loop died: the wrapper re-raises on exit)
            sig = _died_signature(e) if not isinstance(e, (TimeoutError, asyncio.TimeoutError)) else f"history:exception:{type(e).__name__}"
            ctx.count("histories_crashed")
            if sig not in seen:
                seen.add(sig)
                ctx.add_failure("oracle", f"rebuild-vs-restart:{name}", sig,
                                f"{name}: the watcher raised {type(e).__name__}: {e} while handling {ops!r}",
                                witness={"case": name, "project": spec, "ops": ops, "exception": f"{type(e).__name__}: {e}"})
            continue
        changed = bool(res.get("items"))
        ctx.case(("history", repr(spec), repr(ops)), nontrivial=changed)
        ctx.count("histories")
        ctx.count("ops_applied", len(res["ops_applied"]))
        for op in res["ops_applied"]:
            ctx.count("op_" + op[0])
        ctx.count("change_items", len(res.get("items", [])))
        sigs = _classify(res) if (res["diff"] or res.get("error") or res.get("restart_error")) else set()
        if sigs and _conservative_only(res):
            ctx.count("histories_watch_side_more_cautious")
            if name.startswith("stale-"):
                ctx.sample({"watch-side-more-cautious": name, "ops": res["ops_applied"], "items": res.get("items"), "diff": res["diff"]})
            sigs = set()
        if sigs:
            ctx.count("histories_disagreeing")
            _report(ctx, name, spec, ops, res, sigs, seen)
        if name in EXPECT:
            ctx.stats.setdefault("witness_replays", {})[name] = sorted(sigs) or "agrees"
        if name in ("delete-recreate", "dir-moved-and-back"):
            ctx.sample({"history": name, "ops": res["ops_applied"], "items": res.get("items"), "diff": res["diff"]})
        if do_model:
            for kind, term in _commit_checks(res):
                checks.append(term)
                descr.append((kind, name, res["ops_applied"], res.get("items"), res["pre"], res["a"] if kind == "commit_model" else res["b"], res.get("error")))
                ctx.case((kind, repr(spec), repr(ops)), nontrivial=changed)
            for b in res["batches"]:
                mm = _dir_rows_mismatch(b)
                if b["op"][0] in ("mkdir", "mv", "rmtree"):
                    ctx.count("kernel_dir_rows_checked" if mm is None else "kernel_dir_rows_mismatch")
                if mm is not None and "kernel-dir" not in seen:
                    seen.add("kernel-dir")
                    ctx.add_failure("correspondence", "kernel_dir_rows", "kernel-model:directory-operation-events",
                                    f"documented kernel rows for {b['op']!r} with watches {b['w0']!r}: expected "
                                    f"{mm['expected']!r}, inotify delivered {mm['raw']!r}",
                                    witness={"case": name, "op": b["op"], "watches": b["w0"], **mm})
                for kind, term in _batch_checks(b, ctx.facts):
                    checks.append(term)
                    descr.append((kind, name, b["op"], b["raw"], b["items"], b["w0"], b["w1"]))
                    ctx.case((kind, repr(b["op"]), repr(b["raw"])), nontrivial=bool(b["raw"]))
    return checks, descr


# ---------------------------------------------------------------------------------------------
# watch-set bookkeeping: several watch phases, operations in batches (model/WatchSet.v)
# ---------------------------------------------------------------------------------------------

_S1 = {"dirs": ["d1/sub"], "static": {"d1/sub/s2.txt": "S"},
       "steps": [{"cmd": "s1", "inp": ["d1/sub/s2.txt"], "out": {"o1.txt": "O"}}]}
_S2 = {"dirs": ["d1"], "static": {"d1/s1.txt": "S"},
       "steps": [{"cmd": "s1", "inp": ["d1/s1.txt"], "out": {"o1.txt": "O"}}]}
# name: (project, phases); phase = list of batches; batch = operations applied before the wrapper runs;
# after every phase but the last one the real watch phase is committed (a rebuild), the last one is compared
PHASED = {
    "W1-stale-subdirectory-watch": (_S1, [[[["mv", "d1", "d9"]], [["mkdir", "d1"]], [["mkdir", "d1/sub"]],
                                           [["write", "d1/sub/s2.txt", "S"]]],
                                          [[["write", "d1/sub/s2.txt", "NEW"]]]]),
    "W2-late-IGNORED": (_S2, [[[["mv", "d1", "d9"], ["mkdir", "d1"], ["write", "d1/s1.txt", "S"]]],
                              [[["mv", "d1", "d8"]]]]),
    # the same operations with the wrapper keeping up: must agree
    "W2-slow": (_S2, [[[["mv", "d1", "d9"]], [["mkdir", "d1"]], [["write", "d1/s1.txt", "S"]]], [[["mv", "d1", "d8"]]]]),
    "two-phases-plain": (_S1, [[[["write", "d1/sub/s2.txt", "T"]]], [[["rmtree", "d1/sub"]], [["mkdir", "d1/sub"]],
                                                                      [["write", "d1/sub/s2.txt", "U"]]]]),
    # a prepared tree is moved to the place of a watched directory that was removed a phase earlier: the
    # rescan has to descend (pending entries at every level) and queue the files of every level
    "tree-moved-in-next-phase": (_S1, [[[["rmtree", "d1"]]],
                                       [[["mkdir", "n0"]], [["mkdir", "n0/sub"]], [["write", "n0/sub/s2.txt", "S"]],
                                        [["mv", "n0", "d1"]]],
                                       [[["write", "d1/sub/s2.txt", "V"]]]]),
    # a declared static file that is a glob match: deleted, rebuild, created again
    "match-recreated-next-phase": ({"dirs": ["d1"], "static": {"d1/x.dat": "x", "a.txt": "A"},
                                    "globs": [{"step": "./plan.py", "pattern": "d1/*.dat"}]},
                                   [[[["rm", "d1/x.dat"]]], [[["write", "d1/x.dat", "x"]]]]),
    # recorded as updated, then the directory above it moves away (same phase) and a later phase
    "updated-then-parent-moved": (_S2, [[[["write", "d1/s1.txt", "T"]], [["mv", "d1", "d9"]]], [[["mv", "d9", "d1"]]]]),
}
# requested directories (base of a pattern without wildcard directory) whose nearest existing ancestor is 2..4
# levels up when the pattern is registered: dir_loop has to record EVERY missing level as a pending watch so that
# the levels, created one by one while watching, get their watches all the way down
_DEEP2 = {"static": {"a.txt": "A"}, "globs": [{"step": "./plan.py", "pattern": "inputs/raw/*.csv"}]}
_DEEP3 = {"dirs": ["in"], "static": {"a.txt": "A"}, "globs": [{"step": "./plan.py", "pattern": "in/p/q/r/*.csv"}]}
PHASED.update({
    "deep-missing-2-levels-one-by-one": (_DEEP2, [[[["mkdir", "inputs"]], [["mkdir", "inputs/raw"]],
                                                   [["write", "inputs/raw/a.csv", "1"]]]]),
    "deep-missing-2-levels-at-once": (_DEEP2, [[[["mkdir", "inputs"], ["mkdir", "inputs/raw"],
                                                 ["write", "inputs/raw/a.csv", "1"]]]]),
    "deep-missing-3-levels-below-existing": (_DEEP3, [[[["mkdir", "in/p"]], [["mkdir", "in/p/q"]], [["mkdir", "in/p/q/r"]],
                                                       [["write", "in/p/q/r/x.csv", "1"]]],
                                                      [[["write", "in/p/q/r/x.csv", "2"]], [["write", "in/p/q/r/y.csv", "3"]]]]),
})
SIG_DEEP = "watch-vs-restart:watchset:missing-ancestor-of-requested-directory-not-pending"


def _rand_deep(rng):
    """A pattern `<e1>/../<m1>/../<mk>/*.csv` with 0-1 existing and 2-4 missing levels; the missing levels are
    created top-down while watching, in random groups per batch, then a matching file (and sometimes a second
    phase that edits it / adds another one)."""
    names = ["da", "db", "dc", "dd", "de"]
    rng.shuffle(names)
    ne, nm = rng.randint(0, 1), rng.randint(2, 4)
    levels = ["/".join(names[:i + 1]) for i in range(ne + nm)]
    base = levels[-1]
    spec = {"dirs": levels[:ne], "static": {"a.txt": "A"}, "globs": [{"step": "./plan.py", "pattern": base + "/*.csv"}]}
    if rng.random() < 0.3:
        spec["globs"].append({"step": "./plan.py", "pattern": levels[ne] + "/*.txt"})
    ops = [["mkdir", d] for d in levels[ne:]] + [["write", base + "/m.csv", "1"]]
    batches, cur = [], []
    for op in ops:
        cur.append(op)
        if rng.random() < 0.7:
            batches.append(cur)
            cur = []
    if cur:
        batches.append(cur)
    phases = [batches]
    if rng.random() < 0.5:
        phases.append([[["write", base + "/m.csv", "2"]], [["write", base + "/n.csv", "3"]]])
    return spec, phases


PHASED_EXPECT = {"W1-stale-subdirectory-watch": SIG_W1, "W2-late-IGNORED": SIG_W2}


def _synthetic_apply(w, op):
    """Synthetic inotify (c14_driver.FakeInotify): apply the operation and queue the events the kernel would deliver
    (documented rows of model/Watch.v; mkdir / write / rm only), decided by which directories the wrapper has
    asked to watch SO FAR (add_watch minus rm_watch), i.e. at the time of the operation."""
    from asyncinotify import Mask
    ino = w.inotify
    parent = os.path.dirname(op[1]) or "."
    watched = ino.added.count(parent) > ino.removed.count(parent)
    existed = os.path.exists(op[1])
    if not D.apply_op(op):
        return
    if not watched:
        return
    if op[0] == "mkdir":
        masks = [Mask.CREATE | Mask.ISDIR]
    elif op[0] == "write":
        masks = ([] if existed else [Mask.CREATE]) + [Mask.MODIFY, Mask.CLOSE_WRITE]
    elif op[0] == "rm":
        masks = [Mask.DELETE]
    else:
        raise ValueError(f"synthetic inotify: operation {op!r} not supported")
    for m in masks:
        ino.queue.put_nowait(D.FakeEvent(m, op[1]))


async def _phased_history(spec, phases, synthetic=False):
    res = {"phases": [], "error": None}
    with tempfile.TemporaryDirectory() as tmp:
        root = os.path.join(tmp, "proj")
        os.mkdir(root)
        with contextlib.chdir(root):
            dq = asyncio.Queue()
            with D.open_stack_db(os.path.join(tmp, "a.db")) as db:
                st = await D.Stack(db, dq).init()
                await D.build_project(st, spec)
                async with D.wrapper_ctx(dq, synthetic=synthetic) as w:
                    await D.settle_dir_queue(w)
                    await (D.drain_fake(w) if synthetic else D.settle_real(w))
                    for k, phase in enumerate(phases):
                        items = []
                        for batch in phase:
                            for op in batch:
                                if synthetic:
                                    _synthetic_apply(w, op)
                                else:
                                    D.apply_op(op)
                            items += await (D.drain_fake(w) if synthetic else D.settle_real(w))
                        kernel = (sorted(d for d in set(w.inotify.added) if w.inotify.added.count(d) > w.inotify.removed.count(d))
                                  if synthetic else D.kernel_labels(w))
                        res["phases"].append({"batches": phase, "items": items, "watches": D.watches_dump(w),
                                              "kernel": kernel})
                        if k == len(phases) - 1:
                            D.backup_db(db, os.path.join(tmp, "b.db"))
                        try:
                            await D.watch_commit(st, items=items)
                        except Exception as e:  # noqa: BLE001
                            res["error"] = f"{type(e).__name__}: {e}"
                            break
                    res["a"] = await D.dump_graph(st)
            if res["error"] is None:
                with D.open_stack_db(os.path.join(tmp, "b.db")) as db2:
                    st2 = await D.Stack(db2, None).init()
                    await D.startup_rescan(st2)
                    res["b"] = await D.dump_graph(st2)
    res["diff"] = D.diff_dumps(res["a"], res["b"]) if res["error"] is None else [("error", "", res["error"], None)]
    return res


def _phased_signature(res):
    """The signature of a phased disagreement is derived from what was OBSERVED (cause + complete shape of
    the difference), never from the name of the case: D40 / D41 match only their own witnesses.
    D40 (W1): the last phase edited a file in a directory that `watches` records as installed and not a
    single item was queued; the only primary difference is that file's digest.
    D41 (W2): at the end of the last phase the kernel holds a watch for a directory that `watches` records
    as pending (the late IGNORED clobbered the entry), and the only primary difference is a file directly
    under that directory that the watch side still has CONFIRMED and the restart found MISSING.
    In both, the only secondary differences allowed are the cascade of that one file (consumer PENDING vs
    SUCCEEDED, its output OUTDATED vs BUILT)."""
    last = res["phases"][-1]
    diff = res["diff"]
    # a new match that only the restart has, in an existing directory that is a key of `watches` while a proper
    # ancestor of it is not: dir_loop did not record that missing ancestor, change_loop skipped it when it appeared
    for sec, k, a, b in diff:
        if sec == "nglobs":
            for pth in sorted(set(b or []) - set(a or [])):
                d = os.path.dirname(pth)
                anc, q = [], os.path.dirname(d)
                while q:
                    anc.append(q)
                    q = os.path.dirname(q)
                if d in last["watches"] and any(q not in last["watches"] for q in anc) \
                        and not any(it[1] == pth for it in last["items"]):
                    return SIG_DEEP
    prim = [(k, a, b) for sec, k, a, b in diff if sec == "files" and a and b and not ({a[0], b[0]} <= {"BUILT", "OUTDATED"})]
    casc = [(sec, k, a, b) for sec, k, a, b in diff if not (sec == "files" and a and b and not ({a[0], b[0]} <= {"BUILT", "OUTDATED"}))]
    casc_ok = all((sec == "files" and a and b and a[0] == "BUILT" and b[0] == "OUTDATED" and a[1:] == b[1:])
                  or (sec == "steps" and a and b and a[1] == "SUCCEEDED" and b[1] == "PENDING" and a[0] == b[0] and a[2:] == b[2:])
                  for sec, k, a, b in casc)
    if len(prim) != 1 or not casc_ok:
        return "watch-vs-restart:phased:other"
    path, a, b = prim[0]
    parent = os.path.dirname(path) or "."
    edited = [op[1] for batch in last["batches"] for op in batch if op[0] == "write"]
    if (not last["items"] and path in edited and last["watches"].get(parent) is True
            and a[0] == b[0] == "CONFIRMED" and a[1] != b[1]):
        return SIG_W1
    clobbered = [d for d in last["kernel"] if last["watches"].get(d) is False]
    if (parent in clobbered and a[0] == "CONFIRMED" and b[0] == "MISSING"
            and not any(k == "DELETED_PARENT" and q == parent for k, q in last["items"])):
        return SIG_W2
    return "watch-vs-restart:phased:other"


def _run_phased(ctx, nrandom=0):
    cases = [(n, c, False) for n, c in PHASED.items()]
    deep = [(n, c) for n, c in PHASED.items() if n.startswith("deep-")] + \
           [(f"deep-random-{k}", _rand_deep(ctx.rng)) for k in range(nrandom)]
    # generated deep cases alternate between real inotify and the synthetic one (which needs no inotify instance);
    # the named deep cases run on both
    cases += [(n + "[synthetic-inotify]", c, True) for n, c in deep if not n.startswith("deep-random-")]
    cases += [(n + ("[synthetic-inotify]" if k % 2 else ""), c, bool(k % 2))
              for k, (n, c) in enumerate(d for d in deep if d[0].startswith("deep-random-"))]
    seen = set()
    for name, (spec, phases), synthetic in cases:
        try:
            res = D.run(_phased_history(spec, phases, synthetic=synthetic), timeout=120)
        except D.InotifyUnavailable:
            ctx.count("histories_skipped_no_inotify_instance")
            continue
        except (TimeoutError, asyncio.TimeoutError):
            raise
        except Exception as e:  # noqa: BLE001  the code under test raised: an outcome of the case
            sig = _died_signature(e)
            ctx.count("phased_histories_wrapper_died")
            if sig not in seen:
                seen.add(sig)
                ctx.add_failure("oracle", f"rebuild-vs-restart:{name}", sig,
                                f"{name}: phases {phases!r}: the watcher raised {type(e).__name__}: {e}",
                                witness={"case": name, "phased": True, "synthetic": synthetic, "project": spec, "phases": phases,
                                         "exception": f"{type(e).__name__}: {e}"})
            continue
        ctx.case(("phased", name), nontrivial=any(ph["items"] for ph in res["phases"]))
        ctx.count("phased_histories")
        if name in PHASED_EXPECT:
            ctx.stats.setdefault("witness_replays", {})[name] = "disagrees" if res["diff"] else "agrees"
        if not res["diff"]:
            continue
        sig = _phased_signature(res) if not res.get("error") else "watch-vs-restart:phased:watch-commit-exception"
        if sig in seen:
            continue
        seen.add(sig)
        last = res["phases"][-1]
        ctx.add_failure("oracle", f"rebuild-vs-restart:{name}", sig,
                        f"{name}: after the phases {phases!r} (operations of one inner list applied before the watcher "
                        f"ran; a rebuild after every phase but the last) the last watch phase queued {last['items']!r} "
                        f"with watches {last['watches']!r} / kernel watches {last['kernel']!r}; the watch-phase commit "
                        f"and a restart on a copy of the same database and tree disagree: {res['diff']!r}",
                        witness={"case": name, "phased": True, "synthetic": synthetic, "project": spec, "phases": phases,
                                 "diff": res["diff"]})


WS_DIRS = ["d1", "d1/sub", "d2", "d9", "d9/sub"]
WS_SPEC = {"dirs": ["d1/sub", "d2"], "static": {"d1/m.txt": None, "d1/sub/m.txt": None, "d2/m.txt": None}}
WS_NAMED = {
    "W1": [[["mv", "d1", "d9"]], [["mkdir", "d1"]], [["mkdir", "d1/sub"]]],
    "W2": [[["mv", "d2", "d9"], ["mkdir", "d2"]], [["mv", "d2", "d8"]]],
    "W2-slow": [[["mv", "d2", "d9"]], [["mkdir", "d2"]], [["mv", "d2", "d8"]]],
    "rmdir-mkdir": [[["rmdir", "d2"]], [["mkdir", "d2"]], [["rmdir", "d1/sub"], ["mkdir", "d1/sub"]]],
    "back-and-forth": [[["mv", "d1", "d9"], ["mv", "d9", "d1"]], [["mv", "d1/sub", "d2/sub"]]],
    "tree-moved-in": [[["rmdir", "d1/sub"]], [["rmdir", "d1"]], [["mkdir", "d9"]], [["mkdir", "d9/sub"]], [["mv", "d9", "d1"]]],
}


async def _watchset_case(batches, requests=()):
    """Directory operations only (the project's directories hold no files, its static files are MISSING):
    the real AsyncInotifyWrapper on real inotify versus model/WatchSet.v run_batches."""
    with tempfile.TemporaryDirectory() as tmp:
        root = os.path.join(tmp, "proj")
        os.mkdir(root)
        with contextlib.chdir(root):
            dq = asyncio.Queue()
            with D.open_stack_db(":memory:") as db:
                st = await D.Stack(db, dq).init()
                await D.build_project(st, WS_SPEC)
                os.remove("plan.py")
                async with D.wrapper_ctx(dq) as w:
                    await D.settle_dir_queue(w)
                    await D.settle_real(w)
                    dirs0 = sorted(p.rstrip("/") for p, c in D.snapshot_tree(".").items() if c is None)
                    w0 = D.watches_dump(w)
                    k0 = D.kernel_labels(w)
                    # directories handed to the REAL dir_loop (model: WatchSet.dir_requests with the generated
                    # dir_loop_program), possibly with several missing levels
                    from path import Path
                    for rq in requests:
                        dq.put_nowait(Path(rq))
                    await D.settle_dir_queue(w)
                    wr, kr = D.watches_dump(w), D.kernel_labels(w)
                    items, applied = [], []
                    for batch in batches:
                        done = [op for op in batch if D.apply_op(op)]
                        applied.append(done)
                        items += await D.settle_real(w)
                    return {"dirs0": dirs0, "w0": w0, "k0": k0, "requests": list(requests), "wr": wr, "kr": kr,
                            "batches": applied, "items": items,
                            "w1": D.watches_dump(w), "k1": D.kernel_labels(w),
                            "dirs1": sorted(p.rstrip("/") for p, c in D.snapshot_tree(".").items() if c is None)}


def _watchset_term(r):
    ino = {p: i + 1 for i, p in enumerate(r["dirs0"])}
    ino["."] = 0
    if sorted(r["k0"]) != sorted(p for p, v in r["w0"].items() if v):
        return None
    dirs = coq_list([f"({i}, {coq_str(p)})" for p, i in sorted(ino.items()) if p != "."])
    kw = coq_list([f"({ino[p]}, {coq_str(p)})" for p in r["k0"]])
    w0 = coq_list([f"({coq_str(p)}, {coq_bool(v)})" for p, v in sorted(r["w0"].items())])
    w1 = coq_list([f"({coq_str(p)}, {coq_bool(v)})" for p, v in sorted(r["w1"].items())])

    def cop(op):
        if op[0] == "mkdir":
            return f"OMkdir {coq_str(op[1])}"
        if op[0] == "rmdir":
            return f"ORmdir {coq_str(op[1])}"
        return f"OMove {coq_str(op[1])} {coq_str(op[2])}"
    bs = coq_list([coq_list([cop(op) for op in b]) for b in r["batches"]])
    items = coq_list([_coq_item(k, p, False) for k, p in r["items"]])
    reqs = coq_list([coq_str(q) for q in r.get("requests", [])])
    wr = coq_list([f"({coq_str(p)}, {coq_bool(v)})" for p, v in sorted(r.get("wr", r["w0"]).items())])
    kr = coq_list([coq_str(p) for p in r.get("kr", r["k0"])])
    return (f"let s0 := dir_requests (mk_sys {dirs} {len(ino)} {kw} [] {w0} []) {reqs} in "
            f"let s := run_batches s0 {bs} in "
            f"mseteq (map wkey (s_w s0)) (map wkey {wr}) && mseteq (map snd (s_kw s0)) {kr} && "
            f"mseteq (map wkey (s_w s)) (map wkey {w1}) && mseteq (map snd (s_kw s)) {coq_list([coq_str(p) for p in r['k1']])} "
            f"&& mseteq (map ikey (s_items s)) (map ikey {items}) "
            f"&& mseteq (map snd (s_dirs s)) {coq_list([coq_str(p) for p in r['dirs1']])}")


WS_REQUESTS = ["d5/a", "d5/a/b", "d2/n/m/k", "d1/sub/k/l", "d9/sub", "d1", "d7"]
# `mv d2 d9 && rmdir d9` before the wrapper handles MOVED_FROM|ISDIR d2: the kernel has dropped the watch of the removed
# directory, change_loop's rm_watch raises OSError EINVAL and the task dies (finding C14-rmwatch, model: WatchSet rm_dropped)
WS_DIED = {"mv-then-rmdir-in-one-go": [[["mv", "d2", "d9"], ["rmdir", "d9"]]]}
WS_DEEP = {
    "request-2-missing-levels": (["d5/a"], [[["mkdir", "d5"]], [["mkdir", "d5/a"]]]),
    "request-3-missing-levels-at-once": (["d5/a/b"], [[["mkdir", "d5"], ["mkdir", "d5/a"], ["mkdir", "d5/a/b"]]]),
    "request-4-missing-levels-below-existing": (["d2/n/m/k", "d2/n"], [[["mkdir", "d2/n"]], [["mkdir", "d2/n/m"], ["mkdir", "d2/n/m/k"]]]),
}


def _died_signature(e):
    """An exception of the code under test is an OUTCOME of the case.  Signature = where in /repo it was raised
    + what + the distinguishing circumstance read from the innermost /repo frame."""
    import errno as _errno
    import traceback
    frames = [f for f in traceback.extract_tb(e.__traceback__) if "/stepup/core/" in f.filename]
    where = frames[-1].name if frames else "?"
    line = (frames[-1].line or "") if frames else ""
    what = type(e).__name__
    if isinstance(e, OSError) and e.errno:
        what += "-" + _errno.errorcode.get(e.errno, str(e.errno))
    circ = "rm_watch-of-a-watch-the-kernel-already-dropped" if "rm_watch" in line and isinstance(e, OSError) \
        else (line.strip()[:60].replace(" ", "_") or "unknown")
    return f"watcher-died:{where}:{what}:{circ}"


SIG_RMWATCH = "watcher-died:change_loop:OSError-EINVAL:rm_watch-of-a-watch-the-kernel-already-dropped"


def _watchset_cases(ctx, nrandom):
    rng = ctx.rng
    cases = [(n, b, ()) for n, b in WS_NAMED.items()] + [(n, b, rq) for n, (rq, b) in WS_DEEP.items()] + \
            [(n, b, ()) for n, b in WS_DIED.items()]
    for k in range(nrandom):
        bs = []
        for _ in range(rng.randint(1, 4)):
            b = []
            for _ in range(rng.choice([1, 1, 2, 3])):
                r = rng.random()
                if r < 0.4:
                    b.append(["mkdir", rng.choice(WS_DIRS)])
                elif r < 0.65:
                    b.append(["rmdir", rng.choice(WS_DIRS)])
                else:
                    b.append(["mv", rng.choice(WS_DIRS), rng.choice(WS_DIRS)])
            bs.append(b)
        rqs = rng.sample(WS_REQUESTS, k=rng.choice([0, 1, 1, 2]))
        if rqs and rng.random() < 0.7:
            # create the requested levels top-down inside the history
            parts = rqs[0].split("/")
            mk = [["mkdir", "/".join(parts[:i + 1])] for i in range(len(parts))]
            bs = [[op] for op in mk] + bs if rng.random() < 0.5 else [mk] + bs
        cases.append((f"ws-random-{k}", bs, rqs))
    checks, descr = [], []
    died = set()
    for name, bs, rqs in cases:
        try:
            r = D.run(_watchset_case(bs, rqs), timeout=120)
        except D.InotifyUnavailable:
            ctx.count("histories_skipped_no_inotify_instance")
            continue
        except (TimeoutError, asyncio.TimeoutError):
            raise
        except Exception as e:  # noqa: BLE001  the real wrapper raised: an outcome of the case, judged by the property
            sig = _died_signature(e)
            ctx.case(("watchset", repr(bs), repr(rqs)), nontrivial=True)
            ctx.count("watchset_cases_wrapper_died")
            if sig not in died:
                died.add(sig)
                ctx.add_failure("oracle", f"watchset:{name}", sig,
                                f"{name}: directory operations {bs!r} (one inner list = applied before the wrapper ran), requested "
                                f"directories {list(rqs)!r}: the real AsyncInotifyWrapper died with {type(e).__name__}: {e}; its "
                                "change_loop task ends, nothing is queued any more, a watch-mode rebuild misses every later change "
                                "while a restart sees it",
                                witness={"case": name, "watchset": True, "batches": bs, "requests": list(rqs),
                                         "exception": f"{type(e).__name__}: {e}"})
            continue
        term = _watchset_term(r)
        if term is None:
            continue
        checks.append(term)
        descr.append((name, r))
        stale = sorted(p for p, v in r["w1"].items() if v and p != "." and p not in r["dirs1"])
        clob = sorted(p for p in r["k1"] if not r["w1"].get(p, False))
        ctx.case(("watchset", repr(r["batches"])), nontrivial=any(r["batches"]))
        ctx.count("watchset_cases")
        if r.get("requests"):
            ctx.count("watchset_cases_with_requested_directories")
        if stale:
            ctx.count("watchset_installed_entry_for_missing_directory")
        if clob:
            ctx.count("watchset_kernel_watch_recorded_as_pending")
    return checks, descr


def _random_scripted(ctx, n):
    return [(f"scripted-random-{k}", SC.random_scripted(ctx.rng)) for k in range(n)]


def _run_scripted(ctx, extra=()):
    """Histories on the in-process Watcher with scripted queue items (harness/c14_scripted.py): no inotify
    instance, no generated Coq file: runs whatever else broke."""
    seen = set()
    for name, (spec, phases) in list(SC.SCRIPTED.items()) + list(extra):
        try:
            res = D.run(SC.scripted_history(spec, phases), timeout=120)
        except Exception as e:  # noqa: BLE001
            sig = f"scripted-history:exception:{type(e).__name__}"
            if sig not in seen:
                seen.add(sig)
                ctx.add_failure("oracle", f"rebuild-vs-restart:{name}", sig, f"{name}: {type(e).__name__}: {e}",
                                witness={"case": name, "scripted": True, "project": spec, "phases": phases})
            continue
        reports = [r for ph in res["phases"] for r in ph["reports"]]
        ctx.case(("scripted", name), nontrivial=any(t in ("UPDATED", "DELETED") for t, _p in reports))
        ctx.count("scripted_histories")
        if any(t == "UNCHANGED" and [("DELETED", p2) for t2, p2 in reports if t2 == "DELETED" and p2 == p]
               for t, p in reports):
            ctx.count("scripted_unchanged_rehash_of_deleted_path")
        if name in ("vanished-match-during-build", "deleted-while-hash-job-runs"):
            ctx.sample({"scripted": name, "phases": phases, "reports": reports, "diff": res["diff"]})
        if not res["diff"]:
            continue
        ctx.count("scripted_histories_disagreeing")
        sig = SC.classify_scripted(res)
        if sig in seen:
            continue
        seen.add(sig)
        ctx.add_failure("oracle", f"rebuild-vs-restart:{name}", sig,
                        f"{name}: project {spec!r}; phases (ops = while the build ran, queued = items on the queue when "
                        f"run_once starts, watch_ops/items = while watching, late_ops = translated after end_watching) "
                        f"{phases!r}: the watch-phase commit of the last phase and a restart on a copy of the same database "
                        f"and tree disagree: {res['diff']!r}; watcher reported {reports!r}; watch error {res.get('error')!r}",
                        witness={"case": name, "scripted": True, "project": spec, "phases": phases, "diff": res["diff"]})


def _model_sweep(ctx):
    """Search for a counterexample of C14_watch_commit_equals_rescan for the GENERATED commit_program on an
    exhaustive one-path family; every counterexample is a genuine one (wf_b / covers_b are sound) and is
    replayed on the real Watcher where the instance is reachable through the Workflow API."""
    insts = SC.sweep_instances()
    terms = [SC.sweep_term(i, False) for i in insts] + [SC.sweep_term(i, True) for i in insts]
    bad = common.run_cases(ctx, "sweep", HEADER + SC.SWEEP_HEADER, terms, chunk=400)
    n = len(insts)
    vacuous = {i - n for i in bad if i >= n}
    for k, inst in enumerate(insts):
        ctx.case(("sweep", repr(inst)), nontrivial=k not in vacuous)
    ctx.stats["sweep_instances"] = n
    ctx.stats["sweep_instances_satisfying_hypotheses"] = n - len(vacuous)
    cex = [insts[i] for i in bad if i < n]
    ctx.traces_validated += n - len(cex)
    ctx.stats["sweep_counterexamples"] = len(cex)
    if not cex:
        return
    real = []
    for inst in cex:
        m = SC.real_spec_of_instance(inst)
        if m is not None:
            real.append((f"model-counterexample-{len(real)}", m))
    prog = "; ".join(ctx.stats.get("commit_program") or ["?"])
    ctx.add_failure("correspondence", "commit-program-sweep", f"commit-program:model-counterexample:[{prog}]",
                    f"the commit program translated from Watcher.run_once [{prog}] differs from startup_rescan on "
                    f"{len(cex)} well-formed, covered instance(s) of the one-path family, e.g. {cex[0]!r} "
                    "(node state / attached / recorded hash / path recorded as match / hash on disk / in which set)",
                    witness={"case": "commit-program-sweep", "sweep": True, "instances": cex[:6]})
    _run_scripted_only(ctx, real[:4])


def _run_scripted_only(ctx, cases):
    saved = dict(SC.SCRIPTED)
    try:
        SC.SCRIPTED.clear()
        _run_scripted(ctx, cases)
    finally:
        SC.SCRIPTED.update(saved)


def correspondence(ctx):
    _model_sweep(ctx)
    ws_checks, ws_descr = _watchset_cases(ctx, ctx.scale(12, 150))
    bad = common.run_cases(ctx, "watchset", HEADER + "From SV Require Import model.WatchSet.\n", ws_checks, chunk=100)
    ctx.traces_validated += len(ws_checks) - len(bad)
    for i in bad[:2]:
        ctx.add_failure("correspondence", "watchset", "watchset:model-vs-real-wrapper",
                        f"real AsyncInotifyWrapper on real inotify and model/WatchSet.v run_batches disagree on "
                        f"{ws_descr[i][0]}: {ws_descr[i][1]!r}", witness={"case": ws_descr[i][0], **ws_descr[i][1]})
    checks, descr = D.run(_fold_cases(ctx, ctx.scale(150, 1500)), timeout=900)
    bad = common.run_cases(ctx, "fold", HEADER, checks, chunk=100)
    ctx.traces_validated += len(checks) - len(bad)
    for d in descr[:2]:
        ctx.sample({"fold": d})
    for i in bad[:3]:
        ctx.add_failure("correspondence", "fold:record_change", "fold:record_change-vs-model",
                        f"real Watcher.record_change and model fold_changes disagree: {descr[i]!r}",
                        witness=descr[i])


def oracle(ctx):
    _run_scripted(ctx, _random_scripted(ctx, ctx.scale(25, 400)))
    _run_phased(ctx, ctx.scale(12, 150))
    checks, descr = _run_histories(ctx, ctx.scale(40, 400))
    if ctx.stats.get("histories_skipped_no_inotify_instance"):
        ctx.notes.append(f"{ctx.stats['histories_skipped_no_inotify_instance']} histories skipped: no free inotify "
                         "instance (fs.inotify.max_user_instances exhausted by other processes)")
    _run_sys(ctx, ctx.scale(10, 120))
    if ctx.stats.get("sys_skipped_no_inotify_instance"):
        ctx.notes.append(f"{ctx.stats['sys_skipped_no_inotify_instance']} full-system cases skipped: no free inotify instance")
    bad = common.run_cases(ctx, "loop", HEADER, checks, chunk=100)
    ctx.traces_validated += len(checks) - len(bad)
    seen = set()
    for i in bad:
        kind = descr[i][0]
        if kind in seen:
            continue
        seen.add(kind)
        sig = {"change_loop": "change_loop:model-vs-real-events", "kernel_rows": "kernel-model:file-operation-events",
               "commit_model": "commit:model-vs-real-watch-commit", "rescan_model": "rescan:model-vs-real-startup-rescan"}[kind]
        ctx.add_failure("correspondence", kind, sig,
                        f"{kind}: model and real AsyncInotifyWrapper disagree on {descr[i][1:]!r}",
                        witness={"kind": kind, "case": descr[i][1], "detail": [repr(x)[:2000] for x in descr[i][2:]]})


def _run_sys(ctx, ngen):
    """Full-system rebuild-vs-restart on E3 (harness/c14_sys.py): outputs, canonical graph, return code."""
    from . import c14_sys as S
    from . import e3_gen
    seen = set()
    cases = [(name, fac(), phases, {}) for name, (fac, phases) in S.NAMED.items()]
    base = ctx.rng.randrange(10 ** 6)
    for k in range(ngen):
        proj, hist = e3_gen.gen_case(base + k, max_phases=3, watch_safe=True)
        cases.append((f"gen-{base + k}", proj, [ph["edits"] for ph in hist], {"resources": "tok:1"}))
    for name, proj, phases, kw in cases:
        try:
            results = S.run_case(proj, phases, **kw)
        except S.Skip:
            ctx.count("sys_skipped_no_inotify_instance")
            continue
        ctx.count("sys_cases")
        for i, r in enumerate(results):
            ctx.count("sys_phases")
            ctx.count("sys_rc_" + str(r["restart_rc"]))
            relevant = bool(r["observed"]["updated"] or r["observed"]["deleted"])
            ctx.case(("sys", name, i, repr(r["edits"])), nontrivial=relevant)
            if name in ("delete-then-recreate", "moved-directory") and i == 0:
                ctx.sample({"sys": name, "edits": r["edits"], "observed": r["observed"], "watch_rc": r.get("watch_rc"),
                            "restart_rc": r["restart_rc"], "diff": r["diff"]})
            if not r["diff"]:
                continue
            if r.get("watch_error"):
                sig = "sys:watch-phase:exception:" + r["watch_error"].split(":")[0]
            elif _is_d10d(r):
                sig = SIG_D10D
            else:
                sig = "sys:watch-vs-restart:" + S.diff_signature(r["diff"])
            ctx.count("sys_phases_disagreeing")
            if sig in seen:
                continue
            seen.add(sig)
            ctx.add_failure("oracle", f"sys:rebuild-vs-restart:{name}", sig,
                            f"{name} phase {i}: after {r['edits']!r} made while the real director was watching, "
                            f"`rebuild` and a restart on a copy of the same tree and database differ: "
                            f"rc {r.get('watch_rc')} vs {r['restart_rc']}, watcher observed {r['observed']!r}, "
                            f"commands run {r.get('watch_executed')!r} vs {r.get('restart_executed')!r}, "
                            f"differences {S.short_diff(r['diff'])!r}",
                            witness={"case": name, "sys": True, "project": proj.to_json(), "phases": phases, "phase": i,
                                     "build_kwargs": kw, "diff": S.short_diff(r["diff"], 8)})


def _is_d10d(r):
    """D10d by cause and shape, not by case name: nothing inside the new directory was queued, the watch-mode rebuild ran
    nothing, and every difference is a node / file that only the restart has (the new match in the new,
    never watched directory, its step, its output) or the registering step's recorded matches."""
    obs = r.get("observed") or {}
    new_dirs = {e["path"].split("/")[0] for e in r["edits"] if e.get("op") == "write" and "/" in e.get("path", "")}
    # (late events of the previous build's own outputs may be recorded and pruned as unchanged)
    if r.get("watch_executed") or any(p.split("/")[0] in new_dirs for p in list(obs.get("updated", [])) + list(obs.get("deleted", []))):
        return False
    for d in r["diff"]:
        if d["field"] == "file" and d.get("a") is None:
            continue
        if d["field"] == "graph" and d.get("a") is None and any(x in str(d["key"]) for x in new_dirs):
            continue
        if d["field"] == "graph" and d.get("a") and d.get("b") and "nglob" in (d["a"].get("props") or {}):
            continue
        return False
    return bool(new_dirs)


def search(ctx):
    """Implementation-only oracle families at a larger scale (they need neither coq/gen nor the model)."""
    _run_scripted_only(ctx, _random_scripted(ctx, 600))
    _run_histories(ctx, 300, do_model=False)


def replay(ctx, obj):
    w = obj["failure"].get("witness") or {}
    print("replaying", w.get("case"), w.get("ops"))
    if w.get("scripted"):
        res = D.run(SC.scripted_history(w["project"], w["phases"]), timeout=120)
        print("diff:", res["diff"], "error:", res.get("error"))
        if res["diff"]:
            ctx.add_failure("oracle", f"rebuild-vs-restart:{w.get('case')}", obj["failure"]["signature"],
                            f"replayed: {res['diff']!r}", witness=w)
    elif w.get("watchset"):
        try:
            D.run(_watchset_case(w["batches"], w.get("requests", ())), timeout=120)
            print("the wrapper survived")
        except Exception as e:  # noqa: BLE001
            print("the wrapper died:", type(e).__name__, e)
            ctx.add_failure("oracle", f"watchset:{w.get('case')}", _died_signature(e), f"replayed: {type(e).__name__}: {e}", witness=w)
    elif w.get("sweep"):
        _model_sweep(ctx)
    elif w.get("phased"):
        res = D.run(_phased_history(w["project"], w["phases"], synthetic=bool(w.get("synthetic"))), timeout=120)
        print("diff:", res["diff"])
        if res["diff"]:
            ctx.add_failure("oracle", f"rebuild-vs-restart:{w.get('case')}", obj["failure"]["signature"],
                            f"replayed: {res['diff']!r}", witness=w)
    elif w.get("sys"):
        from . import c14_sys as S
        from . import e3
        results = S.run_case(e3.Project.from_json(w["project"]), w["phases"], **w.get("build_kwargs", {}))
        for i, r in enumerate(results):
            print("phase", i, "observed", r["observed"], "rc", r.get("watch_rc"), r["restart_rc"], "diff", S.short_diff(r["diff"]))
            if r["diff"]:
                ctx.add_failure("oracle", f"sys:rebuild-vs-restart:{w.get('case')}", obj["failure"]["signature"],
                                f"replayed: {S.short_diff(r['diff'])!r}", witness=w)
    elif "project" in w:
        res = D.run(_one_history(w["project"], w["ops"]), timeout=120)
        sigs = _classify(res) if (res["diff"] or res.get("error")) else set()
        print("diff:", res["diff"], "error:", res.get("error"), "signatures:", sorted(sigs))
        _report(ctx, w.get("case", "replay"), w["project"], w["ops"], res, sigs, set())
    else:
        oracle(ctx)
