"""C20: the ROOT / HERE / cwd that the REAL Executor._run_command hands to a step.

The real coroutine `stepup.core.executor.Executor._run_command` is executed (not its source text):

* on a real `Executor` constructed with stub collaborators (fallback: unbound, on a duck-typed self,
  when the constructor no longer accepts these keywords),
* with a real `stepup.core.run.Run` around a stub step whose `label` is built by the real
  `Step.adjust_label` and parsed by the real `Step.command_and_workdir` property
  (fallback: plain stubs),
* with `stepup.core.executor.launch_command` replaced by an async function that records the `env` and
  `cwd` it is given and returns a real successful `ChildOutcome` (no process is started),
* with `os.getcwd` replaced by a function returning the project root of the case (the `path` library and
  posixpath read the working directory through `os.getcwd` at call time; this is verified on every case:
  `str(Path.cwd())` must equal the root, otherwise `RealExecError`),
* `workflow.create_dirs` is a recording no-op, the database an empty async context manager, the reporter an
  async no-op.  Nothing is created on disk.

Whatever statements the function uses to compute env["ROOT"] / env["HERE"] (helper variables, os.sep,
other library calls) are executed as they are.  Every patch is undone in `RealExec.__exit__`.
"""
from __future__ import annotations

import asyncio
import contextlib
import inspect
import os


class RealExecError(Exception):
    """The real _run_command could not be driven to the point where it launches the command."""


class _Record:
    def __init__(self, path):
        self.path = path


class _StubStep:
    """What _run_command reads from `run.step` (a step without outputs, default need, no shell)."""

    def __init__(self, command, workdir):
        from stepup.core.step import Step
        self._command, self._workdir = command, workdir
        try:
            self.label = Step.adjust_label(command, workdir)
        except Exception:  # noqa: BLE001 - label construction is not what is checked here
            self.label = command if workdir == "." else f"{command}  # wd={workdir}"
        self.i = 1

    @property
    def command_and_workdir(self):
        from path import Path
        from stepup.core.step import Step
        prop = getattr(Step, "command_and_workdir", None)
        if isinstance(prop, property):
            return prop.fget(self)
        return self._command, Path(self._workdir)

    def uses_shell(self):
        return False

    def get_need(self):
        from stepup.core.enums import Need
        return Need.DEFAULT

    def get_env_overrides(self):
        return {}

    def out_paths(self, *a, **k):
        return []

    def vol_paths(self, *a, **k):
        return []

    def inp_paths(self, *a, **k):
        return []

    def env_deps(self, *a, **k):
        return []


class _StubRun:
    def __init__(self, step, job_i):
        self.step, self.job_i = step, job_i
        self.description = step.label
        self.outcome = None
        self.success = True
        self.worker = None
        self.inp_digest = b""


class _StubDB:
    async def __aenter__(self):
        return self

    async def __aexit__(self, *exc):
        return False

    def __enter__(self):
        return self

    def __exit__(self, *exc):
        return False


class _StubReporter:
    async def __call__(self, *a, **k):
        return None

    def __getattr__(self, name):
        if name.startswith("__"):
            raise AttributeError(name)
        return lambda *a, **k: None


class _StubWorkflow:
    def __init__(self):
        self.created = []
        self.defer_cap = 10

    def create_dirs(self, paths, *a, **k):
        self.created.append([str(p) for p in paths])


class _StubSelf:
    """Duck-typed `self` for the unbound call (only used when the real constructor refuses the stubs)."""

    def __init__(self, workflow, db, reporter):
        from stepup.core.outcome import ResourceUsage
        self.workflow, self.db, self.reporter = workflow, db, reporter
        self.scheduler = None
        self.mp_ctx = None
        self.suspended_total = 0.0
        self.step_usage = ResourceUsage()
        self.running = {}
        self.infra_env = {}
        self.explain_rerun = self.keep_going = self.live_progress = self.write_joblog = False

    @property
    def base_env(self):
        return dict(os.environ)

    @contextlib.contextmanager
    def _track_running(self, job):
        yield


class RealExec:
    """Context manager: patches once, runs the real _run_command for many (root, workdir) pairs."""

    COMMAND = "true"

    def __init__(self):
        self.mode = None
        self._root = None
        self._calls = []
        self._entered = False

    def __enter__(self):
        import stepup.core.executor as ex
        from stepup.core.outcome import ChildOutcome, ResourceUsage
        self._ex = ex
        self._saved_launch = ex.launch_command
        self._saved_getcwd = os.getcwd
        try:
            sig = inspect.signature(self._saved_launch)
        except (TypeError, ValueError):
            sig = None
        calls = self._calls

        async def recording_launch(*args, **kwargs):
            bound = {}
            if sig is not None:
                try:
                    bound = dict(sig.bind(*args, **kwargs).arguments)
                except TypeError:
                    bound = {}
            bound = {**bound, **kwargs}
            calls.append(bound)
            return ChildOutcome(returncode=0, stdout="", stderr="", usage=ResourceUsage())

        self._loop = asyncio.new_event_loop()
        ex.launch_command = recording_launch
        os.getcwd = lambda: self._root if self._root is not None else self._saved_getcwd()
        self._entered = True
        return self

    def __exit__(self, *exc):
        os.getcwd = self._saved_getcwd
        self._ex.launch_command = self._saved_launch
        self._loop.close()
        self._entered = False
        return False

    def _make_self(self, wf, db, rep):
        from stepup.core.executor import Executor
        try:
            obj = Executor(scheduler=None, workflow=wf, db=db, reporter=rep, explain_rerun=False,
                           keep_going=False, live_progress=False, write_joblog=False, infra_env={})
            self.mode = "real Executor instance"
            return obj
        except Exception:  # noqa: BLE001 - constructor changed: call the real function unbound
            self.mode = "unbound Executor._run_command on a stub self"
            return _StubSelf(wf, db, rep)

    def run(self, root: str, workdir: str) -> dict:
        """{'ROOT', 'HERE', 'cwd', 'created'} as produced by the real function for this (root, workdir)."""
        from path import Path
        from stepup.core.executor import Executor
        if not self._entered:
            raise RealExecError("RealExec used outside its with-block")
        step = _StubStep(self.COMMAND, workdir)
        try:
            from stepup.core.run import Run
            run = Run(step, 1)
            run.inp_digest = b"\x00" * 8
        except Exception:  # noqa: BLE001
            run = _StubRun(step, 1)
            run.inp_digest = b"\x00" * 8
        wf, db, rep = _StubWorkflow(), _StubDB(), _StubReporter()
        me = self._make_self(wf, db, rep)
        del self._calls[:]
        self._root = root
        try:
            if str(Path.cwd()) != root:
                raise RealExecError(f"Path.cwd() = {str(Path.cwd())!r} does not honour the patched os.getcwd ({root!r})")
            try:
                self._loop.run_until_complete(Executor._run_command(me, run))
            except RealExecError:
                raise
            except Exception as e:  # noqa: BLE001
                raise RealExecError(f"Executor._run_command raised {type(e).__name__}: {e}") from e
        finally:
            self._root = None
        if len(self._calls) != 1:
            raise RealExecError(f"launch_command was called {len(self._calls)} times by _run_command")
        call = self._calls[0]
        env = call.get("env")
        if not isinstance(env, dict):
            raise RealExecError("launch_command was not given an env dictionary")
        if "cwd" not in call:
            raise RealExecError("launch_command was not given a cwd")
        out = {"cwd": None if call["cwd"] is None else str(call["cwd"]), "created": wf.created,
               "command": call.get("command")}
        for k in ("ROOT", "HERE"):
            v = env.get(k)
            out[k] = v if v is None else str(v)
            out[k + "_is_str"] = isinstance(v, str)
        return out


def real_exec_env(root: str, workdir: str) -> dict:
    """One-shot convenience wrapper around RealExec.run."""
    with RealExec() as rx:
        return rx.run(root, workdir)
