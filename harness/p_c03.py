"""C03: A step only succeeds on inputs that were final while it ran."""
from __future__ import annotations

import asyncio
import json

from . import common
from .common import coq_bool, coq_list, coq_option

PID = "C03"
PROPS_FILE = "props/C03.v"
MODEL_TARGETS = ["model/Fresh.vo", "model/FreshSkip.vo", "model/FreshStat.vo"]
RULE = ("(1) stamps: random histories of record_run_started/record_run_stopped(ok)/build_completed over 2-6 step ids "
        "with a scripted time.monotonic_ns (repeated readings frequent) on the real Scheduler versus "
        "Fresh.brun (functions generated from scheduler.py), comparing both dictionaries and every (producer, "
        "consumer) query after every event, and versus the never-pruned reference; non-trivial when at least one "
        "stop entry was pruned while another step was running. (2) consumer: one step c run by the real "
        "Scheduler.pop_next_job / Executor.execute_job / DirectorHandler.amend_step (wired by _wire_director, "
        "in-memory database, real files) with launch_command replaced by a script interpreter; files in 13 kinds "
        "(confirmed, unconfirmed present/absent, missing, built, planned, outdated, under a static tree "
        "present/absent, undeclared, detached static, detached output, volatile); other actors (producers "
        "starting/finishing/failing, confirmations, withdrawal and re-declaration of static files, external "
        "writes, clock ticks, new build phase) act through the real Workflow/Step/Scheduler methods before and "
        "during c's command; compared after every event of c with Fresh.check_trace: dispatch decision, amend "
        "answer (unavailable, unfresh, carry_on, rejection), step state, deferred, defer_count, draining, both "
        "stamp dictionaries, dynamic edges; non-trivial when the command started and at least one amend or "
        "environment action happened inside it; distinct by the whole script. A case continues after c SUCCEEDED: "
        "re-pending actions (mark_step_pending, EXTERNAL check of a rewritten/deleted output, producers, static "
        "inputs vanishing, withdrawal of amended inputs, a changed tracked environment variable, hash deletion) "
        "lead to CHECKING jobs (try_skip_job with 0-2 actions of other actors inside the await of its output "
        "hashing, validate_dynamic_job; 35 % of the cases are built around an amended static input that is "
        "withdrawn), 8 % of the runs cancel one hash computation (real cancel event); compared with "
        "FreshSkip.xcheck_trace incl. job kind, skipped, has_hash and the ingredient lists of explained hashes. "
        "(1b) refreshed: real FileHash.refreshed + compute_inp_hashes on a real file after 0-4 random file-system operations "
        "(write in place, rename, rename with preserved mtime/size/mode, chmod with preserved mtime, same bytes in a new "
        "inode, touch, delete, create, same-size forgery, touch back) with the record taken at a random moment versus "
        "FreshStat.refreshed_case; non-trivial when an operation follows the record. External writes of the consumer cases "
        "use the same kinds; 36 directed replacement histories (kind x phase x static/built) and 20 real serve() builds. "
        "(3) oracle on the implementation alone, from the driver's own event-order log and from digests "
        "recomputed with hash.StepHash over files hashed afresh by the driver.")
TRUSTED_BASE = [
    "Coq 8.16.1 kernel (vm_compute in Examples, in two refutation witnesses and in the correspondence evaluation)",
    "Print Assumptions: Closed under the global context for every C03 theorem",
    "translator/gen_fresh.py (statement/condition tables per function incl. _flag_inputs_not_final, SQL boolean parser, skeleton comparison; execute_job accepted in two reviewed shapes, which one is a generated fact)",
    "harness/c03_driver.py (script interpreter, row observation, hash-code abstraction of FileHash equality)",
    "the composition order in model/Fresh.v (do_try/do_amend/do_end) and model/FreshSkip.v (do_xtry/do_xchk/do_xend), validated by correspondence (2)",
    "translator tables for try_skip_job (two reviewed shapes), validate_dynamic_job, _reset_step_to_pending, the tail of _derive_job, job.py; literal skeletons of _run_work_thread, _compute_out_step_hash, hash.py ingredient words",
    "C13 (equal digests have equal ingredient lists): the model compares ingredient lists where the code compares SHA-256 digests",
    "translator/gen_fresh_stat.py (AST of FileHash / FileHash.refreshed, literal loops of compute_inp/out/both_hashes, statement "
    "lookups in executor.py); harness abstraction of a real file (digest code, st_mode, mtime code, st_size, st_ino)",
]
ASSUMPTIONS = [
    "no_aba: no writer restores the exact earlier content, size and mode of an input inside one command window "
    "(end-point hashing cannot observe it); the generator never produces such a write",
    "no_stat_forgery (explicit hypothesis `honest` of C03_refreshed_exact): bytes written in place get an mtime other than "
    "the recorded one, nobody sets the recorded mtime back on the recorded inode after a change, the recorded inode number is "
    "not given to another file that is moved to the path (ext4 reuses freed numbers at once: two successive replacements with "
    "preserved mtime/size/mode can defeat the shortcut; the harness does not produce that); refreshed is atomic",
    "build_completed is only called while no command runs (its documented precondition)",
    "a post-hoc amended static file that is confirmed for the first time during the command cannot be checked "
    "for the part of the window before its confirmation",
    "(since fix a02f82b the former hypothesis db_stable is enforced by Executor._flag_inputs_not_final and proved)",
    "an external write (no database change) between the input hashing and the recording transaction of try_skip_job "
    "is not seen by the skip (end-point hashing); it is found at the next start-up because record and disk differ",
]

from .p_c03_sigs import SIG_AMENDED_RECORD, SIG_OTHER, SIG_RECONF, SIG_RERUN, SIG_SKIP_WINDOW, SIG_VALIDATE_LOOP


def generate(ctx):
    from translator import gen_fresh, gen_fresh_stat
    from translator.astutil import TranslatorError
    errors = []
    ctx.facts = {}
    for mod, name in ((gen_fresh, "GenFresh.v"), (gen_fresh_stat, "GenFreshStat.v")):
        try:
            text, facts = mod.generate()
        except TranslatorError as e:      # the other file is still regenerated: its model keeps running
            errors.append(e)
            continue
        ctx.write_gen(name, text)
        ctx.facts.update(facts)
    if errors:
        raise errors[0]


# ---------------------------------------------------------------------------------------------
# (1) stamp bookkeeping: real Scheduler vs model vs reference
# ---------------------------------------------------------------------------------------------

HEADER = ("From Coq Require Import List NArith Bool.\nImport ListNotations.\n"
          "From SV Require Import lib.StampMap gen.GenFresh model.Fresh model.FreshSkip.\nOpen Scope N_scope.\n"
          "Definition no : option (xres * xobs) := None.\n"
          "Fixpoint bools_eqb (a b : list bool) : bool := match a, b with [] , [] => true"
          " | x :: a', y :: b' => Bool.eqb x y && bools_eqb a' b' | _, _ => false end.\n"
          "Fixpoint prefixes_ok (keys : list N) (pairs : list (N * N)) (b : book)"
          " (l : list (bev * (smap * smap * list bool))) : bool := match l with [] => true"
          " | (e, (a, o, q)) :: r => let b' := bstep b e in sm_agree_on keys (starts b') a &&"
          " sm_agree_on keys (stops b') o && bools_eqb (queries b' pairs) q && prefixes_ok keys pairs b' r end.\n"
          "Fixpoint ref_le (keys : list N) (pairs : list (N * N)) (b : book) (h : hist) (l : list bev) : bool :="
          " match l with [] => true | e :: r => let b' := bstep b e in let h' := hstep h e in"
          " forallb (fun pc => implb (ran_conc b' (fst pc) (snd pc)) (ran_ref h' (fst pc) (snd pc))) pairs"
          " && ref_le keys pairs b' h' r end.\n")


def coq_smap(d):
    return coq_list([f"({k}, {v})" for k, v in sorted(d.items())])


def coq_bev(e):
    if e[0] == "BStart":
        return f"BStart {e[1]} {e[2]}"
    if e[0] == "BStop":
        return f"BStop {e[1]} {e[2]} {coq_bool(e[3])}"
    return "BClear"


def gen_history(rng, n):
    steps = list(range(1, rng.randint(2, 6) + 1))
    evs, t, running = [], rng.randint(0, 5), set()
    for _ in range(n):
        t += rng.choice([0, 0, 0, 1, 1, 2, 5])
        r = rng.random()
        s = rng.choice(steps)
        if r < 0.45:
            evs.append(("BStart", s, t))
            running.add(s)
        elif r < 0.95:
            s = rng.choice(sorted(running)) if running and rng.random() < 0.85 else s
            evs.append(("BStop", s, t, rng.random() < 0.7))
            running.discard(s)
        else:
            if not running or rng.random() < 0.2:
                evs.append(("BClear",))
                running.clear()
    return steps, evs


def stamps_correspondence(ctx):
    import stepup.core.scheduler as sched_mod
    from stepup.core.scheduler import Scheduler
    rng = ctx.rng

    class Clk:
        now = 0

        def monotonic_ns(self):
            return self.now

    checks, descr = [], []
    old_time = sched_mod.time
    clk = Clk()
    sched_mod.time = clk
    try:
        for k in range(ctx.scale(160, 2000)):
            steps, evs = gen_history(rng, rng.randint(3, 30))
            pairs = [(p, c) for p in steps for c in steps]
            s = Scheduler(None, db=None)
            obs, pruned_while_running = [], False
            for e in evs:
                if e[0] == "BStart":
                    clk.now = e[2]
                    s.record_run_started(e[1])
                elif e[0] == "BStop":
                    clk.now = e[2]
                    before = len(s.stop_times) + (1 if e[3] and e[1] not in s.stop_times else 0)
                    s.record_run_stopped(e[1], succeeded=e[3])
                    if len(s.stop_times) < before and s.start_times:
                        pruned_while_running = True
                else:
                    s.start_times.clear()
                    s.stop_times.clear()
                obs.append((dict(s.start_times), dict(s.stop_times), [s.ran_concurrently(p, c) for p, c in pairs]))
            lst = coq_list([f"({coq_bev(e)}, ({coq_smap(a)}, {coq_smap(o)}, {coq_list([coq_bool(x) for x in q])}))"
                            for e, (a, o, q) in zip(evs, obs)])
            keys = coq_list([str(x) for x in steps])
            cpairs = coq_list([f"({p}, {c})" for p, c in pairs])
            checks.append(f"prefixes_ok {keys} {cpairs} book0 {lst} && "
                          f"ref_le {keys} {cpairs} book0 hist0 {coq_list([coq_bev(e) for e in evs])}")
            descr.append({"steps": steps, "events": evs})
            ctx.case(("stamps", tuple(evs)), nontrivial=pruned_while_running)
            # the never-pruned reference, in Python, on the implementation side as well:
            # an overlap in event order must be reported (ties included)
            run_idx, last_ok = {}, {}
            for i, e in enumerate(evs):
                if e[0] == "BStart":
                    run_idx[e[1]] = i
                elif e[0] == "BStop":
                    run_idx.pop(e[1], None)
                    if e[3]:
                        last_ok[e[1]] = i
                else:
                    run_idx.clear()
            for (p, c), got in zip(pairs, obs[-1][2] if obs else []):
                exp = c in run_idx and p in last_ok and run_idx[c] < last_ok[p]
                if exp and not got:
                    ctx.add_failure("oracle", "ran_concurrently-missed-overlap",
                                    "oracle:stamps:missed-overlap",
                                    f"ran_concurrently({p},{c}) is False although step {c} started before step {p} "
                                    f"stopped successfully: {evs}", witness={"events": evs, "producer": p, "consumer": c})
    finally:
        sched_mod.time = old_time
    ctx.count("stamp_histories", len(checks))
    for d in descr[:2]:
        ctx.sample({"stamps": d})
    bad = common.run_cases(ctx, "stamps", HEADER, checks, chunk=150)
    ctx.traces_validated += len(checks) - len(bad)
    for i in bad[:3]:
        ctx.add_failure("correspondence", "stamps", "corr:stamps:model-vs-scheduler",
                        f"Scheduler stamp bookkeeping and the generated model disagree on {descr[i]}",
                        witness=descr[i])


# ---------------------------------------------------------------------------------------------
# (1b) FileHash.refreshed / compute_inp_hashes on real files versus model/FreshStat.v
# ---------------------------------------------------------------------------------------------

STAT_HEADER = ("From Coq Require Import List NArith Bool.\nImport ListNotations.\n"
               "From SV Require Import model.FreshStatTypes gen.GenFreshStat model.FreshStat.\nOpen Scope N_scope.\n")

FS_OPS = ("inplace", "rename", "rename_keep", "chmod_keep", "same_newino", "touch", "delete", "create",
          "forge_inplace", "touch_back", "to_dir")


def refreshed_correspondence(ctx):
    """The real FileHash.refreshed and hash.compute_inp_hashes on a real file after a random history of
    file system operations (c03_driver.REPLACE_KINDS, deletion, re-creation and the two dishonest ones:
    same-size bytes written in place with the mtime restored, a touch back to the recorded mtime)
    versus FreshStat.refreshed / inp_entry on the abstraction (digest code, st_mode, mtime code,
    st_size, st_ino).  The record is the hash taken at some earlier moment of the history, the
    unknown hash, or a record whose stat fields were perturbed.  Also checked on the implementation
    alone: a difference in content, size or mode after an HONEST history must be reported."""
    import os
    import tempfile
    import threading

    from stepup.core.exceptions import ConsistencyError
    from stepup.core.hash import FileHash, compute_inp_hashes

    from .c03_driver import REPLACE_KINDS, replace_file
    rng = ctx.rng
    dcodes, mcodes = {b"u": 0}, {0.0: 0}

    def dcode(b):
        return dcodes.setdefault(bytes(b), len(dcodes))

    def mcode(x):
        return mcodes.setdefault(float(x), len(mcodes))

    def coq_fh(h):
        return f"(mkFH {dcode(h.digest)} {h.mode} {mcode(h.mtime)} {h.size} {h.inode})"

    checks, descr = [], []
    old_cwd = os.getcwd()
    with tempfile.TemporaryDirectory(prefix="verif-c03stat-") as tmp:
        os.chdir(tmp)
        try:
            for k in range(ctx.scale(150, 1500)):
                path = f"f{k}.txt"
                variant = [0]

                def fresh_bytes():
                    variant[0] += 1
                    return f"{path}:{variant[0]}:".encode() + b"x" * rng.choice([0, 0, 1, 3])

                with open(path, "wb") as fh:
                    fh.write(fresh_bytes())
                os.utime(path, ns=(10**18, 10**18 + k))
                record, honest, hist = None, True, []
                rec_stat = None
                seen = set()
                nops = rng.randint(0, 4)
                rec_at = rng.randint(0, nops)
                for i in range(nops + 1):
                    if i == rec_at:
                        if os.path.isdir(path):          # a record is taken from a file (or a missing path)
                            os.rmdir(path)
                            with open(path, "wb") as fh:
                                fh.write(fresh_bytes())
                        r = rng.random()
                        if r < 0.08:
                            record = FileHash.unknown()
                        else:
                            record = FileHash.unknown().refreshed(path)
                            if r < 0.2 and not record.is_unknown:    # a record with other stat fields
                                record = FileHash(record.digest, record.mode,
                                                  record.mtime + rng.choice([0.0, 1.0]), record.size,
                                                  record.inode + rng.choice([0, 1]))
                        rec_stat = os.stat(path) if os.path.exists(path) else None
                        honest = True
                        hist.append("RECORD")
                    if i == nops:
                        break
                    op = rng.choice(FS_OPS)
                    if os.path.isdir(path) and op != "to_dir":
                        os.rmdir(path)
                    exists = os.path.isfile(path)
                    if op == "to_dir":              # the path becomes a directory: refreshed raises HashFailedError
                        if exists:
                            os.remove(path)
                        if not os.path.isdir(path):
                            os.mkdir(path)
                    elif op == "delete":
                        if exists:
                            os.remove(path)
                    elif op == "create" or not exists:
                        op = "create"
                        with open(path + ".new~", "wb") as fh:
                            fh.write(fresh_bytes())
                        os.replace(path + ".new~", path)
                    elif op == "inplace":
                        with open(path, "wb") as fh:
                            fh.write(fresh_bytes())
                    elif op == "rename":
                        with open(path + ".new~", "wb") as fh:
                            fh.write(fresh_bytes())
                        os.replace(path + ".new~", path)
                    elif op == "forge_inplace":     # other bytes of the same size in place, mtime restored
                        st = os.stat(path)
                        data = open(path, "rb").read()
                        variant[0] += 1
                        head = f"Z{variant[0]:04d}".encode()
                        with open(path, "r+b") as fh:
                            fh.write((head + data[len(head):])[:len(data)])
                        os.utime(path, ns=(st.st_atime_ns, st.st_mtime_ns))
                        honest = False
                    elif op == "touch_back":        # utime back to the recorded mtime
                        if rec_stat is not None and i >= rec_at:
                            os.utime(path, ns=(rec_stat.st_atime_ns, rec_stat.st_mtime_ns))
                            honest = False
                        else:
                            op = "touch"
                            replace_file(path, variant[0] + 1, "touch")
                    else:
                        variant[0] += 1
                        replace_file(path, variant[0], op, seen)
                    hist.append(op)
                    # the recorded inode number given to another file (ext4 does that at once after
                    # an unlink / rename over): outside the world assumption, judged by observation
                    if i >= rec_at and rec_stat is not None and op in ("create", "rename", "rename_keep", "chmod_keep",
                                                                      "same_newino") \
                            and os.stat(path).st_ino == rec_stat.st_ino:
                        honest = False
                        hist[-1] = op + "(recorded-inode-reused)"
                # the implementation
                if os.path.isdir(path):
                    raised = False
                    try:
                        res = compute_inp_hashes({path: record}, threading.Event())
                        err, differs = False, path in res.new_hashes
                        msg = 0 if not res.messages else (1 if "vanished" in res.messages[0] else 2)
                    except ConsistencyError:
                        err, differs, msg = True, False, 0
                    except Exception:  # noqa: BLE001 -- HashFailedError leaves compute_inp_hashes (before 9b8c8cd)
                        raised, err, differs, msg = True, False, False, 0
                    checks.append(f"unreadable_case {coq_fh(record)} {coq_bool(raised)} {coq_bool(differs)} {msg} {coq_bool(err)}")
                    d = {"history": hist, "path_is_directory": True, "raised": raised, "reported": differs}
                    descr.append(d)
                    ctx.case(("refreshed", tuple(hist), "dir"), nontrivial=True)
                    ctx.count("refreshed:directory-" + ("raised" if raised else "reported" if differs else "not-reported"))
                    if not record.is_unknown and not differs:
                        ctx.add_failure("oracle", "refreshed-directory-not-reported",
                                        "oracle:refreshed:change-not-reported:after-to_dir",
                                        f"compute_inp_hashes did not report an input that was replaced by a directory "
                                        f"({'the exception left the function' if raised else 'no entry in new_hashes'}): {hist}",
                                        witness=d)
                    os.rmdir(path)
                    continue
                got = record.refreshed(path)
                try:
                    res = compute_inp_hashes({path: record}, threading.Event())
                    err = False
                    differs = path in res.new_hashes
                    msg = 0 if not res.messages else (1 if "vanished" in res.messages[0] else 2)
                except ConsistencyError:
                    err, differs, msg = True, False, 0
                # the abstraction of what is under the path, taken independently of the shortcut
                if os.path.isfile(path):
                    st = os.stat(path)
                    now = FileHash.unknown().refreshed(path)
                    disk = f"(Some (mkCF {dcode(now.digest)} {st.st_mode} {mcode(st.st_mtime)} {st.st_size} {st.st_ino}))"
                    truly = (now.digest, now.mode, now.size) != (record.digest, record.mode, record.size)
                else:
                    now, disk = None, "None"
                    truly = not record.is_unknown
                checks.append(f"refreshed_case {coq_fh(record)} {disk} {coq_fh(got)} {coq_bool(differs)} {msg} {coq_bool(err)}")
                d = {"history": hist, "honest_after_record": honest, "reported": differs, "really_differs": truly}
                descr.append(d)
                after = hist[hist.index("RECORD") + 1:]
                ctx.case(("refreshed", tuple(hist), differs), nontrivial=bool(after))
                ctx.count("refreshed:" + ("reported" if differs else "same-object" if got is record else "rehashed-equal"))
                perturbed = not record.is_unknown and rec_stat is not None and \
                    (record.mtime, record.inode) != (rec_stat.st_mtime, rec_stat.st_ino)
                if truly and not differs and honest and not perturbed and not err:
                    ctx.add_failure("oracle", "refreshed-missed-change",
                                    "oracle:refreshed:change-not-reported:after-" + (after[-1] if after else "nothing"),
                                    f"FileHash.refreshed / compute_inp_hashes did not report a file whose content, size or "
                                    f"mode differs from the record after the history {hist}", witness=d)
                if differs and not truly:
                    ctx.add_failure("oracle", "refreshed-false-change", "oracle:refreshed:unchanged-file-reported",
                                    f"compute_inp_hashes reported a file with the recorded content, size and mode: {hist}",
                                    witness=d)
        finally:
            os.chdir(old_cwd)
    ctx.count("refreshed_cases", len(checks))
    for d in descr[:2]:
        ctx.sample({"refreshed": d})
    bad = common.run_cases(ctx, "refreshed", STAT_HEADER, checks, chunk=400)
    ctx.traces_validated += len(checks) - len(bad)
    for i in bad[:3]:
        ctx.add_failure("correspondence", "refreshed", "corr:refreshed:model-vs-hash.py",
                        f"FileHash.refreshed / compute_inp_hashes and model/FreshStat.v disagree on {descr[i]}: {checks[i]}",
                        witness=descr[i])


# ---------------------------------------------------------------------------------------------
# (2) the consumer: generator, Coq printer
# ---------------------------------------------------------------------------------------------

KIND_WEIGHTS = [("conf", 5), ("built", 6), ("unconf", 2), ("unconf_absent", 1), ("missing", 1), ("planned", 3),
                ("outdated", 2), ("tree", 2), ("tree_absent", 1), ("undeclared", 2), ("det_static", 1),
                ("det_output", 1), ("volatile", 1)]


def gen_case(rng, big=False):
    nfile = rng.randint(4, 9 if big else 7)
    kinds = [k for k, w in KIND_WEIGHTS for _ in range(w)]
    files = {}
    for i in range(nfile):
        kind = rng.choice(kinds)
        name = f"tree/f{i + 1:02d}.txt" if kind.startswith("tree") else f"f{i + 1:02d}.txt"
        files[name] = kind
    # make sure there is something to depend on
    if not any(k in ("conf", "built") for k in files.values()):
        files["f00.txt"] = rng.choice(["conf", "built"])
    good = [p for p, k in files.items() if k in ("conf", "built")]
    initial = sorted(rng.sample(good, k=min(len(good), rng.randint(1, 3))))
    if rng.random() < 0.15:   # an initial input that is not available: c must not be dispatched
        bad = [p for p, k in files.items() if k in ("planned", "outdated", "unconf", "missing")]
        if bad:
            initial = sorted(set(initial + [rng.choice(bad)]))
    static_owner = {p: rng.choice(["plan", "q"]) if p not in initial or rng.random() < 0.25 else "plan"
                    for p, k in files.items() if k in ("conf", "unconf", "unconf_absent", "missing")}
    # a case aimed at validate_dynamic_job: c amends a static file declared by q, which is withdrawn
    # (or vanishes) once c holds a stored hash
    vfile = None
    if rng.random() < 0.35:
        vfile = "f90.txt"
        files[vfile] = "conf"
        static_owner[vfile] = "q"
    variant = [1]

    def nv():
        variant[0] += 1
        return variant[0]

    prod = [p for p, k in files.items() if k in ("built", "planned", "outdated")]
    statics = [p for p, k in files.items() if k in ("conf", "unconf", "unconf_absent", "missing", "det_static")]
    allp = sorted(files)

    def wr(p):
        """An external write: deletion, or new bytes in one of the ways a file system allows
        (c03_driver.REPLACE_KINDS); half of them in place, the others through rename(2), with or
        without preserved mtime / size / mode, and the two kinds that change nothing."""
        if rng.random() < 0.2:
            return ["write", p, 0]
        r = rng.random()
        how = "inplace" if r < 0.45 else "rename_keep" if r < 0.70 else \
            rng.choice(["rename", "chmod_keep", "same_newino", "touch"])
        return ["write", p, nv(), how]

    def env(n, inside):
        acts = []
        for _ in range(n):
            r = rng.random()
            if r < 0.25:
                acts.append(["tick", rng.choice([0, 1, 1, 2, 3])])
            elif r < 0.45 and prod:
                p = rng.choice(prod)
                acts.append(["produce", p, rng.random() < 0.8, nv()])
            elif r < 0.55 and prod:
                acts.append(["pstart", rng.choice(prod)])
            elif r < 0.65 and prod:
                acts.append(["pfinish", rng.choice(prod), rng.random() < 0.8, nv()])
            elif r < 0.75:
                p = rng.choice(allp)
                if files[p] != "volatile":
                    acts.append(wr(p))
            elif r < 0.85 and statics:
                acts.append(["confirm", rng.choice(statics)])
            elif r < 0.90:
                acts.append(["withdraw"])
            elif r < 0.96 and statics:
                acts.append(["redeclare", rng.choice(statics)])
            elif not inside:
                acts.append(["newphase"])
        return acts

    def again():
        """Actions that make a completed c dispatchable again (it then holds a stored hash)."""
        acts = []
        if rng.random() < 0.45:
            acts.append(["newphase"])
        r = rng.random()
        if r < 0.12:
            acts.append(["wout", 0 if rng.random() < 0.5 else nv()])
        elif r < 0.20 and prod:
            acts.append(["produce", rng.choice(prod), True, nv()])
        elif r < 0.28:
            p = rng.choice(allp)
            if files[p] != "volatile":
                acts.append(wr(p))
        elif r < 0.33:
            acts.append(["setenv", rng.choice(["e0", "e1", "e2"])])
        elif r < 0.36:
            acts.append(["delhash"])
        elif r < 0.50:
            acts.append(["withdraw"])            # amended inputs declared by q become detached
        elif r < 0.58 and statics:
            p = rng.choice(statics)              # a static (possibly amended) input vanishes and is re-checked
            acts += [["write", p, 0], ["confirm", p]]
        if rng.random() < 0.5:                   # producers that were left running finish
            acts += [["pfinish", p, True, nv()] for p in initial if files[p] in ("built", "planned", "outdated")]
        acts.append(rng.choice([["repend"], ["repend"], ["outcheck"]]))
        return acts

    runs = []
    for _ in range(rng.randint(1, 6 if big else 5)):
        during = []
        for _ in range(rng.randint(0, 5)):
            if rng.random() < 0.5:
                during.append(["amend", sorted(rng.sample(allp, k=rng.randint(1, min(3, len(allp)))))])
            else:
                during += env(1, True)
        before = env(rng.randint(0, 3), False)
        if runs and rng.random() < 0.7:
            # something that can make a deferred / failed c dispatchable again
            r = rng.random()
            if r < 0.4:
                before.append(["newphase"])
            elif r < 0.8 and prod:
                before.append(["produce", rng.choice(prod), True, nv()])
            elif statics:
                before.append(["confirm", rng.choice(statics)])
        if runs and rng.random() < 0.75:
            before += again()
        chk_during = []
        for _ in range(rng.choice([0, 0, 0, 1, 2])):
            r = rng.random()
            if r < 0.35:
                chk_during.append(["wout", 0 if rng.random() < 0.4 else nv()])
            elif r < 0.6:
                p = rng.choice(allp)
                if files[p] != "volatile":
                    chk_during.append(wr(p))
            else:
                chk_during += env(1, True)
        cancel = []
        if rng.random() < 0.08:
            cancel.append(rng.choice(["new_run", "out", "end"]))
        runs.append({"before": before, "during": during, "chk_during": chk_during, "cancel": cancel,
                     "rc": 0 if rng.random() < 0.9 else 1, "write_out": rng.random() < 0.93})
    if vfile is not None:
        while len(runs) < 3:
            runs.append({"before": [], "during": [], "chk_during": [], "cancel": [], "rc": 0, "write_out": True})
        first = [["amend", [vfile]]]
        if rng.random() < 0.4:
            first.append(["withdraw"])           # already detached when the command returns: not in the stored hash
        elif rng.random() < 0.3:
            first += [["write", vfile, 0], ["confirm", vfile]]
        if rng.random() < 0.6:
            runs[0]["during"] = first + [a for a in runs[0]["during"] if a[0] != "amend"]
            runs[0]["rc"], runs[0]["write_out"] = 0, True
        else:
            runs[0]["during"] = first + runs[0]["during"]
        gone = rng.choice([[["withdraw"]], [["write", vfile, 0], ["confirm", vfile]], []])
        runs[1]["before"] = runs[1]["before"] + gone + [["repend"]]
        runs[2]["before"] = runs[2]["before"] + rng.choice([[["repend"]], [["redeclare", vfile], ["confirm", vfile], ["repend"]],
                                                            [["write", vfile, nv()], ["redeclare", vfile], ["confirm", vfile]], []])
    return {"files": files, "initial": initial, "static_owner": static_owner, "cap": rng.randint(1, 3),
            "keep_going": rng.random() < 0.3, "explain": rng.random() < 0.6, "runs": runs}


def coq_frow(r):
    ex, st, h, det, hc, prod, tree = r
    return (f"(mkF {coq_bool(ex)} {st} {h} {coq_bool(det)} {coq_bool(hc)} "
            f"{coq_option(prod, str)} {coq_bool(tree)})")


def coq_pairs(l):
    return coq_list([f"({a}, {b})" for a, b in l])


def coq_shash(hi):
    return f"(mkSH {hi['env']} {coq_pairs(hi['inp'])} {coq_pairs(hi['out'])})"


def coq_obs(o):
    base = (f"(mkObs {o['state']} {coq_bool(o['deferred'])} {o['dc']} {coq_bool(o['draining'])} "
            f"{coq_smap(o['starts'])} {coq_smap(o['stops'])} {coq_list([str(x) for x in o['dyn']])})")
    return f"(mkXObs {base} {coq_bool(o['has_hash'])} {coq_option(o['hash'], coq_shash)})"


def coq_nlist(l):
    return coq_list([str(x) for x in l])


def coq_event(kind, payload, exp):
    if kind == "EWrite":
        e = f"EWrite {payload[0]} {payload[1]}"
    elif kind == "ERow":
        e = f"ERow {payload[0]} {coq_frow(payload[1])}"
    elif kind == "ECRow":
        e = f"ECRow {payload[0]} {coq_bool(payload[1])} {payload[2]}"
    elif kind == "EBk":
        e = f"EBk ({coq_bev(payload)})"
    elif kind == "EDrain":
        e = f"EDrain {coq_bool(payload)}"
    elif kind == "EAmend":
        e = f"EAmend {coq_nlist(payload)}"
    elif kind == "XEnvC":
        e = f"XEnvC {payload}"
    elif kind == "XHashDel":
        e = "XHashDel"
    elif kind == "XTry":
        e = f"XTry {payload[0]} {coq_bool(payload[1])}"
    elif kind == "XChk":
        e = f"XChk {payload[0]} {coq_bool(payload[1])}"
    elif kind == "XEnd":
        e = f"XEnd {payload[0]} {coq_bool(payload[1])} {coq_bool(payload[2])}"
    else:
        raise ValueError(kind)
    if not kind.startswith("X"):
        e = f"XE ({e})"
    if exp is None:
        return f"({e}, no)"
    if exp[0] == "XRTry":
        r = f"XRTry {exp[1]} {coq_bool(exp[2])}"
    elif exp[0] == "RAmend":
        r = f"XRBase (RAmend {coq_bool(exp[1])} {coq_nlist(exp[2])} {coq_nlist(exp[3])} {coq_bool(exp[4])})"
    elif exp[0] == "XRChk":
        r = f"XRChk {coq_bool(exp[1])}"
    elif exp[0] == "XREnd":
        r = "XREnd"
    else:
        raise ValueError(exp[0])
    return f"({e}, Some ({r}, {coq_obs(exp[-1])}))"


def coq_case(case):
    spec = case.spec
    init = [case.paths.index(p) + 1 for p in spec["initial"]]
    w0 = (f"(xworld0 {case.cid} {coq_nlist(init)} [{len(case.paths) + 1}] {spec['cap']} "
          f"{coq_bool(spec['keep_going'])} {case.env0})")
    tr = coq_list([coq_event(*t) for t in case.trace])
    return f"xcheck_trace {coq_nlist(case.keys)} {w0} {tr}"


# ---------------------------------------------------------------------------------------------
# (3) property oracle on the implementation alone
# ---------------------------------------------------------------------------------------------

S_PENDING, S_RUNNING, S_SUCCEEDED, S_FAILED = 21, 22, 23, 24
F_UNCONFIRMED, F_CONFIRMED, F_BUILT = 12, 14, 16


def codes_in_window(case, path, start, end):
    """Content codes `path` had on disk at any moment of [start, end] (event order)."""
    hist = case.contents.get(path, [])
    cur = 0
    seen = []
    for order, code in hist:
        if order <= start:
            cur = code
    seen.append(cur)
    for order, code in hist:
        if start < order <= end:
            seen.append(code)
    return seen


def last_how(case, path, lo, hi):
    """How the last external write of `path` with lo < order <= hi reached the file system
    (c03_driver.REPLACE_KINDS, `delete`), or `no-external-write`: part of the signature, so that a
    shortcut of FileHash.refreshed that is defeated by one kind of replacement is reported as such."""
    hows = [e.get("how", "inplace") for e in case.log
            if e["what"] == "external-write" and e.get("path") == path and lo < e["order"] <= hi]
    return hows[-1] if hows else "no-external-write"


def oracle_case(ctx, case, fails):
    spec = case.spec
    for r in case.runs:
        if not r.get("started"):
            if r.get("dispatched") and r.get("kind", 1) != 1:
                checking_oracle(case, r, fails)
            elif r.get("dispatched") and "new_run" in r.get("cancel", ()):
                # the hash computation of _new_run was cancelled: FAILED, hash gone, drain unless keep_going
                if r["state"] != S_FAILED or r["has_hash"] or (not r["draining"] and not spec["keep_going"]):
                    fails.append(("oracle:cancel:new-run:not-failed",
                                  f"cancelled input hashing but state={r['state']} has_hash={r['has_hash']} "
                                  f"draining={r['draining']}", r))
            elif r.get("dispatched"):
                # the pre-run check refused to start: must be FAILED and draining
                if r["state"] != S_FAILED or not r["draining"]:
                    fails.append((f"oracle:prerun-change:not-failed-and-draining",
                                  f"pre-run input check failed but state={r['state']} draining={r['draining']}", r))
            continue
        if "end" in r.get("cancel", ()) and (r["state"] == S_SUCCEEDED or r["has_hash"]):
            fails.append(("oracle:cancel:post-run:succeeded",
                          f"the post-run hash computation was cancelled but state={r['state']} has_hash={r['has_hash']}",
                          {k: v for k, v in r.items() if k != "amend_verdicts"}))
        if (r["state"] == S_SUCCEEDED) != bool(r["has_hash"]):
            fails.append(("oracle:hash-stored-iff-succeeded",
                          f"after the command: state={r['state']} has_hash={r['has_hash']}",
                          {k: v for k, v in r.items() if k != "amend_verdicts"}))
        state = r["state"]
        # --- amended inputs that the property calls unavailable or unfresh
        must_defer = False
        for v in r["amend_verdicts"]:
            if v["rejected"]:
                continue
            for p in v["paths"]:
                ex, st, h, det, hc, prod, tree = v["pre"][p]
                on_disk = v["pre_disk"][p] != 0
                if (not ex or det) and tree:
                    missing = not on_disk                     # adopted by the tree, confirmed on the spot
                elif not ex or det:
                    missing = True                            # nobody declares it
                elif st == F_UNCONFIRMED:
                    missing = not on_disk
                else:
                    missing = st not in (F_BUILT, F_CONFIRMED)
                unfresh = False
                if not missing and ex and not det and st == F_BUILT and prod is not None:
                    # did the producer stop successfully after c started (event order, own log)?
                    stops = [e["order"] for e in case.log if e["what"] == "producer-stop" and e["producer"] == prod and e["ok"]]
                    unfresh = bool(stops) and max(stops) > r["start"] and max(stops) < v["order"]
                if missing or unfresh:
                    must_defer = True
                    if v["carry_on"]:
                        fails.append(("oracle:amend:carry-on-with-unavailable-or-unfresh-input",
                                      f"amend({v['paths']}) answered carry_on=True although {p} was "
                                      f"{'missing/unavailable' if missing else 'rebuilt after the step started'}", v))
                    if missing and p not in [str(x) for x in v["unavailable"]]:
                        fails.append(("oracle:amend:unavailable-not-reported",
                                      f"amend: {p} (row {v['pre'][p]}) is unavailable but was not reported", v))
                    if unfresh and p not in [str(x) for x in v["unfresh"]]:
                        fails.append(("oracle:amend:unfresh-not-reported",
                                      f"amend: {p} was rebuilt by step {prod} after c started but is not reported unfresh", v))
        if must_defer and state == S_SUCCEEDED:
            fails.append(("oracle:succeeded-with-unavailable-or-unfresh-amended-input",
                          "the step ended SUCCEEDED although an amended input was unavailable or unfresh", r))
        if must_defer and state not in (S_PENDING, S_FAILED):
            fails.append(("oracle:deferred-step-in-wrong-state", f"state {state} after a defer request", r))
        # --- inputs recorded at the end versus what was on disk during the command
        changed_under = []
        for path, fstate, code, dyn in r["end_inputs"]:
            if path not in case.paths or fstate not in (F_BUILT, F_CONFIRMED):
                continue
            seen = codes_in_window(case, path, r["start"], r["end"])
            if seen[-1] != code:
                # the hash recorded when the command returns differs from the disk: must fail and drain
                # (unless the post-run hashing itself was cancelled by a shutdown: nothing was compared,
                # the step is not SUCCEEDED -- checked above -- and dispatch is stopping anyway)
                if "end" in r.get("cancel", ()):
                    continue
                if state != S_FAILED or not r["draining"]:
                    how = last_how(case, path, 0, r["end"])
                    fails.append((f"oracle:changed-input:not-failed-and-draining:last-write-{how}",
                                  f"{path}: disk at end {seen[-1]} differs from recorded {code} (last external write: "
                                  f"{how}) but state={state} draining={r['draining']}", r))
        # An amended input that had no recorded hash before the request (UNCONFIRMED, or adopted by a
        # static tree on the spot) is observed for the first time by the promoted hash job: nothing can
        # be known about the part of the window before that (ASSUMPTIONS[3]); its window starts there.
        first_seen = {}
        for v in r["amend_verdicts"]:
            if v["rejected"]:
                continue
            for p in v["paths"]:
                ex, st, h, det, hc, prod, tree = v["pre"][p]
                if p not in r["initial"] and p not in first_seen:
                    first_seen[p] = v["order"] if (st == F_UNCONFIRMED or ((not ex or det) and tree)) else r["start"]
        for path, fstate, code, dyn in r["final_inputs"]:
            if path not in case.paths or fstate not in (F_BUILT, F_CONFIRMED):
                continue
            seen = codes_in_window(case, path, first_seen.get(path, r["start"]), r["end"])
            if state == S_SUCCEEDED and any(c != code for c in seen):
                changed_under.append((path, dyn, seen, code))
        for path, dyn, seen, code in changed_under:
            why = [e for e in case.log if r["start"] < e["order"] <= r["end"] and e.get("path") == path]
            req = min([v["order"] for v in r["amend_verdicts"] if not v["rejected"] and path in v["paths"]], default=None)
            if dyn and path not in r["initial"] and req is not None and \
                    any(e["what"] in ("confirm", "producer-stop") and e["order"] > req for e in why):
                # the record of an AMENDED input was replaced after the request (declared inputs: D19)
                sig = SIG_AMENDED_RECORD
            elif any(e["what"] == "producer-stop" and e["ok"] for e in why):
                sig = SIG_RERUN
            elif any(e["what"] == "confirm" for e in why):
                sig = SIG_RECONF
            else:
                how = last_how(case, path, r["start"], r["end"])
                sig = SIG_OTHER + ("" if how in ("inplace", "no-external-write") else f":last-write-{how}")
            fails.append((sig, f"step c ended SUCCEEDED with input {path} ({'amended' if dyn else 'declared'}) recorded "
                               f"with content {code}, but during its command the file had contents {seen} "
                               f"(log: {[e['what'] for e in why]})",
                          {"run": {k: v for k, v in r.items() if k != 'amend_verdicts'}, "path": path}))
        # --- a command that started must have had all declared inputs available and unchanged
        # (checked through final_inputs of a SUCCEEDED run above and by the dispatch oracle below)


def checking_oracle(case, r, fails):
    """A job for a step that holds a stored hash (try_skip_job = kind 2, validate_dynamic_job = kind 3),
    judged from the driver's own observations: the digests are recomputed with hash.StepHash from
    files hashed afresh by the driver at the moments the job hashed them (inputs at dispatch, outputs
    at the end of the window), independent of executor.py and of the model."""
    from stepup.core.hash import StepHash
    chk, kind, state, tags = r["chk"], r["kind"], r["state"], r["tags"]
    stored = chk["stored"]
    ev = {"kind": kind, "state": state, "tags": tags, "cancel": r["cancel"], "inputs": chk["inputs"],
          "has_hash": r["has_hash"], "draining": r["draining"]}
    if "START" in tags:
        fails.append(("oracle:checking:command-started", f"a {'SKIP' if kind == 2 else 'VALIDATE_DYNAMIC'} job "
                      f"started the command (events {tags})", ev))
    avail = [(p, st, dyn) for p, st, dyn in chk["inputs"] if st in (F_BUILT, F_CONFIRMED)]
    all_available = len(avail) == len(chk["inputs"])
    changed = [p for p, st, dyn in avail if chk["inp_now"][p] != chk["inp_rec"][p]]
    new = StepHash.from_inp(chk["label"], {p: chk["inp_now"][p] for p, _, _ in avail}, chk["env_now"],
                            explained=False, shell=chk["shell"], env_overrides=chk["overrides"])
    inp_same = new.inp_digest == stored.inp_digest
    out_same = outs_exist = None
    if "out_now" in chk:
        out_same = new.with_out_hashes(chk["out_now"]).out_digest == stored.out_digest
        outs_exist = all(not fh.is_unknown for fh in chk["out_now"].values())
    ev.update({"changed": changed, "inp_same": inp_same, "out_same": out_same, "outs_exist": outs_exist})
    cancelled = "new_run" in r["cancel"] or ("out" in r["cancel"] and r["chk_started"])
    if state == S_SUCCEEDED:
        if kind == 3:
            fails.append(("oracle:validate:succeeded", "validate_dynamic_job left the step SUCCEEDED", ev))
            return
        if cancelled:
            fails.append(("oracle:cancel:checking:succeeded", "a cancelled hash computation left the step SUCCEEDED", ev))
        if not inp_same or changed or not all_available:
            hows = sorted({last_how(case, p, 0, chk["inp_order"]) for p in changed})
            fails.append(("oracle:skip:succeeded-with-input-differing-from-stored-hash"
                          + (":last-write-" + "+".join(hows) if hows and hows != ["inplace"] else ""),
                          f"the step was recorded SUCCEEDED by a skip although its inputs on disk (changed vs record: "
                          f"{changed}, last written by {hows}, all available: {all_available}) do not have the stored "
                          f"input digest", ev))
        if out_same is not True or not outs_exist:
            fails.append(("oracle:skip:succeeded-with-output-differing-from-stored-hash",
                          f"the step was recorded SUCCEEDED by a skip although its outputs on disk do not have the "
                          f"stored output digest (out_same={out_same}, outs_exist={outs_exist})", ev))
        if not r["has_hash"]:
            fails.append(("oracle:skip:succeeded-without-hash", "SUCCEEDED by a skip but no stored hash", ev))
        # at the moment the skip is recorded: is the record of every input still the one that was hashed?
        end = {p: (st, code) for p, st, code, dyn in r["final_inputs"]}
        moved = [p for p, st, dyn in chk["inputs"]
                 if end.get(p, (None, None))[0] not in (F_BUILT, F_CONFIRMED) or end[p][1] != case.code(chk["inp_rec"][p])]
        if moved:
            ev["re_recorded"] = moved
            fails.append((SIG_SKIP_WINDOW,
                          f"the step was recorded SUCCEEDED by a skip although the record of its input(s) {moved} was "
                          f"replaced (or withdrawn) while it was being checked: the stored hash describes the old "
                          f"content, the database and the disk the new one; nothing runs the step again", ev))
        return
    if cancelled:
        if state != S_FAILED or r["has_hash"]:
            fails.append(("oracle:cancel:checking:not-failed", f"cancelled hash computation: state={state} "
                          f"has_hash={r['has_hash']}", ev))
        return
    if changed:
        if state != S_FAILED or not r["draining"] or r["has_hash"]:
            fails.append(("oracle:checking:changed-input:not-failed-and-draining",
                          f"inputs {changed} differ from their record but state={state} draining={r['draining']}", ev))
        return
    if not inp_same or (kind == 2 and out_same is False):
        if state != S_PENDING or r["has_hash"] or r["n_dyn"] != 0 or r["deferred"]:
            fails.append(("oracle:checking:digest-mismatch-not-reset",
                          f"a digest differs from the stored one but the step was not reset to PENDING without hash "
                          f"and amended inputs: state={state} has_hash={r['has_hash']} n_dyn={r['n_dyn']}", ev))


def dispatch_oracle(ctx, case, fails):
    """Every run that started: the declared inputs were attached BUILT/CONFIRMED with the on-disk
    content at that moment (from the trace: the last ERow / EWrite before the ETry)."""
    rows, disk = {}, {}
    started = [r for r in case.runs if r.get("started")]
    nstarted = 0
    for kind, payload, exp in case.trace:
        if kind == "ERow":
            rows[payload[0]] = payload[1]
        elif kind == "EWrite":
            disk[payload[0]] = payload[1]
        elif kind == "XTry" and exp[1] == 1 and exp[2]:
            r = started[nstarted] if nstarted < len(started) else None
            nstarted += 1
            for p in case.spec["initial"]:
                i = case.paths.index(p) + 1
                ex, st, h, det, hc, prod, tree = rows[i]
                if det or st not in (F_BUILT, F_CONFIRMED) or disk.get(i, 0) != h:
                    how = last_how(case, p, 0, r["start"]) if r is not None and disk.get(i, 0) != h else None
                    fails.append(("oracle:started-with-unavailable-or-changed-input"
                                  + (f":last-write-{how}" if how not in (None, "inplace") else ""),
                                  f"command started although declared input {p} had row {rows[i]} and disk {disk.get(i, 0)}"
                                  + (f" (last written: {how})" if how else ""), {"path": p}))


def run_consumer_cases(ctx, n, big=False, specs=None, cases_out=None):
    from .c03_driver import run_case
    rng = ctx.rng
    checks, descr, fails_all = [], [], []
    for k in range(n):
        spec = specs[k] if specs is not None else gen_case(rng, big)
        try:
            case = asyncio.run(asyncio.wait_for(run_case(spec), 120))
        except Exception as e:  # noqa: BLE001 -- an internal error of the implementation is a finding candidate
            import traceback
            tb = traceback.format_exc()
            kind = type(e).__name__
            where = [ln for ln in tb.splitlines() if "/stepup/core/" in ln]
            sig = f"oracle:internal-error:{kind}:{where[-1].split(',')[0].split('/')[-1].strip(chr(34)) if where else 'harness'}"
            ctx.add_failure("oracle", "internal-error", sig, f"{kind}: {e}\n{common.tail(tb, 1200)}", witness={"spec": spec})
            continue
        nontriv = any(r.get("started") and (r["amend_verdicts"] or True) for r in case.runs) and \
            any(len(s["during"]) > 0 for s in spec["runs"])
        ctx.case(("consumer", json.dumps(spec, sort_keys=True)), nontrivial=nontriv)
        for r in case.runs:
            k = r.get("kind", 1)
            ctx.count("run:" + ("not-dispatched" if not r.get("dispatched") else
                                f"{ {1: 'execute', 2: 'try_skip', 3: 'validate'}[k] }-" +
                                ("refused-at-start" if k == 1 and not r.get("started") else f"ended-{r['state']}") +
                                ("-cancelled" if r.get("cancel") else "")))
            for v in r.get("amend_verdicts", []):
                ctx.count("amend:" + ("rejected" if v["rejected"] else "carry_on" if v["carry_on"] else "defer"))
        checks.append(coq_case(case))
        descr.append(spec)
        if cases_out is not None:
            cases_out.append(case)
        fails = []
        oracle_case(ctx, case, fails)
        dispatch_oracle(ctx, case, fails)
        for sig, detail, wit in fails:
            fails_all.append((sig, detail, {"spec": spec, "evidence": json.loads(json.dumps(wit, default=str))}))
    return checks, descr, fails_all


def _guarded(ctx, name, fn):
    """One family must not take the others down (a stale or missing gen file after a translator
    failure breaks only the Coq evaluation of that family)."""
    try:
        fn(ctx)
    except Exception as e:  # noqa: BLE001
        import traceback
        ctx.add_failure("correspondence", name + "-crash", f"correspondence-crash:{name}:{type(e).__name__}",
                        f"{name} crashed: {type(e).__name__}: {e}\n" + common.tail(traceback.format_exc(), 1200))


def correspondence(ctx):
    _guarded(ctx, "stamps", stamps_correspondence)
    _guarded(ctx, "refreshed", refreshed_correspondence)
    n = ctx.scale(160, 1200)
    checks, descr, fails = run_consumer_cases(ctx, n, big=ctx.thorough())
    ctx.oracle_fails = fails
    ctx.count("consumer_cases", len(checks))
    for d in descr[:2]:
        ctx.sample({"consumer-spec": d})
    bad = common.run_cases(ctx, "consumer", HEADER, checks, chunk=40)
    ctx.traces_validated += len(checks) - len(bad)
    for i in bad[:3]:
        ctx.add_failure("correspondence", "consumer", "corr:consumer:model-vs-implementation",
                        "model/Fresh.v and the implementation disagree on a consumer trace "
                        f"(first run_cases index {i})", witness={"spec": descr[i]})


# ---------------------------------------------------------------------------------------------
# oracle phase: report what the consumer cases showed + fixed witnesses + system-level replay
# ---------------------------------------------------------------------------------------------

WITNESS_RERUN = {
    "files": {"f01.txt": "conf", "f02.txt": "built"},
    "initial": ["f01.txt", "f02.txt"], "static_owner": {}, "cap": 2, "keep_going": False,
    "runs": [{"before": [["tick", 1]],
              "during": [["pstart", "f02.txt"], ["tick", 2], ["pfinish", "f02.txt", True, 7]],
              "rc": 0, "write_out": True}],
}
WITNESS_RECONF = {
    "files": {"f01.txt": "conf", "f02.txt": "built"},
    "initial": ["f01.txt", "f02.txt"], "static_owner": {"f01.txt": "q"}, "cap": 2, "keep_going": False,
    "runs": [{"before": [["tick", 1]],
              "during": [["write", "f01.txt", 9], ["withdraw"], ["redeclare", "f01.txt"], ["confirm", "f01.txt"]],
              "rc": 0, "write_out": True}],
}
WITNESS_RERUN_AMENDED = {
    "files": {"f01.txt": "conf", "f02.txt": "built"},
    "initial": ["f01.txt"], "static_owner": {}, "cap": 2, "keep_going": False,
    "runs": [{"before": [["tick", 1]],
              "during": [["amend", ["f02.txt"]], ["pstart", "f02.txt"], ["tick", 2], ["pfinish", "f02.txt", True, 7]],
              "rc": 0, "write_out": True}],
}
# finding C03-amended-record: c amends the static file f01.txt (accepted), the file is edited and its new
# hash recorded by another actor while the command of c still runs (props/C03.v
# C03_amended_record_full_refuted_by_reconfirmation)
WITNESS_AMENDED_RECORD = {
    "files": {"f01.txt": "conf", "f02.txt": "built"},
    "initial": ["f02.txt"], "static_owner": {}, "cap": 2, "keep_going": False,
    "runs": [{"before": [["tick", 1]],
              "during": [["amend", ["f01.txt"]], ["write", "f01.txt", 9], ["confirm", "f01.txt"]],
              "rc": 0, "write_out": True}],
}
WITNESS_CHANGED = {
    "files": {"f01.txt": "conf", "f02.txt": "built"},
    "initial": ["f01.txt", "f02.txt"], "static_owner": {}, "cap": 2, "keep_going": True,
    "runs": [{"before": [], "during": [["write", "f01.txt", 5]], "rc": 0, "write_out": True}],
}
WITNESS_UNFRESH = {
    "files": {"f01.txt": "conf", "f02.txt": "built", "f03.txt": "planned"},
    "initial": ["f01.txt"], "static_owner": {}, "cap": 1, "keep_going": False,
    "runs": [{"before": [], "during": [["tick", 0], ["produce", "f02.txt", True, 4], ["amend", ["f02.txt"]]],
              "rc": 0, "write_out": True},
             {"before": [], "during": [["amend", ["f03.txt"]]], "rc": 0, "write_out": True}],
}


_IDLE = {"before": [], "during": [], "chk_during": [], "cancel": [], "rc": 0, "write_out": True}
# c amends the static file f02.txt; while the command runs the file vanishes and is recorded MISSING
# (another step's failed pre-run check does this in a real build, see c03_sys.validate_loop_system);
# c SUCCEEDS with a hash that does not list f02.txt but keeps the edge.  In the next build the output
# was deleted: c is PENDING with its hash, gets a VALIDATE_DYNAMIC job, "digest unchanged" -> PENDING,
# and is dispatched again with the same job (runs 2, 3, 4).
WITNESS_VALIDATE_LOOP = {
    "files": {"f01.txt": "conf", "f02.txt": "conf"}, "initial": ["f01.txt"], "static_owner": {}, "cap": 2,
    "keep_going": False, "explain": True,
    "runs": [dict(_IDLE, during=[["amend", ["f02.txt"]], ["write", "f02.txt", 0], ["confirm", "f02.txt"]]),
             dict(_IDLE, before=[["newphase"], ["wout", 0], ["outcheck"]]), dict(_IDLE), dict(_IDLE)],
}
# try_skip_job: run once, made pending again with nothing changed -> skipped; output rewritten while
# it is being checked -> not skipped; input rewritten -> FAILED and draining
WITNESS_SKIP = {
    "files": {"f01.txt": "conf", "f02.txt": "built"}, "initial": ["f01.txt", "f02.txt"], "static_owner": {}, "cap": 2,
    "keep_going": True, "explain": False,
    "runs": [dict(_IDLE), dict(_IDLE, before=[["repend"]]),
             dict(_IDLE, before=[["repend"]], chk_during=[["wout", 77]]),
             dict(_IDLE), dict(_IDLE, before=[["write", "f01.txt", 78], ["repend"]])],
}


# the skip-path analogue of WITNESS_RERUN: the producer of f02.txt is executed again while
# try_skip_job hashes the outputs of c
WITNESS_SKIP_WINDOW = {
    "files": {"f01.txt": "conf", "f02.txt": "built"}, "initial": ["f01.txt", "f02.txt"], "static_owner": {}, "cap": 2,
    "keep_going": False, "explain": True,
    "runs": [dict(_IDLE), dict(_IDLE, before=[["repend"]],
                              chk_during=[["pstart", "f02.txt"], ["tick", 1], ["pfinish", "f02.txt", True, 7]]),
             dict(_IDLE)],
}


def skip_window_witness(ctx, fails):
    """Replays WITNESS_SKIP_WINDOW on the real Executor and the real serve() scenario."""
    from .c03_driver import run_case
    case = asyncio.run(asyncio.wait_for(run_case(WITNESS_SKIP_WINDOW), 120))
    ctx.case(("skip-window-witness",), nontrivial=True)
    fs = []
    oracle_case(ctx, case, fs)
    api = [f for f in fs if f[0] == SIG_SKIP_WINDOW]
    other = [f for f in fs if f[0] != SIG_SKIP_WINDOW]
    for sig, detail, wit in other:
        fails.append((sig, detail, {"spec": WITNESS_SKIP_WINDOW, "evidence": json.loads(json.dumps(wit, default=str))}))
    from .c03_sys import skip_window_system
    try:
        res = asyncio.run(asyncio.wait_for(skip_window_system(), 120))
    except asyncio.TimeoutError:
        res = {"note": "TIMEOUT (the interleaving did not occur)"}
    stale = res.get("rc2") == 0 and res.get("c_state2") == S_SUCCEEDED and res.get("o2") is not None \
        and res.get("f2") is not None and res["f2"] not in res["o2"]
    ctx.stats["skip_window"] = {"api_level_reproduced": bool(api), "serve_level_stale_output": bool(stale),
                                "serve": {k: res.get(k) for k in ("rc1", "rc2", "rc3", "f2", "o2", "o3", "c_state2")}}
    ctx.sample({"skip-window-system": res})
    if api or stale:
        ctx.notes.append("C03 open finding C03-skip-window: a step is recorded SUCCEEDED by a skip although the record of "
                         "an input was replaced while it was being checked (API level reproduced: "
                         f"{bool(api)}; real serve(): rc {res.get('rc2')}, f.txt={res.get('f2')!r}, o.txt={res.get('o2')!r}, "
                         f"next build re-runs nothing: o.txt={res.get('o3')!r}). See findings.d/C03-skip-window.json.")
    if stale:
        fails.append((SIG_SKIP_WINDOW,
                      f"real serve(): p was executed again and rewrote f.txt to {res.get('f2')!r} while c was being "
                      f"checked; c was then SKIPPED: build return code {res.get('rc2')}, c SUCCEEDED, o.txt = "
                      f"{res.get('o2')!r} (built from the old f.txt); the next build re-runs nothing (o.txt = {res.get('o3')!r}); "
                      f"events {res.get('events')}", {"spec": WITNESS_SKIP_WINDOW, "evidence": {"system": res}}))
    elif api:
        sig, detail, wit = api[0]
        fails.append((sig, detail, {"spec": WITNESS_SKIP_WINDOW, "evidence": json.loads(json.dumps(wit, default=str))}))


def validate_loop_witness(ctx, fails):
    """Regression of finding D36 (fixed by d760e3e): replays WITNESS_VALIDATE_LOOP on the real
    Scheduler/Executor and the two-build scenario on the real serve(); the same VALIDATE_DYNAMIC job
    must not be handed out again."""
    from .c03_driver import run_case
    case = asyncio.run(asyncio.wait_for(run_case(WITNESS_VALIDATE_LOOP), 120))
    rs = case.runs
    first_ok = rs[0].get("started") and rs[0]["state"] == S_SUCCEEDED
    validated = len(rs) > 1 and rs[1].get("kind") == 3 and rs[1]["state"] == S_PENDING and rs[1]["has_hash"]
    again = [r for r in rs[2:] if r.get("dispatched")]
    ctx.case(("validate-loop-witness",), nontrivial=True)
    ctx.stats["validate_loop_api"] = {"first_run_succeeded": bool(first_ok), "validated_unchanged": bool(validated),
                                      "deferred_after": bool(validated and rs[1]["deferred"]),
                                      "dispatched_again": len(again)}
    if not (first_ok and validated):
        fails.append(("oracle:validate:witness-shape", "WITNESS_VALIDATE_LOOP no longer reaches the 'digest unchanged' "
                      f"branch of validate_dynamic_job: runs {[(r.get('kind'), r.get('state')) for r in rs]}",
                      {"spec": WITNESS_VALIDATE_LOOP, "evidence": {}}))
    from .c03_sys import validate_loop_system
    try:
        res = asyncio.run(asyncio.wait_for(validate_loop_system(), 90))
    except asyncio.TimeoutError:
        res = {"build2": "TIMEOUT"}
    ctx.stats["validate_loop_system"] = {k: res.get(k) for k in ("build1_rc", "build2", "nvalidate")}
    ctx.sample({"validate-loop-system": res})
    if again or str(res.get("build2", "")).startswith(("LOOP", "TIMEOUT")):
        fails.append((SIG_VALIDATE_LOOP,
                      "regression of D36: validate_dynamic_job puts a step whose input digest is unchanged back to "
                      "PENDING without `deferred`; the scheduler hands out the same VALIDATE_DYNAMIC job again "
                      f"(API level: dispatched again {len(again)} time(s); real serve(): build 2 = {res.get('build2')})",
                      {"spec": WITNESS_VALIDATE_LOOP, "evidence": {"system": res}}))


def replace_kind_specs():
    """Directed histories for the decision "has this input changed since it was recorded"
    (FileHash.refreshed's shortcut, compute_inp_hashes, the pre-run check of _new_run, the post-run
    check of _compute_full_step_hash, the input check of try_skip_job): a declared input (static
    f01.txt / built f02.txt) is replaced in each of the ways of c03_driver.REPLACE_KINDS (a) while the
    command runs, (b) between its recording and the dispatch, (c) before the dispatch of a step that
    holds a stored hash."""
    from .c03_driver import REPLACE_KINDS
    out = []
    for how in REPLACE_KINDS:
        for path in ("f01.txt", "f02.txt"):
            base = {"files": {"f01.txt": "conf", "f02.txt": "built"}, "initial": ["f01.txt", "f02.txt"],
                    "static_owner": {}, "cap": 2, "keep_going": False, "explain": path == "f01.txt"}
            w = ["write", path, 7, how]
            out.append((how, "during-command", path, dict(base, runs=[dict(_IDLE, during=[["tick", 1], w])])))
            out.append((how, "before-dispatch", path, dict(base, runs=[dict(_IDLE, before=[w])])))
            out.append((how, "before-skip", path, dict(base, runs=[dict(_IDLE), dict(_IDLE, before=[w, ["repend"]])])))
    return out


def replace_kind_witnesses(ctx, fails):
    """Every replacement that changes content, size or mode must be noticed at the next check
    (FAILED + draining, no command started after it, no skip); one that changes neither (same bytes
    in a new inode, touch) is expected not to disturb the step (model: no event; a needless failure
    is only noted).  Signature = kind of replacement + phase."""
    from .c03_driver import REPLACE_KINDS
    items = replace_kind_specs()
    cases = []
    checks, descr, fs = run_consumer_cases(ctx, len(items), specs=[it[3] for it in items], cases_out=cases)
    fails += fs
    bad = common.run_cases(ctx, "replace", HEADER, checks, chunk=40)
    for i in bad[:3]:
        ctx.add_failure("correspondence", "consumer-replace", f"corr:consumer:model-vs-implementation:replace-{items[i][0]}",
                        f"model and implementation disagree on the directed history {items[i][:3]}",
                        witness={"spec": descr[i]})
    if len(cases) != len(items):
        return     # an internal error was reported by run_consumer_cases
    for (how, phase, path, spec), case in zip(items, cases):
        changes = REPLACE_KINDS[how]
        r = case.runs[-1]
        ctx.case(("replace", how, phase, path), nontrivial=True)
        ctx.count(f"replace:{how}:{phase}")
        noticed = r.get("state") == S_FAILED and r.get("draining") and not r.get("has_hash")
        if phase == "during-command":
            shape_ok = bool(r.get("started"))
            quiet = r.get("state") == S_SUCCEEDED and not r.get("draining")
        elif phase == "before-dispatch":
            shape_ok = bool(r.get("dispatched")) and r.get("kind") == 1
            noticed = noticed and not r.get("started")
            quiet = bool(r.get("started")) and r.get("state") == S_SUCCEEDED and not r.get("draining")
        else:
            shape_ok = bool(r.get("dispatched")) and r.get("kind") == 2
            quiet = r.get("state") == S_SUCCEEDED and "SKIP" in r.get("tags", ()) and not r.get("draining")
        ev = {"how": how, "phase": phase, "path": path,
              "run": {k: v for k, v in r.items() if k not in ("amend_verdicts", "chk")}}
        if not shape_ok:
            fails.append((f"oracle:replace:{how}:{phase}:witness-shape", f"directed history {how}/{phase}/{path} did not "
                          f"reach the intended check: {ev['run']}", {"spec": spec, "evidence": ev}))
        elif changes and not noticed:
            fails.append((f"oracle:replace:{how}:{phase}:not-noticed",
                          f"{path} was replaced ({how}: other content, size or mode) {phase.replace('-', ' ')} but the step "
                          f"did not end FAILED with the scheduler draining: state={r.get('state')} started={r.get('started')} "
                          f"draining={r.get('draining')} has_hash={r.get('has_hash')}", {"spec": spec, "evidence": ev}))
        elif not changes and not quiet:
            # a needless failure is not forbidden by the property text: a note, not a violation (the
            # correspondence above reports it as a disagreement with the model)
            ctx.notes.append(f"C03 replace/{how}/{phase}/{path}: same content, but the step did not succeed undisturbed: "
                             f"state={r.get('state')} draining={r.get('draining')}")


def report(ctx, fails):
    seen = set()
    for sig, detail, wit in fails:
        if sig in seen:
            continue
        seen.add(sig)
        ctx.add_failure("oracle", sig.split(":")[1], sig, detail, witness=wit)


def fixed_witnesses(ctx):
    """Replay of the Coq witnesses (props/C03.v *_refuted) and of basic expectations."""
    specs = [WITNESS_RERUN, WITNESS_RECONF, WITNESS_RERUN_AMENDED, WITNESS_CHANGED, WITNESS_UNFRESH,
             WITNESS_VALIDATE_LOOP, WITNESS_SKIP, WITNESS_AMENDED_RECORD]
    checks, descr, fails = run_consumer_cases(ctx, len(specs), specs=specs)
    bad = common.run_cases(ctx, "witness", HEADER, checks, chunk=40)
    for i in bad:
        ctx.add_failure("correspondence", "consumer-witness", "corr:consumer:model-vs-implementation",
                        "model and implementation disagree on a fixed witness", witness={"spec": descr[i]})
    # regressions of D19 (fixed by a02f82b): the consumer must be sent back to PENDING, not deferred
    from .c03_driver import run_case
    for spec, sig in ((WITNESS_RERUN, SIG_RERUN), (WITNESS_RECONF, SIG_RECONF), (WITNESS_RERUN_AMENDED, SIG_RERUN)):
        case = asyncio.run(asyncio.wait_for(run_case(spec), 120))
        r = case.runs[0]
        ctx.case(("regression", sig), nontrivial=True)
        if not r.get("started") or r["state"] != S_PENDING or r["deferred"] or r["draining"]:
            fails.append((sig, f"regression of D19: after the input was re-recorded during the command the consumer "
                               f"must end PENDING (not deferred, no drain); observed state={r.get('state')} "
                               f"deferred={r.get('deferred')} draining={r.get('draining')}",
                          {"spec": spec, "evidence": {k: v for k, v in r.items() if k not in ("amend_verdicts",)}}))
    # the CHECKING path on a fixed history: skipped, not skipped (output rewritten in the window), FAILED
    case = asyncio.run(asyncio.wait_for(run_case(WITNESS_SKIP), 120))
    got = [(r.get("kind"), r.get("state"), bool(r.get("has_hash"))) for r in case.runs]
    want = [(1, S_SUCCEEDED, True), (2, S_SUCCEEDED, True), (2, S_PENDING, False), (1, S_SUCCEEDED, True),
            (2, S_FAILED, False)]
    ctx.case(("skip-witness",), nontrivial=True)
    if got != want:
        fails.append(("oracle:skip:fixed-witness", f"WITNESS_SKIP: expected (kind, state, has_hash) {want}, observed {got}",
                      {"spec": WITNESS_SKIP, "evidence": {"runs": got}}))
    validate_loop_witness(ctx, fails)
    skip_window_witness(ctx, fails)
    replace_kind_witnesses(ctx, fails)
    return fails


def oracle(ctx):
    fails = list(getattr(ctx, "oracle_fails", []))
    fails += fixed_witnesses(ctx)
    from .c03_sys import system_witness
    fails += system_witness(ctx)
    from .c03_e3 import run_e3
    fails += run_e3(ctx)
    from .c03_repl import amended_record_system, replace_system, unreadable_input_system
    fails += replace_system(ctx)
    fails += unreadable_input_system(ctx)
    fails += amended_record_system(ctx)
    ctx.count("oracle_failures", len(fails))
    report(ctx, fails)


def search(ctx):
    _guarded(ctx, "refreshed", refreshed_correspondence)      # fresh draws of the file-system histories
    # only reached when an obligation or the translator broke and nothing above gave a witness; the
    # quick tier must stay cheap under load (20 checks share the machine): 400 cases, not 1500
    checks, descr, fails = run_consumer_cases(ctx, ctx.scale(400, 1500), big=True)
    report(ctx, fails)
    bad = common.run_cases(ctx, "search", HEADER, checks, chunk=40)
    for i in bad[:3]:
        ctx.add_failure("correspondence", "consumer", "corr:consumer:model-vs-implementation",
                        "model/Fresh.v and the implementation disagree on a consumer trace", witness={"spec": descr[i]})


def replay(ctx, obj):
    w = obj["failure"].get("witness") or {}
    print("replaying", json.dumps(w)[:400])
    if "spec" in w:
        checks, descr, fails = run_consumer_cases(ctx, 1, specs=[w["spec"]])
        report(ctx, fails)
        bad = common.run_cases(ctx, "replay", HEADER, checks, chunk=40)
        for i in bad:
            ctx.add_failure("correspondence", "consumer", "corr:consumer:model-vs-implementation",
                            "model and implementation disagree on the replayed trace", witness={"spec": descr[i]})
    elif "events" in w:
        stamps_correspondence(ctx)
    else:
        oracle(ctx)
