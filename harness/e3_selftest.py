"""Smoke test of the E3 engine: ``python -m harness.e3 --selftest`` (or ``-m harness.e3_selftest``).

1. Four of the repo's own examples are re-expressed in the E3 DSL; the canonical graph must equal
   the example's ``expected_graph*.txt`` under the same canonicalisation.
2. Probes D4 and D9 are reproduced through the public API (reported, never fatal: they are
   observations about the code under test, not about the engine).
3. Scheduling, crash emulation, watch mode, generator and pool are exercised once; builds/second
   is measured.
"""
from __future__ import annotations

import os
import sys
import tempfile
import time

from harness import e3

REPO = os.environ.get("VERIF_REPO", "/repo")
EXAMPLES = os.path.join(REPO, "tests", "examples")
PF = {"op": "amend", "env": ["STEPUP_PATH_FILTER"]}   # what the run.py wrapper amends for *.py


def _expected(name: str, fn: str) -> str:
    with open(os.path.join(EXAMPLES, name, fn)) as fh:
        return e3.canon_graph(fh.read(), digests=False)


class Checker:
    def __init__(self):
        self.failures = []
        self.notes = []

    def check(self, name: str, ok: bool, detail: str = ""):
        print(("ok   " if ok else "FAIL ") + name + ("" if ok else "  " + detail))
        if not ok:
            self.failures.append(name)

    def same_graph(self, name: str, res: e3.BuildResult, example: str, fn: str):
        got, want = res.graph_nodigest(), _expected(example, fn)
        detail = ""
        if got != want:
            import difflib

            detail = "\n" + "\n".join(difflib.unified_diff(
                want.splitlines(), got.splitlines(), "expected", "e3", lineterm="", n=1))
        self.check(name, got == want, detail)


def ex_static(c: Checker):
    p = e3.Project(sources={"original.txt": "x\n"}, program={"scripts": {"plan.py": [
        PF, {"op": "static", "paths": ["original.txt"]}]}, "commands": {}})
    r = e3.from_scratch(p)
    c.same_graph("example static: graph", r, "static", "expected_graph.txt")
    c.check("example static: rc 0", r.returncode == 0, str(r.returncode))


def ex_amend(c: Checker):
    p = e3.Project(
        sources={"inp1.txt": "word1\n"},
        program={"scripts": {
            "plan.py": [
                PF,
                {"op": "static", "paths": ["inp1.txt", "work.py"]},
                {"op": "run", "label": "./work.py", "inp": ["inp1.txt"], "out": ["out1.txt"]},
                {"op": "run", "label": "echo word2 > inp2.txt", "shell": True, "out": ["inp2.txt"]},
            ],
            "work.py": [
                PF,
                {"op": "amend", "inp": ["inp2.txt"], "out": ["out2.txt"]},
                {"op": "read", "paths": ["inp1.txt"]}, {"op": "write", "path": "out1.txt"},
                {"op": "read", "paths": ["inp2.txt"]}, {"op": "write", "path": "out2.txt"},
            ]},
            "commands": {"echo word2 > inp2.txt": [
                {"op": "write", "path": "inp2.txt", "content": "word2\n"}]}},
    )
    r = e3.from_scratch(p, explain=True)
    c.same_graph("example amend: graph", r, "amend", "expected_graph1.txt")
    c.check("example amend: deferred once then succeeded",
            [t for t, d in r.tags("DEFERRED", "SUCCESS") if d == "./work.py"] == ["DEFERRED", "SUCCESS"],
            str(r.tags()))
    c.check("example amend: files", r.files.get("inp2.txt") == "word2\n" and "out2.txt" in r.files)


def _optional_plan(mandatory: bool) -> list:
    def opt(label, inp, out):
        return {"op": "run", "label": label, "shell": True, "inp": inp, "out": [out],
                "optional": True}
    plan = [
        PF,
        opt("echo inp1 > foo1.txt", [], "foo1.txt"),
        opt("echo inp2 > foo2.txt", [], "foo2.txt"),
        opt("cat foo1.txt foo2.txt > bar.txt", ["foo1.txt", "foo2.txt"], "bar.txt"),
        opt("cat bar.txt > egg.txt", ["bar.txt"], "egg.txt"),
    ]
    if mandatory:
        plan.append({"op": "run", "label": "cat egg.txt > spam.txt", "shell": True,
                     "inp": ["egg.txt"], "out": ["spam.txt"]})
    return plan


def ex_optional_chain(c: Checker):
    p = e3.Project(program={"scripts": {"plan.py": _optional_plan(False)}, "commands": {}})
    history = [
        {"edits": [{"op": "script", "path": "plan.py", "actions": _optional_plan(True)}]},
        {"edits": [{"op": "script", "path": "plan.py", "actions": _optional_plan(False)}]},
    ]
    r1, r2, r3 = e3.run_history(p, history, explain=True)
    # expected_graph1.txt is the graph of the THIRD run of main.sh (it overwrites the first one).
    c.check("example optional_chain: nothing built in phase 1", sorted(r1.files) == ["plan.py"])
    c.same_graph("example optional_chain: graph2", r2, "optional_chain", "expected_graph2.txt")
    c.same_graph("example optional_chain: graph1 again", r3, "optional_chain", "expected_graph1.txt")
    c.check("example optional_chain: outputs cleaned", sorted(r3.files) == ["plan.py"], str(sorted(r3.files)))
    c.check("example optional_chain: outputs built in phase 2",
            sorted(r2.files) == ["bar.txt", "egg.txt", "foo1.txt", "foo2.txt", "plan.py", "spam.txt"])


def ex_restart_changes(c: Checker):
    def cp(src, dst):
        return {"op": "run", "label": f"cp {src} {dst}", "inp": [src], "out": [dst]}
    plan1 = [PF, {"op": "static", "paths": ["source_both.txt"]},
             cp("source_both.txt", "copy_both1.txt"), cp("source1.txt", "copy1.txt"),
             {"op": "static", "paths": ["source1.txt"]}]
    plan2 = [PF, {"op": "static", "paths": ["source_both.txt"]},
             cp("source_both.txt", "copy_both2.txt"),
             {"op": "static", "paths": ["source2.txt"]}, cp("source2.txt", "copy2.txt")]
    p = e3.Project(sources={"source_both.txt": "b\n", "source1.txt": "1\n", "source2.txt": "2\n"},
                   program={"scripts": {"plan.py": plan1}, "commands": {}})
    r1, r2 = e3.run_history(p, [{"edits": [{"op": "script", "path": "plan.py", "actions": plan2}]}],
                            explain=True)
    c.same_graph("example restart_changes: graph1", r1, "restart_changes", "expected_graph1.txt")
    c.same_graph("example restart_changes: graph2", r2, "restart_changes", "expected_graph2.txt")
    c.check("example restart_changes: old copies removed",
            "copy1.txt" not in r2.files and "copy_both1.txt" not in r2.files and "copy2.txt" in r2.files)
    s = e3.scratch_of_history(p, [{"edits": [{"op": "script", "path": "plan.py", "actions": plan2}]}],
                              explain=True)
    c.check("example restart_changes: incremental == from scratch", e3.diff_results(r2, s) == [],
            str(e3.diff_results(r2, s)))


def probe_d4(c: Checker):
    """Dropping static("x.txt") while keeping its consumer: incremental rc 0, from scratch rc 16."""
    v1 = [{"op": "static", "paths": ["x.txt"]},
          {"op": "step", "label": "cat", "inp": ["x.txt"], "out": ["y.txt"]}]
    v2 = [{"op": "step", "label": "cat", "inp": ["x.txt"], "out": ["y.txt"]}]
    p = e3.Project(sources={"x.txt": "data\n"}, program={"scripts": {"plan.py": v1}, "commands": {}})
    history = [{"edits": [{"op": "script", "path": "plan.py", "actions": v2}]}]
    inc = e3.run_history(p, history)[-1]
    scr = e3.scratch_of_history(p, history)
    d = e3.diff_results(inc, scr)
    print(f"     D4: incremental rc={inc.returncode} from-scratch rc={scr.returncode} "
          f"differences={[x['field'] + ':' + x['key'] for x in d]}")
    c.notes.append(("D4", inc.returncode, scr.returncode))
    c.check("probe D4 runs through the API (rc pair is 0/16 on the unchanged tree, or equal if fixed)",
            (inc.returncode, scr.returncode) == (0, 16) or d == [], str((inc.returncode, scr.returncode)))


def probe_d9(c: Checker):
    """Redefining a step with fewer env deps keeps the stale env_var row."""
    def plan(env):
        return [{"op": "step", "label": "S", "env": env, "out": ["s.txt"]}]
    p = e3.Project(program={"scripts": {"plan.py": plan(["VA", "VB"])}, "commands": {}},
                   env={"VA": "1", "VB": "2"})
    history = [{"edits": [{"op": "script", "path": "plan.py", "actions": plan(["VA"])}]}]
    inc = e3.run_history(p, history)[-1]
    scr = e3.scratch_of_history(p, history)
    env_inc = inc.nodes()["step:S"]["props"].get("using_env")
    env_scr = scr.nodes()["step:S"]["props"].get("using_env")
    print(f"     D9: incremental using_env={env_inc} from-scratch using_env={env_scr}")
    c.notes.append(("D9", env_inc, env_scr))
    c.check("probe D9 runs through the API", env_scr == ["VA"] and env_inc in (["VA"], ["VA", "VB"]),
            str((env_inc, env_scr)))


def probe_d6(c: Checker):
    """Kill between the delete_detached commit and the file removal: the orphan stays."""
    v1 = [{"op": "step", "label": "mk a", "out": ["a.txt"]}]
    p = e3.Project(program={"scripts": {"plan.py": v1}, "commands": {}})
    with tempfile.TemporaryDirectory(prefix="e3-") as tmp:
        p.materialise(tmp)
        e3.build(tmp, p.program)
        e3.apply_edit(p, tmp, {"op": "script", "path": "plan.py", "actions": []})
        out = e3.build_forked(tmp, p.program, crash={"kind": "commit", "site": "Builder.finalize", "when": "after"})
        again = e3.build(tmp, p.program)
        again2 = e3.build(tmp, p.program)
    print(f"     D6: crashed={out.crashed} at {out.crash_info}; after two restarts a.txt on disk: "
          f"{'a.txt' in again2.files}, graph knows it: {'file:a.txt' in again2.nodes()}, rc={again.returncode}")
    c.notes.append(("D6", "a.txt" in again2.files))
    c.check("probe D6: crash addressed by site is hit", out.crashed and out.crash_info["site"] == "Builder.finalize")


def check_schedule(c: Checker):
    plan = [{"op": "step", "label": f"s{i}", "out": [f"o{i}.txt"]} for i in range(4)]
    p = e3.Project(program={"scripts": {"plan.py": plan}, "commands": {}})
    orders = set()
    for seed in range(6):
        r = e3.from_scratch(p, njob=4, schedule={"seed": seed})
        order = tuple(d for t, d in r.tags("SUCCESS") if d != "./plan.py")
        orders.add(order)
        c.check(f"schedule seed {seed}: rc 0, 4 concurrent", r.returncode == 0 and r.max_running == 4,
                f"rc={r.returncode} max_running={r.max_running}")
    c.check("schedule: seeds give several completion orders", len(orders) >= 3, str(orders))
    # njob=5: the plan step itself still occupies a slot (it waits at its own end gate).
    r = e3.from_scratch(p, njob=5, schedule={"order": ["end:s3", "end:s1", "end:s0", "end:s2"]})
    c.check("schedule: explicit order is obeyed",
            [d for t, d in r.tags("SUCCESS") if d != "./plan.py"] == ["s3", "s1", "s0", "s2"], str(r.tags("SUCCESS")))
    r = e3.from_scratch(p, njob=4, resources="tok:1", schedule={"seed": 1})
    c.check("schedule: no resources requested -> still parallel", r.max_running == 4)


def check_crash(c: Checker):
    v1 = [{"op": "step", "label": "mk a", "out": ["a.txt"]},
          {"op": "step", "label": "mk b", "inp": ["a.txt"], "out": ["b.txt"]}]
    p = e3.Project(program={"scripts": {"plan.py": v1}, "commands": {}})
    ref = e3.from_scratch(p)
    ncommit, nstage = len(ref.commit_points), len(ref.stage_points)
    c.check("crash: a full run reports commit and stage points", ncommit > 10 and nstage == 2,
            f"{ncommit} {nstage}")
    bad = 0
    points = [{"kind": "commit", "k": k, "when": w} for k in range(1, ncommit + 1, 3) for w in ("before", "after")]
    points += [{"kind": "stage", "k": k} for k in range(1, nstage + 1)]
    for point in points:
        with tempfile.TemporaryDirectory(prefix="e3-") as tmp:
            p.materialise(tmp)
            out = e3.build_forked(tmp, p.program, crash=point)
            if not out.crashed:
                bad += 1
                continue
            again = e3.build(tmp, p.program)
            d = e3.diff_results(again, ref)
            if d:
                # An observation about the code under test, not about the engine.
                c.notes.append(("crash", out.crash_info, again.error))
                print(f"     NOTE restart after {out.crash_info} differs from the reference: "
                      f"rc={again.returncode} error={again.error} fields={sorted({x['field'] for x in d})}")
    c.check(f"crash: all {len(points)} requested crash points were hit", bad == 0)
    with tempfile.TemporaryDirectory(prefix="e3-") as tmp:
        p.materialise(tmp)
        out = e3.build_forked(tmp, p.program, crash={"kind": "commit", "k": 10 ** 6})
        c.check("crash: k beyond the last point -> child completes",
                not out.crashed and out.result is not None and out.result.returncode == 0)


def check_watch(c: Checker):
    plan = [{"op": "static", "paths": ["x.txt"]},
            {"op": "step", "label": "mk y", "inp": ["x.txt"], "out": ["y.txt"]}]
    p = e3.Project(sources={"x.txt": "1"}, program={"scripts": {"plan.py": plan}, "commands": {}})
    history = [{"edits": [{"op": "write", "path": "x.txt", "content": "2"}]},
               {"edits": [{"op": "write", "path": "unrelated.txt", "content": "u"}]},
               {"edits": [{"op": "delete", "path": "x.txt"}]},
               {"edits": [{"op": "write", "path": "x.txt", "content": "3"}]}]
    w = e3.run_history(p, history, mode="watch")
    r = e3.run_history(p, history, mode="restart")
    for i, (a, b) in enumerate(zip(w, r, strict=True)):
        d = e3.diff_results(a, b)
        c.check(f"watch: phase {i} equals restart", d == [], str(d))
    c.check("watch: edit reruns the consumer", w[1].executed() == ["mk y"], str(w[1].executed()))
    c.check("watch: unrelated file -> nothing runs", w[2].executed() == [], str(w[2].executed()))


def check_generator(c: Checker, n: int) -> float:
    from harness import e3_gen

    stats = e3_gen.Stats()
    t0 = time.perf_counter()
    nbuild = 0
    bad = 0
    for seed in range(n):
        project, history = e3_gen.gen_case(seed, stats)
        results = e3.run_history(project, history)
        nbuild += len(results)
        if any(r.error for r in results):
            bad += 1
    dt = time.perf_counter() - t0
    c.check(f"generator: {n} histories, no serve() exception", bad == 0)
    print(f"     {nbuild} builds in {dt:.2f} s = {nbuild / dt:.1f} builds/s (one process)")
    print("     " + stats.summary().replace("\n", "\n     "))
    return nbuild / dt


def _pool_item(seed: int):
    from harness import e3_gen

    project, history = e3_gen.gen_case(seed)
    results = e3.run_history(project, history)
    return [r.returncode for r in results]


def check_pool(c: Checker):
    seeds = list(range(100, 124))
    t0 = time.perf_counter()
    par = e3.pool_map(_pool_item, seeds, nproc=4)
    dt = time.perf_counter() - t0
    seq = [_pool_item(s) for s in seeds[:6]]
    c.check("pool: results independent of sharding", par[:6] == seq, str((par[:6], seq)))
    n = sum(len(x) for x in par)
    print(f"     pool: {n} builds in {dt:.2f} s = {n / dt:.1f} builds/s (4 processes)")


def main(argv: list) -> int:
    t0 = time.perf_counter()
    c = Checker()
    quick = "--quick" in argv
    ex_static(c)
    ex_amend(c)
    ex_optional_chain(c)
    ex_restart_changes(c)
    probe_d4(c)
    probe_d9(c)
    probe_d6(c)
    check_schedule(c)
    check_crash(c)
    check_watch(c)
    check_generator(c, 20 if quick else 60)
    check_pool(c)
    e3.uninstall()
    import stepup.core.executor as ex
    import stepup.core.run as run

    c.check("uninstall restores launch_command", ex.launch_command is run.launch_command)
    print(f"selftest: {len(c.failures)} failure(s) in {time.perf_counter() - t0:.1f} s")
    return 1 if c.failures else 0


if __name__ == "__main__":
    sys.exit(main(sys.argv[1:]))
