"""C04, E3 level: the property itself on the real director (harness/e3.py).

For one generated project + history (harness/e3_gen.py), in restart or watch flavour:

* after EVERY build of the history that ends with return code 0:
    - rebuild with nothing changed and require: no command executed, every file (sources and
      outputs) has the same content, mtime and inode, the canonical graph text (digests included)
      is identical, the return code is 0 again;
    - the same after rewriting some source files with identical content (touch, delete +
      re-create): their re-hash results are unchanged.
* after the last build: edit a random subset of source files (content change, deletion, a new
  file that matches a registered pattern, same-content rewrite), rebuild under a random schedule,
  and require every executed command to belong to a step that consumes an edited file or owns a
  glob pattern that matches it, consumes an output of another executed step, or was created by an
  executed step (relations read from the canonical graph before and after the rebuild).

All functions are module level and deterministic for a given item, so they can run under
e3.pool_map and be replayed from the JSON witness.
"""
from __future__ import annotations

import copy
import os
import random
import re
import tempfile

from . import e3, e3_gen

OK_RC = 0


# ---------------------------------------------------------------------------------------------
# Graph helpers (canonical graph text of e3)
# ---------------------------------------------------------------------------------------------


def _strip(key: str) -> str:
    key = key.strip()
    if key.endswith("[dynamic]"):
        key = key[: -len("[dynamic]")].strip()
    if key.startswith("(") and key.endswith(")"):
        key = key[1:-1]
    return key


def graph_relations(graph_text: str) -> dict:
    """step label -> {"inputs": set(paths), "outputs": set(paths), "creator": label|None,
    "nglobs": [patterns], "detached": bool}"""
    steps = {}
    for raw_key, node in e3.parse_graph(graph_text).items():
        key = _strip(raw_key)
        if not key.startswith("step:"):
            continue
        rel = node["rel"]
        props = node["props"]
        info = {"inputs": set(), "outputs": set(), "creator": None,
                "nglobs": list(props.get("nglob", [])),
                "detached": raw_key.strip().startswith("("), "dyn_inputs": set(), "dyn_outputs": set(),
                # the DECLARED need ("DEFAULT (implied by sinks > OPTIONAL)": declared OPTIONAL, needed by a sink)
                "need": ((props.get("need") or ["?"])[0].rstrip(")").split() or ["?"])[-1],
                "state": (props.get("state") or ["?"])[0],
                "env": {v.replace("[dynamic]", "").strip() for v in props.get("using_env", [])},
                # the DECLARED (not amended) variables on record
                "env_decl": {v.strip() for v in props.get("using_env", []) if "[dynamic]" not in v}}
        for k0 in rel.get("source", []):
            k = _strip(k0)
            if k.startswith("file:"):
                info["inputs"].add(k[5:])
                if k0.strip().endswith("[dynamic]"):
                    info["dyn_inputs"].add(k[5:])
        for k0 in rel.get("sink", []):
            k = _strip(k0)
            if k.startswith("file:"):
                info["outputs"].add(k[5:])
                if k0.strip().endswith("[dynamic]"):
                    info["dyn_outputs"].add(k[5:])
        for k in rel.get("creator", []):
            k = _strip(k)
            if k.startswith("step:"):
                info["creator"] = k[5:]
        steps[key[5:]] = info
    return steps


def file_creators(graph_text: str) -> dict:
    """path -> label of the step that created (declared) the file node, for attached file nodes with a step creator"""
    out = {}
    for raw_key, node in e3.parse_graph(graph_text).items():
        key = _strip(raw_key)
        if not key.startswith("file:") or raw_key.strip().startswith("("):
            continue
        for k in node["rel"].get("creator", []):
            k = _strip(k)
            if k.startswith("step:"):
                out[key[5:]] = k[5:]
    return out


def parse_nglob_line(line: str) -> tuple[str, dict]:
    """``"pattern (name=sub name2=sub2)"`` as printed by Step.format_properties -> (pattern, subs)."""
    line = line.strip()
    if line.endswith(")") and " (" in line:
        pattern, _, rest = line.rpartition(" (")
        subs = {}
        for item in rest[:-1].split(" "):
            if "=" not in item:
                return line, {}
            name, _, sub = item.partition("=")
            subs[name] = sub
        return pattern, subs
    return line, {}


def _glob_matches(line: str, path: str) -> bool:
    from stepup.core.nglob import NamedGlob
    try:
        pattern, subs = parse_nglob_line(line)
        return NamedGlob(pattern, subs)._regex.fullmatch(path) is not None
    except Exception:  # noqa: BLE001  an unparsable pattern line matches conservatively
        return True


ENV_PREFIX = "env:"          # an edited tracked variable in the list of edited "paths"


def split_edited(edited: list) -> tuple[set, set]:
    """(edited paths, edited variable names)"""
    return ({p for p in edited if not p.startswith(ENV_PREFIX)},
            {p[len(ENV_PREFIX):] for p in edited if p.startswith(ENV_PREFIX)})


def _idle_optional(label: str, pre: dict) -> bool:
    a = pre.get(label)
    return a is not None and not a["detached"] and a["need"] == "OPTIONAL" and a["state"] == "PENDING"


def optional_upstream_shape(label: str, executed: list, pre: dict, post: dict, _depth: int = 0) -> list:
    """The circumstance of finding D38 (C04_full_refuted), and nothing else: `label` was an attached OPTIONAL step
    that the previous build left idle (PENDING), and an output of it is consumed after the rebuild by ANOTHER
    EXECUTED step that did not consume it before (new, or declared differently) - or that consumed it before but
    was itself such an idle optional step that becomes needed in this rebuild (a chain of optional steps: the
    implied need travels upstream from the newly declared consumer).  Returns those consumers."""
    if not _idle_optional(label, pre):
        return []
    outs = set(pre[label]["outputs"]) | set(post.get(label, pre[label])["outputs"])
    found = []
    for o in sorted(set(executed) - {label}):
        if o not in post or not post[o]["inputs"] & outs:
            continue
        if not (o in pre and not pre[o]["detached"] and pre[o]["inputs"] & outs):
            found.append(o)
        elif _depth < 8 and _idle_optional(o, pre) and optional_upstream_shape(o, executed, pre, post, _depth + 1):
            found.append(o)
    return found


INCOMPLETE_HASH_SIGNATURE = ("oracle:cone:recycled-step-of-a-rerun-plan:stored-hash-omits-an-input-rechecked-during-its-run:"
                             "executed-with-unchanged-inputs")
AMENDED_STATIC_SIGNATURE = ("oracle:cone:amended-static-input-redeclared-by-a-rerun-declarer:"
                            "validated-before-reconfirmed:executed-outside-cone")


def amended_static_redeclared(label: str, executed: list, pre: dict, creators: dict) -> list:
    """The circumstance of finding C04-amended-static-redeclared, and nothing else: `label` was attached, has AMENDED
    inputs, and one of them is a STATIC file (no step produces it) whose declarer - or a creator up its chain - is
    executed by the rebuild: the file is detached by the declarer's reset, declared again and confirmed anew by a hash
    job; when the step is handed out for validation before that confirmation (another input confirmed first made it
    PENDING), the digest over the available inputs differs and the step loses its hash.  Returns those inputs."""
    a = pre.get(label)
    if a is None or a["detached"] or not a["dyn_inputs"]:
        return []
    exe = set(executed)
    found = []
    for p in sorted(a["dyn_inputs"]):
        if any(p in i["outputs"] for i in pre.values()):
            continue
        c = creators.get(p)
        if c is not None and ({c} | _ancestors(c, pre)) & exe:
            found.append(p)
    return found


def unjustified(executed: list, edited: list, pre: dict, post: dict) -> list:
    """Executed labels that satisfy none of the clauses of the property."""
    exe = set(executed)
    edited, edited_env = split_edited(edited)
    bad = []
    for label in sorted(exe):
        infos = [g[label] for g in (pre, post) if label in g]
        inputs = set().union(*[i["inputs"] for i in infos]) if infos else set()
        if inputs & set(edited):
            continue                                            # consumes an edited file
        if edited_env and any(i["env"] & edited_env for i in infos):
            continue                                            # tracks an edited variable
        if any(_glob_matches(pat, p) for i in infos for pat in i["nglobs"] for p in edited):
            continue                                            # matches it with a glob pattern
        ok = False
        for other in exe - {label}:
            outs = set().union(*[g[other]["outputs"] for g in (pre, post) if other in g] or [set()])
            if outs & inputs:
                ok = True                                       # consumes an output of an executed step
                break
        if ok:
            continue
        if any(i["creator"] in exe for i in infos if i["creator"] is not None):
            continue                                            # declared by an executed step
        bad.append(label)
    return bad


def declared_steps(program: dict) -> dict:
    """label -> {"env": set} as the plan scripts of the project declare it now (steps of `foreach` templates are
    left out: their labels are patterns)."""
    out = {}

    def walk(actions):
        for a in actions or []:
            if not isinstance(a, dict):
                continue
            if a.get("op") in ("step", "run", "plan") and "{" not in a.get("label", "{"):
                out[a["label"]] = {"env": set(a.get("env", []))}
    for actions in (program.get("scripts") or {}).values():
        walk(actions)
    return out


def _ancestors(label: str, g: dict) -> set:
    out, cur = set(), g.get(label, {}).get("creator")
    while cur is not None and cur not in out:
        out.add(cur)
        cur = g.get(cur, {}).get("creator")
    return out


def dyn_inputs_stay_attached(label: str, executed: set, pre: dict, files_before: dict) -> bool:
    """No amended input of `label` can become unavailable (detached, missing) during the rebuild: each one exists,
    is a DECLARED output of a step of the previous graph (an amended output is detached while its producer
    reruns) and no creator up the chain of that producer is executed (a rerun plan detaches what it declared
    until it declares it again).  Then the step is never handed out for validation of its dynamic inputs, and the
    plain skip rule applies to it."""
    for p in pre[label]["dyn_inputs"]:
        if p not in files_before:
            return False
        prod = [q for q, i in pre.items() if p in i["outputs"] and not i["detached"]]
        if len(prod) != 1 or p in pre[prod[0]]["dyn_outputs"]:
            return False                                        # a static file or an amended output: left out
        if _ancestors(prod[0], pre) & executed:
            return False
    return True


def rerun_without_cause(executed: list, edited: list, pre: dict, post: dict, files_before: dict,
                        files_after: dict, stats: dict | None = None, declared: dict | None = None) -> list:
    """The rule behind the skip check: a step whose inputs did not change is skipped, not executed.
    Executed labels that existed before with the same declared inputs and outputs, all outputs
    on disk, consume no edited path (nor match one with a glob pattern), track no edited variable and none of whose
    input files has another content after the rebuild than before it.  Stricter than the clauses of the property:
    a step behind an executed step that reproduced its output identically, or behind a skipped step, or a
    recycled step of a rerun plan, has to be skipped (Coq: C04_absorbed_cone_stops)."""
    bad = []
    edited, edited_env = split_edited(edited)
    exe = set(executed)
    for label in sorted(exe):
        if label not in pre or label not in post or pre[label]["detached"]:
            continue                                            # new, dropped, or was not part of the build
        a, b = pre[label], post[label]
        if a["inputs"] != b["inputs"] or a["outputs"] != b["outputs"]:
            continue                                            # declared differently
        # A step whose creator is rerun is skipped only when the new declaration RECYCLES it (Step.can_recycle: same
        # initial inputs, variables, outputs as on record); otherwise it is defined anew on its old node, loses its
        # amended outputs and fails the check: "declared by an executed step".  Inputs and outputs on record equal
        # the declaration (compared above); the variables on record may be stale (a former declaration's rows are
        # kept by a partial recycle: known finding D9 of C01), so they are compared with the plan script.
        if declared is not None and label in declared and _ancestors(label, pre) & exe \
                and declared[label]["env"] != a["env_decl"]:
            if stats is not None:
                key = "cone:skip_rule:redefined_by_the_rerun_plan(recorded_variables_differ_from_the_declaration)"
                stats[key] = stats.get(key, 0) + 1
            continue
        inputs = a["inputs"]
        dyn = bool(a["dyn_inputs"] or b["dyn_inputs"])
        dyn_ok = dyn and a["dyn_inputs"] == b["dyn_inputs"] and dyn_inputs_stay_attached(label, exe, pre, files_before)
        if stats is not None and dyn:
            key = "cone:skip_rule:executed_amended_step:" + ("in_scope" if dyn_ok else "left_to_the_clauses")
            stats[key] = stats.get(key, 0) + 1
        if any(p not in files_before for p in a["outputs"]):
            continue                                            # never built (or reverted): nothing to skip to
        if inputs & set(edited):
            continue
        if edited_env & (a["env"] | b["env"]):
            continue                                            # tracks an edited variable
        if any(_glob_matches(pat, p) for i in (a, b) for pat in i["nglobs"] for p in edited):
            continue
        if any(files_before.get(p) != files_after.get(p) for p in inputs):
            continue                                            # an input has other content now
        # Steps with AMENDED inputs: while a producer's creator reruns (a rerun plan has not yet re-declared the
        # sub-plan that owns the producer), or when the input is an amended output of a rerunning producer, such a
        # step may be handed out for validation of its dynamic inputs, finds one unavailable, loses its hash
        # (validate_dynamic_job -> _reset_step_to_pending) and is executed later; whether that happens depends on
        # the schedule.  They are left to the clauses of the property unless that cannot happen.
        if dyn and not dyn_ok:
            continue
        bad.append(label)
    return bad


def graph_diff_kinds(a: str, b: str) -> list:
    """Kinds of difference between two canonical graph texts, for the failure signature."""
    na, nb = e3.parse_graph(a), e3.parse_graph(b)
    kinds = set()
    for key in set(na) | set(nb):
        kind = _strip(key).split(":", 1)[0]
        if key not in na:
            kinds.add(f"{kind}-node-added")
        elif key not in nb:
            kinds.add(f"{kind}-node-removed")
        else:
            pa, pb = na[key]["props"], nb[key]["props"]
            for prop in set(pa) | set(pb):
                if pa.get(prop) != pb.get(prop):
                    kinds.add(f"{kind}-{prop}")
            ra, rb = na[key]["rel"], nb[key]["rel"]
            for role in set(ra) | set(rb):
                if sorted(ra.get(role, [])) != sorted(rb.get(role, [])):
                    kinds.add(f"{kind}-{role}")
    return sorted(kinds)


# ---------------------------------------------------------------------------------------------
# No-op comparison
# ---------------------------------------------------------------------------------------------


def compare_noop(ref: e3.BuildResult, new: e3.BuildResult, flavour: str, variant: str,
                 touched: tuple = ()) -> list:
    """Deviations of a rebuild with nothing changed: list of (signature, detail)."""
    devs = []
    tag = f"oracle:noop:{flavour}:{variant}"
    if new.error:
        devs.append((f"{tag}:serve-raised", new.error))
    if new.commands:
        devs.append((f"{tag}:command-executed", f"executed {new.executed()}"))
    if new.returncode != ref.returncode:
        devs.append((f"{tag}:returncode-changed", f"{ref.returncode} -> {new.returncode}"))
    if new.graph != ref.graph:
        kinds = graph_diff_kinds(ref.graph, new.graph)
        devs.append((f"{tag}:graph-changed:" + ",".join(kinds), f"graph differs in {kinds}"))
    paths = set(ref.files) | set(new.files)
    created = sorted(p for p in paths if p not in ref.files)
    removed = sorted(p for p in paths if p not in new.files)
    changed = sorted(p for p in paths if p in ref.files and p in new.files and ref.files[p] != new.files[p])
    rewritten = sorted(p for p in paths if p in ref.files and p in new.files and p not in touched
                       and ref.files[p] == new.files[p]
                       and ref.file_meta.get(p, [0, 0])[:2] != new.file_meta.get(p, [0, 0])[:2])
    if created:
        devs.append((f"{tag}:file-created", f"{created}"))
    if removed:
        devs.append((f"{tag}:file-removed", f"{removed}"))
    if changed:
        devs.append((f"{tag}:file-content-changed", f"{changed}"))
    if rewritten:
        devs.append((f"{tag}:file-rewritten", f"same content, new mtime/inode: {rewritten}"))
    return devs


# ---------------------------------------------------------------------------------------------
# Edits for the cone part
# ---------------------------------------------------------------------------------------------


def plan_source_edits(rng: random.Random, proj: e3.Project, graph: dict, env_edits: bool = False,
                      replan: bool = True) -> tuple[list, list]:
    """Choose edits of source files (and, with env_edits, of tracked variables).  Returns (e3 edits, edited
    paths; an edited variable NAME appears as "env:NAME")."""
    sources = sorted(p for p in proj.sources if not p.endswith("/"))
    scripts = sorted(p for p in proj.program.get("scripts", {}) if p != "plan.py")
    if not sources:
        return [], []
    edits, edited = [], []
    tracked = sorted({n for info in graph.values() if not info["detached"] for n in info["env"]})
    if env_edits and tracked and rng.random() < 0.3:
        # a tracked variable changes together with the sources (restart flavour: the director starts in
        # another environment); sometimes only the variable changes
        name = rng.choice(tracked)
        old = proj.env.get(name)
        new = rng.choice([v for v in (None, f"{name.lower()}_c04x", f"{name.lower()}_c04y") if v != old])
        edits.append({"op": "setenv", "name": name, "value": new})
        edited.append(ENV_PREFIX + name)
        if rng.random() < 0.3:
            return edits, edited
    k = rng.choice([1, 1, 1, 2, 2, 3])
    for p in rng.sample(sources, min(k, len(sources))):
        kind = rng.choices(["change", "change_same_size", "recreate_same", "delete", "touch"],
                           [50, 15, 12, 13, 10])[0]
        old = proj.sources[p]
        if kind == "change":
            edits.append({"op": "write", "path": p, "content": old + "edited for the cone check\n"})
        elif kind == "change_same_size":
            new = old[:-2] + ("X" if old[-2:-1] != "X" else "Y") + "\n" if len(old) >= 2 else "Z"
            edits.append({"op": "write", "path": p, "content": new})
        elif kind == "recreate_same":
            edits.append({"op": "delete", "path": p})
            edits.append({"op": "write", "path": p, "content": old})
        elif kind == "delete":
            edits.append({"op": "delete", "path": p})
        else:
            edits.append({"op": "touch", "path": p})
        edited.append(p)
    # a new file that an existing pattern matches (glob clause of the property)
    patterns = sorted({pat for info in graph.values() for pat in info["nglobs"]})
    if patterns and rng.random() < 0.35:
        pat, subs = parse_nglob_line(rng.choice(patterns))

        def fill(m):
            sub = subs.get(m.group(1), "")
            if rng.random() < 0.3:          # sometimes a value that only ANOTHER registration accepts
                return rng.choice(["5", "k", "Q"])
            return {"[0-9]": rng.choice("3456789"), "[a-z]": rng.choice("cdefgh")}.get(sub, rng.choice(["5", "k"]))
        new = re.sub(r"\$\{\*(\w+)\}", fill, pat)
        new = new.replace("*", f"n{rng.randint(100, 999)}")
        if "*" not in new and "?" not in new and "[" not in new and "$" not in new and new not in proj.sources:
            edits.append({"op": "write", "path": new, "content": f"content of {new} v0\n"})
            edited.append(new)
    # a script is a source file of its step: change its bytes, not its behaviour
    if scripts and rng.random() < 0.15:
        p = rng.choice(scripts)
        edits.append({"op": "rawappend", "path": p})
        edited.append(p)
    # re-planning that changes what a plan declares: a plan script (a source file) gets one more step, which
    # consumes an output that exists already - half of the time the output of an OPTIONAL step when there is one
    # (an idle one becomes needed: the circumstance of the known finding D38, and only that one goes under its
    # signature)
    if replan and rng.random() < 0.15:
        plans = sorted(l for l, i in graph.items() if i["need"] == "PLAN" and not i["detached"]
                       and l.startswith("./") and l[2:] in proj.program.get("scripts", {}) and l[2:] not in edited)
        outs_opt = sorted(o for i in graph.values() if not i["detached"] and i["need"] == "OPTIONAL"
                          for o in i["outputs"] - i["dyn_outputs"])
        outs_all = sorted(o for i in graph.values() if not i["detached"] for o in i["outputs"] - i["dyn_outputs"])
        pool = outs_opt if outs_opt and rng.random() < 0.5 else outs_all
        if plans and pool:
            script = rng.choice(plans)[2:]
            src = rng.choice(pool)
            n = rng.randint(100, 999)
            actions = list(proj.program["scripts"][script]) + [
                {"op": "step", "label": f"tc{n}", "inp": [src], "out": [f"oc{n}.txt"]}]
            edits.append({"op": "script", "path": script, "actions": actions})
            edited.append(script)
    return edits, edited


def apply_edits(proj: e3.Project, root: str, edits: list):
    for ed in edits:
        if ed["op"] == "rawappend":
            full = os.path.join(root, ed["path"])
            text = e3._read_text(full)
            if text is not None:
                e3.write_file(full, text + "\n")
        else:
            e3.apply_edit(proj, root, ed)


def same_content_rewrites(rng: random.Random, proj: e3.Project) -> list:
    sources = sorted(p for p in proj.sources if not p.endswith("/"))
    if not sources:
        return []
    out = []
    for p in rng.sample(sources, min(len(sources), rng.randint(1, 3))):
        out.append((p, rng.choice(["touch", "rewrite", "recreate"])))
    return out


def do_same_content(proj: e3.Project, root: str, rewrites: list):
    for p, how in rewrites:
        full = os.path.join(root, p)
        if not os.path.exists(full):
            continue
        if how == "touch":
            e3._bump_mtime(full)
        elif how == "rewrite":
            e3.write_file(full, proj.sources[p])
        else:
            st = os.stat(full)
            os.remove(full)
            e3.write_file(full, proj.sources[p], old_mtime_ns=st.st_mtime_ns)
            os.chmod(full, st.st_mode & 0o7777)


# ---------------------------------------------------------------------------------------------
# Several glob registrations that share one pattern string but differ in their sub-patterns
# ---------------------------------------------------------------------------------------------

SHARED_GLOB_VARIANTS = ("one_plan", "static_and_glob", "two_steps", "one_plan+static_and_glob")


def _glob_unit(pattern: str, subs: dict, prefix: str, static: bool) -> dict:
    return {"op": "glob", "pattern": pattern, "subs": dict(subs), "static": static, "foreach": [
        {"op": "step", "label": "cp {m} " + prefix + "{stem}.out", "inp": ["{m}"], "out": [prefix + "{stem}.out"]}]}


def shared_glob_actions(variant: str) -> tuple[list, dict]:
    """(actions appended to plan.py, extra scripts) for a variant.  Every variant registers one
    pattern string at least twice with genuinely different match sets."""
    main, scripts = [], {}
    for part in variant.split("+"):
        if part == "one_plan":
            pat = "gs/part_${*key}.txt"
            main.append(_glob_unit(pat, {"key": "[0-9]"}, "gsd_", True))
            main.append(_glob_unit(pat, {"key": "[a-z]"}, "gsl_", True))
        elif part == "static_and_glob":
            pat = "gx/x_${*n}.txt"
            main.append({"op": "static", "paths": [pat]})
            main.append(_glob_unit(pat, {"n": "[0-9]"}, "gxd_", False))
        elif part == "two_steps":
            pat = "gt/part_${*key}.txt"
            scripts["q1.py"] = [_glob_unit(pat, {"key": "[0-9]"}, "gtd_", True)]
            scripts["q2.py"] = [_glob_unit(pat, {"key": "[a-z]"}, "gtl_", True)]
            main.append({"op": "static", "paths": ["q1.py", "q2.py"]})
            main.append({"op": "plan", "label": "./q1.py"})
            main.append({"op": "plan", "label": "./q2.py"})
        else:
            raise ValueError(part)
    return main, scripts


def shared_glob_sources(variant: str) -> dict:
    out = {}
    for part in variant.split("+"):
        d, stem = {"one_plan": ("gs/", "part_"), "static_and_glob": ("gx/", "x_"), "two_steps": ("gt/", "part_")}[part]
        for key in ("1", "2", "a", "b", "Z"):
            out[f"{d}{stem}{key}.txt"] = f"content of {d}{stem}{key}.txt v0\n"
    return out


def inject_shared_globs(program: dict, variant: str) -> dict:
    program = copy.deepcopy(program)
    main, scripts = shared_glob_actions(variant)
    program.setdefault("scripts", {}).setdefault("plan.py", [])
    program["scripts"]["plan.py"] = list(program["scripts"]["plan.py"]) + main
    program["scripts"].update(scripts)
    return program


def add_shared_globs(rng: random.Random, project: e3.Project, history: list, variant: str):
    """The same project and history with the shared-pattern registrations in every version of the
    plan, their source files, and a few edits of those files spread over the phases."""
    project = project.clone()
    history = copy.deepcopy(history)
    project.sources.update(shared_glob_sources(variant))
    project.program = inject_shared_globs(project.program, variant)
    for phase in history:
        for edit in phase.get("edits", []):
            if edit["op"] == "program":
                edit["program"] = inject_shared_globs(edit["program"], variant)
    dirs = sorted({p.split("/")[0] + "/" for p in shared_glob_sources(variant)})
    live = dict(shared_glob_sources(variant))
    counter = 3
    for phase in history:
        if rng.random() < 0.5:
            d = rng.choice(dirs)
            stem = "x_" if d == "gx/" else "part_"
            kind = rng.choice(["add_digit", "add_letter", "delete", "change"])
            mine = sorted(p for p in live if p.startswith(d))
            if kind == "add_digit" and counter <= 9:
                p = f"{d}{stem}{counter}.txt"
                counter += 1
                live[p] = f"content of {p} v0\n"
                phase.setdefault("edits", []).append({"op": "write", "path": p, "content": live[p]})
            elif kind == "add_letter":
                p = f"{d}{stem}{rng.choice('cdefgh')}.txt"
                live[p] = f"content of {p} v0\n"
                phase.setdefault("edits", []).append({"op": "write", "path": p, "content": live[p]})
            elif kind == "delete" and len(mine) > 2:
                p = rng.choice(mine)
                del live[p]
                phase.setdefault("edits", []).append({"op": "delete", "path": p})
            elif mine:
                p = rng.choice(mine)
                live[p] = live[p] + "changed\n"
                phase.setdefault("edits", []).append({"op": "write", "path": p, "content": live[p]})
    return project, history


# ---------------------------------------------------------------------------------------------
# One case
# ---------------------------------------------------------------------------------------------


# ---------------------------------------------------------------------------------------------
# Fixed witness (finding C04-optional-upstream, Coq: C04_full_refuted / C04_cone_idle_optional_clause_needed)
# ---------------------------------------------------------------------------------------------
OPTIONAL_UPSTREAM_SIGNATURE = "oracle:cone:optional-step-needed-by-an-edited-plan:executed-outside-cone"


def optional_upstream_item(flavour: str) -> dict:
    """plan.py declares a second plan ./p2.py and an OPTIONAL step tu (-> pu.txt) that nothing needs; the first
    build leaves tu PENDING.  p2.py (a source file) is edited and now declares tx, which consumes pu.txt: the
    rebuild executes tu, which consumes no edited file and no output of an executed step and was declared by
    plan.py, which is not rerun."""
    plan = [{"op": "static", "paths": ["p2.py"]}, {"op": "plan", "label": "./p2.py"},
            {"op": "step", "label": "tu", "inp": [], "out": ["pu.txt"], "need": "OPTIONAL"}]
    project = {"sources": {}, "program": {"scripts": {"plan.py": plan, "p2.py": []}, "commands": {}}, "env": {}}
    newp2 = [{"op": "step", "label": "tx", "inp": ["pu.txt"], "out": ["rx.txt"]}]
    return {"seed": 1, "flavour": flavour, "max_phases": 1, "njob": 1, "project": project, "history": [],
            "cone_edits": [[{"op": "script", "path": "p2.py", "actions": newp2}], ["p2.py"]],
            "cone_schedule": None}


def run_optional_upstream(flavour: str) -> dict:
    """Replay the witness on the real director.  Returns {"reproduced": bool, "report": ..., "too_wide": [...]}.
    too_wide: the classifier that routes a failure to the signature of D38 must reject every neighbouring
    circumstance; it is evaluated on the real graphs of the witness with one fact changed at a time."""
    rep = run_case(dict(optional_upstream_item(flavour), keep_graphs=True))
    hit = [f for f in rep["failures"] if f["signature"] == OPTIONAL_UPSTREAM_SIGNATURE
           and f.get("unjustified") == ["tu"] and f.get("needed_by") == {"tu": ["tx"]}]
    other = [f for f in rep["failures"] if f not in hit]
    too_wide = []
    if hit and rep.get("cone_graphs"):
        pre, post = (graph_relations(g) for g in rep["cone_graphs"])
        exe = hit[0]["executed"]
        tx = dict(post["tx"], detached=False)
        variants = {
            "the-optional-step-was-built-before": ({**pre, "tu": dict(pre["tu"], state="SUCCEEDED")}, post, exe),
            "the-step-is-not-optional": ({**pre, "tu": dict(pre["tu"], need="DEFAULT")}, post, exe),
            "the-step-was-detached-before": ({**pre, "tu": dict(pre["tu"], detached=True)}, post, exe),
            "the-consumer-consumed-it-before": ({**pre, "tx": tx}, post, exe),
            "the-consumer-is-not-executed": (pre, post, [l for l in exe if l != "tx"]),
            "the-consumer-reads-another-file": (pre, {**post, "tx": dict(post["tx"], inputs={"other.txt"})}, exe),
            # a chain of idle optional steps counts only when its end is a new consumer
            "the-consumer-was-an-idle-optional-step-nothing-new-needs": (
                {**pre, "tx": dict(tx, need="OPTIONAL", state="PENDING")}, post, exe),
        }
        for name, (a, b, e) in variants.items():
            if optional_upstream_shape("tu", e, a, b):
                too_wide.append(name)
        if optional_upstream_shape("tu", exe, pre, post) != ["tx"]:
            too_wide.append("the-witness-itself-is-not-recognised")
    return {"reproduced": bool(hit), "other": other, "report": rep, "too_wide": too_wide}


# ---------------------------------------------------------------------------------------------
# Several tracked environment variables per step, several changed at once, a subset reverted
# ---------------------------------------------------------------------------------------------
ENV_MULTI_NAMES = ["VA", "VB", "VC", "VD"]


def gen_env_multi(rng: random.Random) -> tuple[e3.Project, list]:
    """A project whose steps track 2-4 variables each (declared with the step; one script step may
    amend a further one), and a history of environments: several variables change at once, later a
    proper subset of them goes back to an earlier value while the others keep the new one
    ((A,B) -> (A',B') -> (A,B') and the like)."""
    names = ENV_MULTI_NAMES
    nsteps = rng.randint(1, 3)
    plan = [{"op": "static", "paths": ["src.txt"]}]
    commands, scripts = {}, {}
    used = set()
    for i in range(nsteps):
        env = sorted(rng.sample(names, rng.choice([2, 2, 3, 4]) if i == 0 else rng.choice([1, 2, 3])))
        used.update(env)
        label = f"te{i}"
        plan.append({"op": "step", "label": label, "inp": ["src.txt"] if rng.random() < 0.6 else [],
                     "out": [f"oe{i}.txt"], "env": env})
        commands[label] = [{"op": "getenv", "name": n} for n in env] + [{"op": "auto"}]
    if rng.random() < 0.45:
        decl = sorted(rng.sample(names, rng.choice([1, 2])))
        amend = sorted(rng.sample([n for n in names if n not in decl], rng.choice([1, 2])))
        used.update(decl + amend)
        scripts["we.py"] = ([{"op": "amend", "env": amend}] + [{"op": "getenv", "name": n} for n in decl + amend]
                            + [{"op": "auto"}])
        plan += [{"op": "static", "paths": ["we.py"]},
                 {"op": "run", "label": "./we.py", "inp": [], "out": ["owe.txt"], "env": decl}]
    scripts["plan.py"] = plan
    env0 = {n: (None if rng.random() < 0.15 else f"{n.lower()}0") for n in names}
    project = e3.Project({"src.txt": "source v0\n"}, {"scripts": scripts, "commands": commands}, dict(env0))
    used = sorted(used)
    envs, cur, counter = [], dict(env0), 0
    seen = {n: [env0[n]] for n in names}
    # phase 1: at least two variables change at once
    first = rng.sample(used, min(len(used), rng.choice([2, 2, 3])))
    for n in first:
        counter += 1
        cur[n] = f"{n.lower()}{counter}"
        seen[n].append(cur[n])
    envs.append(dict(cur))
    # phase 2: a proper, non-empty subset of them goes back; the others keep the new value
    back = rng.sample(first, rng.randint(1, max(1, len(first) - 1)))
    for n in back:
        cur[n] = env0[n]
    envs.append(dict(cur))
    for _ in range(rng.randint(0, 2)):
        for n in rng.sample(used, rng.randint(1, min(3, len(used)))):
            if rng.random() < 0.6:
                cur[n] = rng.choice(seen[n])
            else:
                counter += 1
                cur[n] = f"{n.lower()}{counter}"
                seen[n].append(cur[n])
        envs.append(dict(cur))
    return project, envs


def run_env_multi(item: dict) -> dict:
    """item: {"seed", optional "project", "envs"}.  Restart flavour only (a watching director does not see
    the environment of the shell change).  After the start in every environment of the history: return code 0,
    every file equal to a from-scratch build in that environment, and a rebuild with nothing changed does
    nothing."""
    seed = item["seed"]
    rng = random.Random(f"c04-envmulti-{seed}")
    if "project" in item:
        project, envs = e3.Project.from_json(item["project"]), copy.deepcopy(item["envs"])
    else:
        project, envs = gen_env_multi(rng)
    report = {"seed": seed, "flavour": "restart", "kind": "env_multi", "failures": [], "stats": {}, "nbuilds": 0,
              "project": project.to_json(), "envs": envs}
    stats = report["stats"]

    def count(key, n=1):
        stats[key] = stats.get(key, 0) + n

    def fail(sig, detail, extra=None):
        report["failures"].append({"signature": sig, "detail": detail, **(extra or {})})

    kw = build_kw(item)
    proj = project.clone()
    try:
        with tempfile.TemporaryDirectory(prefix="c04-env-") as root:
            proj.materialise(root)

            def build():
                report["nbuilds"] += 1
                return e3.build(root, proj.program, env=dict(proj.env), **kw)

            ref = build()
            if ref.returncode != OK_RC or ref.error:
                count(f"envmulti:first-build-rc:{ref.returncode}")
                return report
            for k, env in enumerate(envs):
                changed = sorted(n for n in env if env[n] != proj.env.get(n))
                proj.env = dict(env)
                inc = build()
                count("envmulti:restarts")
                count(f"envmulti:vars_changed_at_once:{len(changed)}")
                if inc.error or inc.returncode != OK_RC:
                    fail("oracle:env:restart:multi-var-build-failed",
                         f"environment {k} ({changed} changed): rc {inc.returncode} {inc.error}", {"phase": k})
                    return report
                scratch = e3.from_scratch(proj, **kw)
                report["nbuilds"] += 1
                stale = sorted(p for p in set(inc.files) | set(scratch.files) if inc.files.get(p) != scratch.files.get(p))
                if stale:
                    fail("oracle:env:restart:multi-var-output-stale",
                         f"environment {k}: variables changed since the previous start {changed}; files that differ "
                         f"from a from-scratch build in this environment: {stale}; executed {inc.executed()}",
                         {"phase": k, "changed": changed, "stale": stale})
                    return report
                if inc.executed():
                    count("envmulti:nontrivial")
                # A rebuild with nothing changed: after the last environment always, in between only sometimes
                # (it makes the next start compare against freshly recorded values and so hides a start that
                # recorded only part of what it saw).
                if k == len(envs) - 1 or rng.random() < 0.3:
                    again = build()
                    count("noop:restart:envmulti")
                    devs = compare_noop(inc, again, "restart", "nochange")
                    seen_changed = [e[1] for e in again.events if e[0] == "UPDATED"]
                    if seen_changed:
                        devs.append(("oracle:noop:restart:nochange:variable-reported-changed",
                                     f"the start reports changes although nothing changed: {seen_changed}"))
                    for sig, detail in devs:
                        fail(sig, f"after the start in environment {k}: " + detail, {"phase": k})
                    if devs:
                        return report
    except e3.E3Timeout as exc:
        report["timeout"] = f"{exc.args[0]} {exc.args[1] if len(exc.args) > 1 else ''}"
    except e3.E3Error as exc:
        report["timeout"] = f"E3Error: {exc}"
    return report


# ---------------------------------------------------------------------------------------------
# Edits that are absorbed by an identically rebuilt output; steps that track injected variables
# ---------------------------------------------------------------------------------------------
# Variables the director injects into (or overrides in) the environment of every step: their value in
# Executor.base_env differs from os.environ.  (STEPUP_DIRECTOR_SOCKET changes with every start: not used.)
INJECTED_ENV = ["SOURCE_DATE_EPOCH", "STEPUP_ROOT", "STEPUP_BUILD_LOG_LEVEL"]


ABSORBED_FEATURES = (("amend", 0.4), ("glob", 0.4), ("optional", 0.4), ("envedit", 0.3), ("labels", 0.5))


def gen_absorbed(rng: random.Random) -> tuple[e3.Project, list, list, str, dict | None]:
    """Project, cone edits, edited paths ("env:NAME" for a variable), variant, engine description.
    chain:  sources x<i>.txt; an absorber ta<i> reads x<i>.txt and writes a CONSTANT a<i>.out; behind it a chain
            tb<i>_0 -> tb<i>_1 -> ... of steps that track 0-2 variables out of the injected ones and VA; next to it
            sometimes td (x0.txt -> d.out, content depends on the input) with a consumer te.  The edit changes the
            sources: the absorbers run and reproduce their outputs, everything behind them is checked and skipped.
    nested: the same steps are declared by a sub-plan ./p2.py of plan.py; the edit appends a byte to plan.py: the
            plan is rerun and declares everything as before; ./p2.py and its steps are recycled, checked, skipped.
    Features (independent, each with its probability): behind an absorber
      amend     a script step ./wb<i>.py that AMENDS a<i>.out as input (dynamic edge) and a consumer tw<i>;
      glob      glob("gq_*.txt") + static + one absorber "gab <match>" per match, a consumer tgc of one of their
                outputs; the edit changes a matching file and/or adds a new match (the owner of the pattern is
                rerun and recycles what it declared before; the new step runs);
      optional  an OPTIONAL step to (a0.out -> to.out) that a mandatory step tm needs;
      envedit   the variable VA changes together with the sources (restart flavour only);
      labels    the steps behind the absorbers (tb, tw, td, te, to, tm, tgc) carry commands with a tab, quotes,
                non-ASCII characters or 300 more characters (SPECIAL_LABEL_SUFFIXES): the label is an ingredient of
                the step hash and has a display form with escapes (Run.description).
    engine: for the fixed-plan shapes (chain without amend / glob) the description of the project as a project of
    model/Engine.v with the two worlds, for the evaluation of the model inside Coq (None otherwise)."""
    variant = rng.choice(["chain", "chain", "nested"])
    feats = sorted(f for f, pr in ABSORBED_FEATURES if rng.random() < pr)
    nsrc = rng.randint(1, 2)
    sources = {f"x{i}.txt": f"source {i} v0\n" for i in range(nsrc)}
    pool = INJECTED_ENV + ["VA"]
    decl = [{"op": "static", "paths": sorted(sources)}]
    commands = {}
    scripts = {}
    msteps = []                     # engine description: (label, inputs, variables, outputs, constant?)
    mamend = []                     # (label of a script step, its script, the paths it amends)
    optional = set()                # labels declared with need OPTIONAL

    def tracked():
        k = rng.choice([0, 1, 1, 2])
        env = sorted(rng.sample(pool, k))
        if rng.random() < 0.7 and not set(env) & set(INJECTED_ENV):
            env = sorted(set(env) | {rng.choice(INJECTED_ENV)})
        return env

    def step(label, inp, out, env, need=None):
        if "labels" in feats and rng.random() < 0.7:
            label = label + rng.choice(SPECIAL_LABEL_SUFFIXES)
        a = {"op": "step", "label": label, "inp": inp, "out": out}
        if env:
            a["env"] = env
        if need:
            a["need"] = need
            optional.add(label)
        decl.append(a)
        commands[label] = [{"op": "getenv", "name": n} for n in env] + [{"op": "auto"}]
        msteps.append((label, list(inp), list(env), list(out), False))

    def absorber(label, src, out, text):
        commands[label] = [{"op": "read", "paths": [src], "required": True},
                           {"op": "write", "path": out, "content": text}]

    for i in range(nsrc):
        decl.append({"op": "step", "label": f"ta{i}", "inp": [f"x{i}.txt"], "out": [f"a{i}.out"]})
        absorber(f"ta{i}", f"x{i}.txt", f"a{i}.out", f"constant output {i}\n")
        msteps.append((f"ta{i}", [f"x{i}.txt"], [], [f"a{i}.out"], True))
        prev = f"a{i}.out"
        for j in range(rng.randint(1, 3)):
            out = f"b{i}_{j}.out"
            step(f"tb{i}_{j}", [prev], [out], tracked())
            prev = out
        if "amend" in feats and (i == 0 or rng.random() < 0.5):
            scripts[f"wb{i}.py"] = [{"op": "amend", "inp": [f"a{i}.out"]},
                                    {"op": "read", "paths": [f"a{i}.out"], "required": True}, {"op": "auto"}]
            decl.append({"op": "static", "paths": [f"wb{i}.py"]})
            decl.append({"op": "run", "label": f"./wb{i}.py", "inp": [], "out": [f"wb{i}.out"]})
            # engine: the script is the first declared input; what it amends is a function of the script's content
            msteps.append((f"./wb{i}.py", [f"wb{i}.py"], [], [f"wb{i}.out"], False))
            mamend.append((f"./wb{i}.py", f"wb{i}.py", [f"a{i}.out"]))
            step(f"tw{i}", [f"wb{i}.out"], [f"tw{i}.out"], tracked())
    with_direct = rng.random() < 0.5
    if with_direct:
        step("td", ["x0.txt"], ["d.out"], tracked())
        step("te", ["d.out"], ["e.out"], tracked())
    if "optional" in feats:
        step("to", ["a0.out"], ["to.out"], tracked(), need="OPTIONAL")
        step("tm", ["to.out"], ["tm.out"], tracked())
        # an optional step nothing needs: never built, never checked, never executed
        step("ti", ["a0.out"], ["ti.out"], tracked(), need="OPTIONAL")
    if "glob" in feats:
        for k in ("1", "2"):
            sources[f"gq_{k}.txt"] = f"glob source {k} v0\n"
        decl.append({"op": "glob", "pattern": "gq_*.txt", "subs": {}, "static": True, "foreach": [
            {"op": "step", "label": "gab {m}", "inp": ["{m}"], "out": ["gqo_{stem}.out"]}]})
        for k in ("1", "2", "7"):
            absorber(f"gab gq_{k}.txt", f"gq_{k}.txt", f"gqo_gq_{k}.out", f"constant glob output {k}\n")
        for k in ("1", "2"):
            msteps.append((f"gab gq_{k}.txt", [f"gq_{k}.txt"], [], [f"gqo_gq_{k}.out"], True))
        step("tgc", ["gqo_gq_1.out"], ["tgc.out"], tracked())
    env = {"VA": "va0"}
    if rng.random() < 0.25:
        env["SOURCE_DATE_EPOCH"] = "1700000000"        # then the director does not inject its own value
    edits, edited = [], []
    if variant == "nested":
        scripts["p2.py"] = decl
        scripts["plan.py"] = [{"op": "static", "paths": ["p2.py"]}, {"op": "plan", "label": "./p2.py"}]
        edits.append({"op": "rawappend", "path": "plan.py"})
        edited.append("plan.py")
    else:
        scripts["plan.py"] = decl
        for p in sorted(q for q in sources if q.startswith("x")):
            if not edits or rng.random() < 0.6:
                edits.append({"op": "write", "path": p, "content": sources[p] + "edited\n"})
                edited.append(p)
    if "glob" in feats:
        how = rng.choice(["change", "add", "both"])
        if how in ("change", "both"):
            edits.append({"op": "write", "path": "gq_1.txt", "content": sources["gq_1.txt"] + "edited\n"})
            edited.append("gq_1.txt")
        if how in ("add", "both"):
            edits.append({"op": "write", "path": "gq_7.txt", "content": "glob source 7 v0\n"})
            edited.append("gq_7.txt")
    if "envedit" in feats:
        edits.append({"op": "setenv", "name": "VA", "value": "va1"})
        edited.append(ENV_PREFIX + "VA")
    project = e3.Project(dict(sources), {"scripts": scripts, "commands": commands}, env)
    engine = None
    new_match = any(e["op"] == "write" and e["path"] == "gq_7.txt" for e in edits)
    if "amend" in feats and variant == "chain" and not new_match:
        # fixed plan with amended inputs: the gated engine of Section Amend
        srcs = dict(sources)
        srcs.update({script: "script " + script for _l, script, _a in mamend})
        # the amend engine has no `need`: the idle optional step (never dispatched) is left out of its project
        engine = {"steps": [s for s in msteps if (s[0].split() or [""])[0] != "ti"], "amend": mamend, "sources": srcs, "env": dict(env),
                  "edits": [e for e in edits if e["op"] in ("write", "setenv")]}
    elif "amend" not in feats:
        # the plan after the edit: a new match of the pattern adds its absorber (declared by the rerun owner)
        after = list(msteps)
        if any(e["op"] == "write" and e["path"] == "gq_7.txt" for e in edits):
            k = next(i for i, s in enumerate(after) if (s[0].split() or [""])[0] == "tgc")
            after.insert(k, ("gab gq_7.txt", ["gq_7.txt"], [], ["gqo_gq_7.out"], True))
        engine = {"steps": msteps, "steps_after": after, "sources": dict(sources), "env": dict(env),
                  "optional": sorted(optional),
                  "edits": [e for e in edits if e["op"] in ("write", "setenv")]}
    return project, edits, edited, "+".join([variant] + feats), engine


def engine_term(engine: dict, flavour: str, first_ran: list, cone_log: dict, first_files=None) -> str:
    """The Gallina term `check_cone_dyn (absorb_run consts) [] empty_sys [(P, phase0); (P', phase1)]`
    (model/NoopExec.v): the engine model run on the same two worlds with the same two plans must execute exactly the
    steps the real director executed, check and skip only steps the director checked and skipped, and change
    exactly the outputs that changed."""
    from . import common
    pid, eid, cid, labels = {}, {}, {}, {}

    def num(d, k, base):
        return d.setdefault(k, base + len(d))

    def project(steps):
        out = []
        for label, inp, env, outs_, _const in steps:
            num(labels, label, 1000)
            out.append(f"mkStep {labels[label]} {common.coq_list([str(num(pid, p, 1)) for p in inp])} "
                       f"{common.coq_list([str(num(eid, n, 1)) for n in env])} "
                       f"{common.coq_list([str(num(pid, p, 1)) for p in outs_])}")
        return common.coq_list(out)
    before, after = engine["steps"], engine.get("steps_after", engine["steps"])
    p0, p1 = project(before), project(after)
    consts = sorted({str(labels[s[0]]) for s in before + after if s[4]})

    def world(sources, env):
        src = [f"({num(pid, p, 1)}, {num(cid, 'file:' + c, 1)})" for p, c in sorted(sources.items()) if p in pid]
        # a variable the director injects has a value of its own whatever the shell says (except SOURCE_DATE_EPOCH)
        vals = []
        for n in sorted(eid):
            v = env.get(n)
            if n in INJECTED_ENV and v is None:
                v = "injected"
            if v is not None:
                vals.append(f"({eid[n]}, {num(cid, 'env:' + v, 1)})")
        return common.coq_list(src), common.coq_list(vals)
    sources, env = dict(engine["sources"]), dict(engine["env"])
    s0, e0 = world(sources, env)
    for ed in engine["edits"]:
        if ed["op"] == "write":
            sources[ed["path"]] = ed["content"]
        elif flavour == "restart":
            env[ed["name"]] = ed.get("value")
    s1, e1 = world(sources, env)

    def ids(ls):
        return common.coq_list([str(labels[l]) for l in sorted(set(ls)) if l in labels])
    outs0 = sorted(p for s in before for p in s[3])
    outs1 = sorted(p for s in after for p in s[3])
    chg0 = common.coq_list([f"({pid[p]}, {common.coq_bool(first_files is None or p in first_files)})" for p in outs0])
    chg1 = common.coq_list([f"({pid[p]}, {common.coq_bool(p in cone_log['changed'])})" for p in outs1])
    if engine.get("amend"):
        tab = common.coq_list([f"({labels[l]}, {num(cid, 'file:' + engine['sources'][script], 1)}, "
                               f"{common.coq_list([str(pid[p]) for p in paths])})"
                               for l, script, paths in engine["amend"]])
        return (f"let proj := {p0} in check_cone_amend (absorb_run {common.coq_list(consts)}) {tab} proj empty_asys "
                f"[({s0}, {e0}, {ids(first_ran)}, [], {chg0}); "
                f"({s1}, {e1}, {ids(cone_log['ran'])}, {ids(cone_log['skipped'])}, {chg1})]")
    ph0 = f"({p0}, ({s0}, {e0}, {ids(first_ran)}, [], {chg0}))"
    ph1 = f"({p1}, ({s1}, {e1}, {ids(cone_log['ran'])}, {ids(cone_log['skipped'])}, {chg1}))"
    if engine.get("optional"):
        mand = common.coq_list([str(labels[s[0]]) for s in before + after if s[0] not in engine["optional"]])
        return f"check_cone_dyn_opt (absorb_run {common.coq_list(consts)}) {mand} [] empty_sys [{ph0}; {ph1}]"
    return f"check_cone_dyn (absorb_run {common.coq_list(consts)}) [] empty_sys [{ph0}; {ph1}]"


def run_absorbed(item: dict) -> dict:
    """item: {"seed", "flavour"}.  First build (rc 0), a rebuild with nothing changed, the edit, the rebuild:
    the generic clauses of the property and the skip rule (rerun_without_cause) on the real director."""
    seed, flavour = item["seed"], item["flavour"]
    rng = random.Random(f"c04-absorbed-{seed}-{flavour}")
    engine = None
    if "project" in item:
        project = e3.Project.from_json(item["project"])
        edits, edited = item["cone_edits"]
        variant = item.get("variant", "given")
    else:
        project, edits, edited, variant, engine = gen_absorbed(rng)
        if flavour != "restart":                       # a watching director does not see the shell's environment
            edits = [e for e in edits if e["op"] != "setenv"]
            edited = [p for p in edited if not p.startswith(ENV_PREFIX)]
    # restart flavour: half of the rebuilds run under a random schedule of the command ends (the executed set must
    # not depend on it: C04_exec_cone_all_schedules)
    schedule = item.get("cone_schedule", {"seed": rng.randint(0, 10 ** 6)}
                        if flavour == "restart" and "project" not in item and rng.random() < 0.5 else None)
    sub = dict(item, project=project.to_json(), history=[], cone_edits=[edits, edited], cone_schedule=schedule,
               skip_env=True, max_phases=1, strict_recycled=True)
    sub.pop("kind", None)
    rep = run_case(sub)
    rep["kind"], rep["variant"] = "absorbed", variant
    rep["stats"][f"absorbed:{variant.split('+')[0]}"] = 1
    for feat in variant.split("+")[1:]:
        rep["stats"][f"absorbed:with:{feat}"] = 1
    if schedule is not None:
        rep["stats"]["absorbed:random_schedule"] = 1
    if engine is not None and rep.get("cone_log") and not rep.get("timeout") and rep.get("first_ran") is not None:
        rep["engine_term"] = engine_term(engine, flavour, rep["first_ran"], rep["cone_log"], rep.get("first_files"))
    return rep


# ---------------------------------------------------------------------------------------------
# A skip check that is overtaken: an input record is replaced (by an identical one) while the step is CHECKING
# ---------------------------------------------------------------------------------------------


def overtaken_project(variant: str) -> tuple[e3.Project, list, list, dict]:
    """work (b1.txt, x2 -> t.out) is outside the cone of the edit of list1.txt and list2.txt:
    ./decl1.py (list1.txt) declares the static file b1.txt again -> confirmed anew, unchanged -> work is CHECKED;
    declarer:  ./decl2.py (slow.txt, produced by `slow` from list2.txt) declares the static file b2.txt = x2: while work
               is being checked decl2 is reset for its rerun (b2.txt is detached) and declares b2.txt again only after
               the check has ended;
    producer:  the absorber ta (list2.txt -> a.out = x2, constant content) is reset for its rerun (a.out OUTDATED)
               while work is being checked and rewrites a.out identically afterwards.
    Either way the recording transaction of the check finds an input record replaced (Executor._inputs_overtaken);
    the step must be checked again later and skipped: nothing it reads has changed."""
    sources = {"list1.txt": "list 1 v0\n", "list2.txt": "list 2 v0\n", "b1.txt": "static b1\n", "b2.txt": "static b2\n"}
    scripts = {"decl1.py": [{"op": "static", "paths": ["b1.txt"]}]}
    plan = [{"op": "static", "paths": ["list1.txt", "list2.txt", "decl1.py"]},
            {"op": "run", "label": "./decl1.py", "inp": ["list1.txt"], "out": []}]
    commands = {}
    if variant == "declarer":
        scripts["decl2.py"] = [{"op": "static", "paths": ["b2.txt"]}]
        plan += [{"op": "static", "paths": ["decl2.py"]},
                 {"op": "step", "label": "slow", "inp": ["list2.txt"], "out": ["slow.txt"]},
                 {"op": "run", "label": "./decl2.py", "inp": ["slow.txt"], "out": []},
                 {"op": "step", "label": "work", "inp": ["b1.txt", "b2.txt"], "out": ["t.out"]}]
        hooks = {"checked": "work", "hold_until_check_started": "slow", "replacer": "./decl2.py"}
    else:
        plan += [{"op": "step", "label": "ta", "inp": ["list2.txt"], "out": ["a.out"]},
                 {"op": "step", "label": "work", "inp": ["a.out", "b1.txt"], "out": ["t.out"]}]
        commands["ta"] = [{"op": "read", "paths": ["list2.txt"], "required": True},
                          {"op": "write", "path": "a.out", "content": "constant output\n"}]
        hooks = {"checked": "work", "hold_until_check_started": None, "replacer": "ta"}
    scripts["plan.py"] = plan
    project = e3.Project(sources, {"scripts": scripts, "commands": commands}, {})
    edits = [{"op": "write", "path": p, "content": sources[p] + "edited\n"} for p in ("list1.txt", "list2.txt")]
    return project, edits, ["list1.txt", "list2.txt"], hooks


class _OvertakenHooks:
    """Orders three moments of ONE build of the real director with asyncio events (no sleeps): the output hashing
    inside the skip check of `checked` waits until `replacer` has been reset for its rerun (its static file detached /
    its output OUTDATED) and is about to run its command; that command starts only after the check has ended."""

    def __init__(self, hooks: dict):
        self.h = hooks
        self.ev = {}
        self.reached = {"check_started": 0, "replaced_during_check": 0, "check_ended": 0}
        self.first_check = True

    def event(self, name):
        import asyncio
        return self.ev.setdefault(name, asyncio.Event())

    async def wait(self, name, timeout=20):
        import asyncio
        try:
            await asyncio.wait_for(self.event(name).wait(), timeout)
            return True
        except asyncio.TimeoutError:
            return False

    def install(self, stack):
        from stepup.core.executor import Executor
        me = self
        orig_out, orig_skip, orig_cmd = Executor._compute_out_step_hash, Executor.try_skip_job, Executor._run_command

        async def out_hook(self, run, step_hash):
            if run.step.label == me.h["checked"] and me.first_check:
                me.first_check = False
                me.reached["check_started"] += 1
                me.event("check_started").set()
                if await me.wait("replaced"):
                    me.reached["replaced_during_check"] += 1
            return await orig_out(self, run, step_hash)

        async def skip_hook(self, job_i, step, *args, **kw):
            try:
                return await orig_skip(self, job_i, step, *args, **kw)
            finally:
                if step.label == me.h["checked"] and me.event("check_started").is_set():
                    me.reached["check_ended"] += 1
                    me.event("check_ended").set()

        async def cmd_hook(self, run):
            label = run.step.label
            if label == me.h["hold_until_check_started"]:
                await me.wait("check_started")
            if label == me.h["replacer"]:
                await me.wait("check_started")
                if not me.event("check_ended").is_set():
                    me.event("replaced").set()            # reset_for_rerun of this step has been committed
                    await me.wait("check_ended")
            return await orig_cmd(self, run)

        Executor._compute_out_step_hash, Executor.try_skip_job, Executor._run_command = out_hook, skip_hook, cmd_hook
        stack.callback(setattr, Executor, "_compute_out_step_hash", orig_out)
        stack.callback(setattr, Executor, "try_skip_job", orig_skip)
        stack.callback(setattr, Executor, "_run_command", orig_cmd)


def run_overtaken(item: dict) -> dict:
    """item: {"seed", "variant": "declarer"|"producer"}.  Restart flavour, njob 2: build, edit list1.txt and
    list2.txt, rebuild with the interleaving forced by _OvertakenHooks; the clauses of the property and the skip rule
    on the rebuild."""
    import contextlib
    # only the declarer variant overlaps a check: a consumer is not dispatched while a BUILT input is OUTDATED, so a
    # rerunning producer cannot overtake the check of its consumer within one build phase
    variant = item.get("variant") or "declarer"
    project, edits, edited, hooks = overtaken_project(variant)
    report = {"seed": item["seed"], "flavour": "restart", "kind": "overtaken", "variant": variant, "failures": [],
              "stats": {}, "nbuilds": 0, "project": project.to_json(), "history": [], "cone_edits": [edits, edited]}
    stats = report["stats"]

    def count(key, n=1):
        stats[key] = stats.get(key, 0) + n

    def fail(sig, detail, extra=None):
        report["failures"].append({"signature": sig, "detail": detail, **(extra or {})})
    kw = {"resources": "tok:1", "njob": 2, "timeout": item.get("timeout", 90)}
    proj = project.clone()
    try:
        with tempfile.TemporaryDirectory(prefix="c04-ovt-") as root:
            proj.materialise(root)
            ref = e3.build(root, proj.program, env={}, **kw)
            report["nbuilds"] += 1
            if ref.returncode != OK_RC or ref.error:
                count(f"overtaken:first-build-rc:{ref.returncode}")
                return report
            apply_edits(proj, root, edits)
            hk = _OvertakenHooks(hooks)
            with contextlib.ExitStack() as stack:
                hk.install(stack)
                new = e3.build(root, proj.program, env={}, **kw)
            report["nbuilds"] += 1
            reached = hk.reached["replaced_during_check"] > 0 and hk.reached["check_ended"] > 0
            count(f"overtaken:{variant}:interleaving_reached={reached}")
            pre, post = graph_relations(ref.graph), graph_relations(new.graph)
            executed = new.executed()
            report["cone_log"] = {"ran": sorted(set(executed)),
                                  "skipped": sorted({e[1] for e in new.events if e[0] == "SKIP"}), "reached": hk.reached}
            tag = f"edited {edited}; while {hooks['checked']!r} was being checked, {hooks['replacer']!r} was reset for " \
                  f"its rerun ({variant}: an input record of the checked step is replaced by an identical one)"
            if new.error or new.returncode != OK_RC:
                fail("oracle:cone:restart:overtaken-check:build-failed", f"{tag}; rc {new.returncode} {new.error}")
                return report
            bad = unjustified(executed, edited, pre, post)
            if bad:
                fail("oracle:cone:restart:overtaken-check:executed-outside-cone",
                     f"{tag}; executed {executed}; not justified by any clause: {bad}",
                     {"edited": edited, "executed": executed, "unjustified": bad})
            causeless = rerun_without_cause(executed, edited, pre, post, ref.files, new.files, stats,
                                            declared_steps(proj.program))
            if causeless:
                fail("oracle:cone:restart:overtaken-check:executed-with-unchanged-inputs",
                     f"{tag}; executed {executed}; declared as before, inputs with the same content: {causeless}",
                     {"edited": edited, "executed": executed, "causeless": causeless})
    except e3.E3Timeout as exc:
        report["timeout"] = f"{exc.args[0]} {exc.args[1] if len(exc.args) > 1 else ''}"
    except e3.E3Error as exc:
        report["timeout"] = f"E3Error: {exc}"
    return report


# ---------------------------------------------------------------------------------------------
# Fixed witness: an amended static input is declared again by a rerun plan and confirmed late
# ---------------------------------------------------------------------------------------------


def amended_static_item() -> dict:
    """plan.py declares the static files s1.txt, s2.txt and a sub-plan ./p1.py, which declares the script step ./w.py;
    ./w.py AMENDS s1.txt and s2.txt.  The edit appends a byte to plan.py: the plan is rerun, declares everything as
    before (./p1.py and ./w.py are recycled); s1.txt and s2.txt are detached by the reset and declared again."""
    scripts = {"plan.py": [{"op": "static", "paths": ["s1.txt", "s2.txt", "p1.py"]}, {"op": "plan", "label": "./p1.py"}],
               "p1.py": [{"op": "static", "paths": ["w.py"]},
                         {"op": "run", "label": "./w.py", "inp": [], "out": ["ow.txt"]}],
               "w.py": [{"op": "amend", "inp": ["s1.txt", "s2.txt"]},
                        {"op": "read", "paths": ["s1.txt", "s2.txt"], "required": True}, {"op": "auto"}]}
    project = {"sources": {"s1.txt": "static 1\n", "s2.txt": "static 2\n"},
               "program": {"scripts": scripts, "commands": {}}, "env": {}}
    return {"seed": 2, "flavour": "restart", "kind": "amended_static", "project": project, "history": [],
            "cone_edits": [[{"op": "rawappend", "path": "plan.py"}], ["plan.py"]], "cone_schedule": None}


def run_amended_static(item: dict) -> dict:
    """The rebuild with the confirmation of s2.txt held (hook on the real Executor._run_hash_job, asyncio event) until
    the validation job of ./w.py has ended: ./w.py is PENDING after s1.txt was confirmed anew and is handed out while
    s2.txt is still UNCONFIRMED."""
    import asyncio
    import contextlib
    from stepup.core.executor import Executor
    project = e3.Project.from_json(item["project"])
    edits, edited = item["cone_edits"]
    report = {"seed": item["seed"], "flavour": "restart", "kind": "amended_static", "failures": [], "stats": {},
              "nbuilds": 0, "project": project.to_json(), "history": [], "cone_edits": [edits, edited]}
    kw = {"resources": "tok:1", "njob": 2, "timeout": item.get("timeout", 90)}
    proj = project.clone()
    state = {"ev": None, "held": 0, "validated": 0}

    def event():
        if state["ev"] is None:
            state["ev"] = asyncio.Event()
        return state["ev"]
    orig_hash, orig_val = Executor._run_hash_job, Executor.validate_dynamic_job

    async def hash_hook(self, hash_job):
        if hash_job.path == "s2.txt" and hash_job.cause.name == "CONFIRMED" and not event().is_set():
            state["held"] += 1
            try:
                await asyncio.wait_for(event().wait(), 5)
            except asyncio.TimeoutError:
                pass
        return await orig_hash(self, hash_job)

    async def val_hook(self, job_i, step, *args, **kw2):
        try:
            return await orig_val(self, job_i, step, *args, **kw2)
        finally:
            if step.label == "./w.py":
                state["validated"] += 1
                event().set()
    try:
        with tempfile.TemporaryDirectory(prefix="c04-ams-") as root:
            proj.materialise(root)
            ref = e3.build(root, proj.program, env={}, **kw)
            report["nbuilds"] += 1
            if ref.returncode != OK_RC or ref.error:
                report["stats"]["amended_static:first-build-failed"] = 1
                return report
            apply_edits(proj, root, edits)
            with contextlib.ExitStack() as stack:
                Executor._run_hash_job, Executor.validate_dynamic_job = hash_hook, val_hook
                stack.callback(setattr, Executor, "_run_hash_job", orig_hash)
                stack.callback(setattr, Executor, "validate_dynamic_job", orig_val)
                new = e3.build(root, proj.program, env={}, **kw)
            report["nbuilds"] += 1
            pre, post = graph_relations(ref.graph), graph_relations(new.graph)
            executed = new.executed()
            report["cone_log"] = {"ran": sorted(set(executed)), "held": state["held"], "validated": state["validated"]}
            bad = unjustified(executed, edited, pre, post)
            creators = file_creators(ref.graph)
            for l in bad:
                redecl = amended_static_redeclared(l, executed, pre, creators)
                sig = AMENDED_STATIC_SIGNATURE if redecl else "oracle:cone:restart:executed-outside-cone"
                report["failures"].append({"signature": sig, "detail": f"edited {edited}; executed {executed}; not justified: "
                                           f"{l} (amended static inputs declared again: {redecl})",
                                           "unjustified": [l], "redeclared_inputs": {l: redecl}, "executed": executed})
            if new.returncode != OK_RC or new.error:
                report["failures"].append({"signature": "oracle:cone:restart:amended-static:build-failed",
                                           "detail": f"rc {new.returncode} {new.error}"})
    except e3.E3Timeout as exc:
        report["timeout"] = f"{exc.args[0]} {exc.args[1] if len(exc.args) > 1 else ''}"
    except e3.E3Error as exc:
        report["timeout"] = f"E3Error: {exc}"
    return report


def build_kw(item: dict) -> dict:
    return {"resources": "tok:1", "njob": item.get("njob", 1), "timeout": item.get("timeout", 60)}


def run_case(item: dict) -> dict:
    """item: {"seed", "flavour": "restart"|"watch", "max_phases", "njob", optional "project",
    "history", "cone_edits", "skip_noop", "cone_schedule"}.  Returns a JSON-able report."""
    if item.get("kind") == "env_multi":
        return run_env_multi(item)
    if item.get("kind") == "absorbed":
        return run_absorbed(item)
    if item.get("kind") == "overtaken":
        return run_overtaken(item)
    if item.get("kind") == "amended_static":
        return run_amended_static(item)
    seed = item["seed"]
    flavour = item["flavour"]
    rng = random.Random(f"c04-e3-{seed}-{flavour}")
    if "project" in item:
        project = e3.Project.from_json(item["project"])
        history = copy.deepcopy(item["history"])
    else:
        project, history = e3_gen.gen_case(seed, max_phases=item.get("max_phases", 3),
                                           watch_safe=(flavour == "watch"))
        if item.get("shared_globs"):
            project, history = add_shared_globs(random.Random(f"c04-sg-{seed}"), project, history,
                                                item["shared_globs"])
    report = {"seed": seed, "flavour": flavour, "failures": [], "stats": {}, "nbuilds": 0,
              "project": project.to_json(), "history": history}
    stats = report["stats"]

    def count(key, n=1):
        stats[key] = stats.get(key, 0) + n

    def fail(sig, detail, extra=None):
        report["failures"].append({"signature": sig, "detail": detail, **(extra or {})})

    kw = build_kw(item)
    proj = project.clone()
    with tempfile.TemporaryDirectory(prefix="c04-") as root:
        proj.materialise(root)
        try:
            if flavour == "restart":
                _run_restart(item, rng, proj, history, root, kw, report, count, fail)
            else:
                _run_watch(item, rng, proj, history, root, kw, report, count, fail)
        except e3.E3Timeout as exc:
            # not a verdict: the caller retries the case alone with a longer timeout
            report["timeout"] = f"{exc.args[0]} {exc.args[1] if len(exc.args) > 1 else ''}"
        except e3.E3Error as exc:
            # the engine itself gave up (e.g. the watching director ended on its own): same handling
            report["timeout"] = f"E3Error: {exc}"
    return report


def _noop_variants(item, rng):
    return [] if item.get("skip_noop") else ["nochange", "samecontent"]


def _raw_label(description: str, pre: dict, post_labels: dict) -> str:
    """Reporter events carry Run.description = the label with control characters escaped for the terminal; map it back
    to the label of a step of the graph."""
    if description in pre or description in post_labels:
        return description
    try:
        from stepup.core.utils import escape_control_chars
    except ImportError:
        return description
    for label in list(pre) + list(post_labels):
        if escape_control_chars(label) == description:
            return label
    return description


# step labels (= commands) that a digest or a display routine may treat differently: a control character (tab), both
# kinds of quotes, non-ASCII, a very long command.  (A newline is left out: the canonical graph text is line based.)
SPECIAL_LABEL_SUFFIXES = ["\targ", " 'single' \"double\"", " \u00e9\u00fc\u6f22", " " + "x" * 300, "\twith\ttabs 'q' \u00e9"]


def project_shape(pre: dict) -> list:
    """Features of the recorded graph a cone rebuild starts from (for the distribution in the evidence)."""
    att = {l: i for l, i in pre.items() if not i["detached"]}
    plans = {l for l, i in att.items() if i["need"] == "PLAN"}
    feats = []
    if any(i["dyn_inputs"] for i in att.values()):
        feats.append("amended_inputs")
    if any(i["dyn_outputs"] for i in att.values()):
        feats.append("amended_outputs")
    if any(i["nglobs"] for i in att.values()):
        feats.append("globs")
    if any(i["env"] for i in att.values()):
        feats.append("env_vars")
    if any(any(ord(c) < 32 for c in l) for l in att):
        feats.append("label_with_control_character")
    if any(len(l) > 200 or any(ord(c) > 127 for c in l) or "'" in l or '"' in l for l in att):
        feats.append("label_long_quoted_or_non_ascii")
    if any(i["need"] == "OPTIONAL" and i["state"] == "PENDING" for i in att.values()):
        feats.append("optional_idle")
    if any(i["need"] == "OPTIONAL" and i["state"] == "SUCCEEDED" for i in att.values()):
        feats.append("optional_built")
    if len(plans) > 1:
        feats.append("nested_plans")
    return feats


def _cone_check(item, rng, proj, ref, rebuild, flavour, report, count, fail, root):
    pre = graph_relations(ref.graph)
    if "cone_edits" in item:
        edits, edited = item["cone_edits"]
    else:
        edits, edited = plan_source_edits(rng, proj, pre, env_edits=(flavour == "restart"))
    if not edits:
        return
    report["cone_edits"] = [edits, edited]
    schedule = item.get("cone_schedule", {"seed": rng.randint(0, 10 ** 6)} if rng.random() < 0.5 else None)
    report["cone_schedule"] = schedule
    apply_edits(proj, root, edits)
    new = rebuild(schedule)
    report["nbuilds"] += 1
    post = graph_relations(new.graph)
    executed = new.executed()
    skipped = sorted({_raw_label(e[1], pre, post_labels=graph_relations(new.graph)) for e in new.events if e[0] == "SKIP"})
    count("cone:rebuilds")
    count("cone:executed", len(executed))
    count("cone:skipped", len(skipped))
    count(f"cone:rc:{e3.rc_class(new.returncode)}")
    # distribution of the shapes the oracle reached: the graph before, what was edited, what ran / was skipped
    shape = project_shape(pre)
    count("cone:shape:" + ("+".join(shape) or "plain"))
    for feat in shape:
        count("cone:project_with:" + feat)
    paths, names = split_edited(edited)
    count(f"cone:edit:paths={min(len(paths), 3)},variables={len(names)}")
    if any(e["op"] == "script" for e in edits):
        count("cone:edit:plan_script_declares_a_new_consumer")
    both = {l: i for g in (pre, post) for l, i in g.items()}
    for what, labels in (("executed", set(executed)), ("skipped", set(skipped))):
        for l in labels:
            i = both.get(l)
            if i is None:
                continue
            if i["dyn_inputs"]:
                count(f"cone:{what}:step_with_amended_inputs")
            if i["nglobs"]:
                count(f"cone:{what}:glob_owner")
            if i["env"]:
                count(f"cone:{what}:step_tracking_variables")
            if i["need"] == "OPTIONAL":
                count(f"cone:{what}:optional_step")
            if i["need"] == "PLAN":
                count(f"cone:{what}:plan_step")
            if i["creator"] not in (None, "./plan.py"):
                count(f"cone:{what}:step_of_nested_plan")
    if item.get("keep_graphs"):
        report["cone_graphs"] = [ref.graph, new.graph]
    report["cone_log"] = {"ran": sorted(set(executed)), "skipped": skipped,
                          "changed": sorted(p for p in set(ref.files) | set(new.files)
                                            if ref.files.get(p) != new.files.get(p))}
    if new.error:
        fail(f"oracle:cone:{flavour}:serve-raised", new.error)
    bad = unjustified(executed, edited, pre, post)
    if executed:
        count("cone:nontrivial")
    key = (tuple(sorted(set(executed))), tuple(sorted(edited)))
    report.setdefault("cone_keys", []).append([list(key[0]), list(key[1])])
    if bad:
        # the circumstance of the known finding D38 and nothing else goes under its signature
        needed_by = {l: optional_upstream_shape(l, executed, pre, post) for l in bad}
        d38 = sorted(l for l in bad if needed_by[l])
        creators = file_creators(ref.graph)
        redecl = {l: amended_static_redeclared(l, executed, pre, creators) for l in bad if not needed_by[l]}
        ams = sorted(l for l in redecl if redecl[l])
        rest = sorted(l for l in bad if not needed_by[l] and not redecl.get(l))
        if ams:
            count("cone:amended-static-input-redeclared:validated-before-reconfirmed")
            fail(AMENDED_STATIC_SIGNATURE,
                 f"({flavour}) edited {edited}; executed {executed}; steps with an amended STATIC input that an executed "
                 f"step declares again, executed although nothing they read changed: { {l: redecl[l] for l in ams} }",
                 {"edited": edited, "executed": executed, "unjustified": ams, "redeclared_inputs": {l: redecl[l] for l in ams},
                  "flavour": flavour})
        if d38:
            count("cone:optional-step-needed-by-an-edited-plan")
            fail(OPTIONAL_UPSTREAM_SIGNATURE,
                 f"({flavour}) edited {edited}; executed {executed}; idle OPTIONAL steps executed because a step "
                 f"declared or redefined by the rebuild consumes their output: { {l: needed_by[l] for l in d38} }",
                 {"edited": edited, "executed": executed, "unjustified": d38, "needed_by": needed_by,
                  "flavour": flavour})
        if rest:
            fail(f"oracle:cone:{flavour}:executed-outside-cone",
                 f"edited {edited}; executed {executed}; not justified by any clause: {rest}",
                 {"edited": edited, "executed": executed, "unjustified": rest})
    if new.returncode == OK_RC and not new.error:
        causeless = rerun_without_cause(executed, edited, pre, post, ref.files, new.files, report["stats"],
                                        declared_steps(proj.program))
        count("cone:skip_rule_checked", len(set(executed)))
        # A recycled step of a RERUN plan (a creator up its chain is executed) is "declared by an executed step": the
        # property text allows its execution.  In the directed families (deterministic, no concurrent producer) the
        # stricter rule stays; in random cases such an execution is the consequence of finding
        # C04-incomplete-stored-hash (the stored hash of a step that ran while a producer was being re-checked omits
        # that input) and goes under its own signature.
        recycled = [] if item.get("strict_recycled") else \
            sorted(l for l in causeless if _ancestors(l, pre) & set(executed))
        causeless = [l for l in causeless if l not in recycled]
        if recycled:
            count("cone:recycled-step-of-a-rerun-plan-executed-with-unchanged-inputs")
            fail(INCOMPLETE_HASH_SIGNATURE,
                 f"({flavour}) edited {edited}; executed {executed}; recycled steps of a rerun plan whose inputs have the "
                 f"same content as before, executed: {recycled}",
                 {"edited": edited, "executed": executed, "causeless": recycled, "flavour": flavour})
        if causeless:
            fail(f"oracle:cone:{flavour}:executed-with-unchanged-inputs",
                 f"edited {edited}; executed {executed}; steps declared as before whose inputs have the same content "
                 f"as before the rebuild and that consume no edited path: {causeless}",
                 {"edited": edited, "executed": executed, "causeless": causeless})


def _env_aba_check(item, rng, proj, ref, build, report, count, fail):
    """A tracked variable goes A -> B -> A over two restarts: the outputs must be those built with
    A again (commands are functions of their inputs and environment).  Returns the last result."""
    names = sorted({v for node in e3.parse_graph(ref.graph).values() for v in node["props"].get("using_env", [])})
    if not names:
        return ref
    name = rng.choice(names)
    a = proj.env.get(name)
    proj.env[name] = "c04_b"
    mid = build()
    proj.env[name] = a
    if mid.returncode != OK_RC or mid.error:
        return build()
    back = build()
    count("env:aba")
    if back.returncode != OK_RC or back.error:
        return back
    stale = sorted(p for p in set(ref.files) | set(back.files) if ref.files.get(p) != back.files.get(p))
    if stale:
        fail("oracle:env:restart:aba-output-stale",
             f"{name}: {a!r} -> 'c04_b' -> {a!r}; files that differ from the build with {a!r}: {stale}; "
             f"executed on the way back: {back.executed()}", {"variable": name})
    elif mid.executed():
        count("env:aba:nontrivial")
    return back


def _run_restart(item, rng, proj, history, root, kw, report, count, fail):
    def build(schedule=None):
        report["nbuilds"] += 1
        return e3.build(root, proj.program, env=dict(proj.env), schedule=schedule, **kw)

    ref = build()
    report["first_ran"] = sorted(set(ref.executed()))
    report["first_files"] = sorted(ref.files)
    phases = list(history) + [None]
    for phase in phases:
        count(f"rc:{e3.rc_class(ref.returncode)}:{ref.returncode}")
        if ref.returncode == OK_RC and not ref.error:
            for variant in _noop_variants(item, rng):
                touched = ()
                if variant == "samecontent":
                    rewrites = same_content_rewrites(rng, proj)
                    if not rewrites:
                        continue
                    do_same_content(proj, root, rewrites)
                    touched = tuple(p for p, _ in rewrites)
                new = build()
                count(f"noop:restart:{variant}")
                devs = compare_noop(ref, new, "restart", variant, touched)
                for sig, detail in devs:
                    fail(sig, detail, {"after_phase": phases.index(phase)})
                if devs:
                    return
                ref = new
        if phase is None:
            break
        for edit in phase.get("edits", []):
            e3.apply_edit(proj, root, edit)
        ref = build()
    if ref.returncode == OK_RC and not ref.error and not item.get("skip_env") and not report["failures"]:
        ref = _env_aba_check(item, rng, proj, ref, build, report, count, fail)
    if ref.returncode == OK_RC and not ref.error and not item.get("skip_cone"):
        _cone_check(item, rng, proj, ref, build, "restart", report, count, fail, root)


def _run_watch(item, rng, proj, history, root, kw, report, count, fail):
    with e3.WatchSession(root, proj.program, env=dict(proj.env), **kw) as ws:
        report["nbuilds"] += 1
        ref = ws.first()
        report["first_ran"] = sorted(set(ref.executed()))
        report["first_files"] = sorted(ref.files)
        phases = list(history) + [None]

        def rebuild(schedule=None):
            report["nbuilds"] += 1
            ws.program = proj.program
            ws.sync()
            return ws.rebuild()

        for phase in phases:
            count(f"rc:{e3.rc_class(ref.returncode)}:{ref.returncode}")
            if ref.returncode == OK_RC and not ref.error:
                for variant in _noop_variants(item, rng):
                    touched = ()
                    if variant == "samecontent":
                        rewrites = same_content_rewrites(rng, proj)
                        if not rewrites:
                            continue
                        do_same_content(proj, root, rewrites)
                        touched = tuple(p for p, _ in rewrites)
                    new = rebuild()
                    count(f"noop:watch:{variant}")
                    devs = compare_noop(ref, new, "watch", variant, touched)
                    for sig, detail in devs:
                        fail(sig, detail, {"after_phase": phases.index(phase)})
                    if devs:
                        return
                    ref = new
            if phase is None:
                break
            for edit in phase.get("edits", []):
                if edit["op"] == "setenv":
                    continue
                e3.apply_edit(proj, root, edit)
            ref = rebuild()
        if ref.returncode == OK_RC and not ref.error and not item.get("skip_cone"):
            _cone_check(item, rng, proj, ref, rebuild, "watch", report, count, fail, root)


# ---------------------------------------------------------------------------------------------
# Minimisation of a failing case
# ---------------------------------------------------------------------------------------------


def minimise(item: dict, report: dict, signature: str, budget: int = 24) -> tuple[dict, dict]:
    """Greedy reduction of the history (drop phases, then single edits) keeping the signature."""
    best = dict(item, project=report["project"], history=copy.deepcopy(report["history"]))
    for key in ("cone_edits", "cone_schedule"):
        if key in report:
            best[key] = report[key]
    best_report = report
    tries = 0

    def still_fails(cand):
        nonlocal tries
        tries += 1
        rep = run_case(cand)
        return rep if any(f["signature"] == signature for f in rep["failures"]) else None

    changed = True
    while changed and tries < budget:
        changed = False
        hist = best["history"]
        for i in range(len(hist) - 1, -1, -1):
            if tries >= budget:
                break
            cand = dict(best, history=hist[:i] + hist[i + 1:])
            rep = still_fails(cand)
            if rep is not None:
                best, best_report, changed = cand, rep, True
                break
        if changed:
            continue
        for i, phase in enumerate(hist):
            edits = phase.get("edits", [])
            for j in range(len(edits)):
                if tries >= budget or len(edits) <= 1:
                    break
                new_hist = copy.deepcopy(hist)
                del new_hist[i]["edits"][j]
                cand = dict(best, history=new_hist)
                rep = still_fails(cand)
                if rep is not None:
                    best, best_report, changed = cand, rep, True
                    break
            if changed:
                break
    return best, best_report
