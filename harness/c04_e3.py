"""C04, E3 level: the property itself on the real director (harness/e3.py).

For one generated project + history (harness/e3_gen.py), in restart or watch flavour:

* after EVERY build of the history that ends with return code 0:
    - rebuild with nothing changed and require: no command executed, every file (sources and
      outputs) has the same content, mtime and inode, the canonical graph text (digests included)
      is identical, the return code is 0 again;
    - the same after rewriting some source files with identical content (touch, delete +
      re-create): their re-hash results are unchanged.
* after the last build: edit a random subset of source files (content change, deletion, a new
  file that matches a registered pattern, same-content rewrite), rebuild under a random schedule,
  and require every executed command to belong to a step that consumes an edited file or owns a
  glob pattern that matches it, consumes an output of another executed step, or was created by an
  executed step (relations read from the canonical graph before and after the rebuild).

All functions are module level and deterministic for a given item, so they can run under
e3.pool_map and be replayed from the JSON witness.
"""
from __future__ import annotations

import copy
import os
import random
import re
import tempfile

from . import e3, e3_gen

OK_RC = 0


# ---------------------------------------------------------------------------------------------
# Graph helpers (canonical graph text of e3)
# ---------------------------------------------------------------------------------------------


def _strip(key: str) -> str:
    key = key.strip()
    if key.endswith("[dynamic]"):
        key = key[: -len("[dynamic]")].strip()
    if key.startswith("(") and key.endswith(")"):
        key = key[1:-1]
    return key


def graph_relations(graph_text: str) -> dict:
    """step label -> {"inputs": set(paths), "outputs": set(paths), "creator": label|None,
    "nglobs": [patterns], "detached": bool}"""
    steps = {}
    for raw_key, node in e3.parse_graph(graph_text).items():
        key = _strip(raw_key)
        if not key.startswith("step:"):
            continue
        rel = node["rel"]
        info = {"inputs": set(), "outputs": set(), "creator": None,
                "nglobs": list(node["props"].get("nglob", [])),
                "detached": raw_key.strip().startswith("("), "dyn_inputs": set()}
        for k0 in rel.get("source", []):
            k = _strip(k0)
            if k.startswith("file:"):
                info["inputs"].add(k[5:])
                if k0.strip().endswith("[dynamic]"):
                    info["dyn_inputs"].add(k[5:])
        for k in rel.get("sink", []):
            k = _strip(k)
            if k.startswith("file:"):
                info["outputs"].add(k[5:])
        for k in rel.get("creator", []):
            k = _strip(k)
            if k.startswith("step:"):
                info["creator"] = k[5:]
        steps[key[5:]] = info
    return steps


def parse_nglob_line(line: str) -> tuple[str, dict]:
    """``"pattern (name=sub name2=sub2)"`` as printed by Step.format_properties -> (pattern, subs)."""
    line = line.strip()
    if line.endswith(")") and " (" in line:
        pattern, _, rest = line.rpartition(" (")
        subs = {}
        for item in rest[:-1].split(" "):
            if "=" not in item:
                return line, {}
            name, _, sub = item.partition("=")
            subs[name] = sub
        return pattern, subs
    return line, {}


def _glob_matches(line: str, path: str) -> bool:
    from stepup.core.nglob import NamedGlob
    try:
        pattern, subs = parse_nglob_line(line)
        return NamedGlob(pattern, subs)._regex.fullmatch(path) is not None
    except Exception:  # noqa: BLE001  an unparsable pattern line matches conservatively
        return True


def unjustified(executed: list, edited: list, pre: dict, post: dict) -> list:
    """Executed labels that satisfy none of the clauses of the property."""
    exe = set(executed)
    bad = []
    for label in sorted(exe):
        infos = [g[label] for g in (pre, post) if label in g]
        inputs = set().union(*[i["inputs"] for i in infos]) if infos else set()
        if inputs & set(edited):
            continue                                            # consumes an edited file
        if any(_glob_matches(pat, p) for i in infos for pat in i["nglobs"] for p in edited):
            continue                                            # matches it with a glob pattern
        ok = False
        for other in exe - {label}:
            outs = set().union(*[g[other]["outputs"] for g in (pre, post) if other in g] or [set()])
            if outs & inputs:
                ok = True                                       # consumes an output of an executed step
                break
        if ok:
            continue
        if any(i["creator"] in exe for i in infos if i["creator"] is not None):
            continue                                            # declared by an executed step
        bad.append(label)
    return bad


def rerun_without_cause(executed: list, edited: list, pre: dict, post: dict, files_before: dict,
                        files_after: dict) -> list:
    """The rule behind the skip check: a step whose inputs did not change is skipped, not executed.
    Executed labels that existed before with the same declared inputs and outputs, no amended input, all outputs
    on disk, consume no edited path (nor
    match one with a glob pattern) and none of whose input files has another content after the rebuild than
    before it.  (Tracked variables do not change in the cone phase.)  Stricter than the clauses of the property:
    a step behind an executed step that reproduced its output identically, or behind a skipped step, or a
    recycled step of a rerun plan, has to be skipped."""
    bad = []
    for label in sorted(set(executed)):
        if label not in pre or label not in post or pre[label]["detached"]:
            continue                                            # new, dropped, or was not part of the build
        a, b = pre[label], post[label]
        if a["inputs"] != b["inputs"] or a["outputs"] != b["outputs"]:
            continue                                            # declared differently
        inputs = a["inputs"]
        if any(p not in files_before for p in a["outputs"]):
            continue                                            # never built (or reverted): nothing to skip to
        if inputs & set(edited):
            continue
        if any(_glob_matches(pat, p) for i in (a, b) for pat in i["nglobs"] for p in edited):
            continue
        if any(files_before.get(p) != files_after.get(p) for p in inputs):
            continue                                            # an input has other content now
        # Steps with AMENDED inputs are left to the clauses of the property: while a producer runs, or while a
        # rerun plan has not yet re-declared the sub-plan that owns the producer, such a step may be handed out
        # for validation of its dynamic inputs, finds one unavailable, loses its hash (validate_dynamic_job ->
        # _reset_step_to_pending) and is executed later; whether that happens depends on the schedule.
        if a["dyn_inputs"] or b["dyn_inputs"]:
            continue
        bad.append(label)
    return bad


def graph_diff_kinds(a: str, b: str) -> list:
    """Kinds of difference between two canonical graph texts, for the failure signature."""
    na, nb = e3.parse_graph(a), e3.parse_graph(b)
    kinds = set()
    for key in set(na) | set(nb):
        kind = _strip(key).split(":", 1)[0]
        if key not in na:
            kinds.add(f"{kind}-node-added")
        elif key not in nb:
            kinds.add(f"{kind}-node-removed")
        else:
            pa, pb = na[key]["props"], nb[key]["props"]
            for prop in set(pa) | set(pb):
                if pa.get(prop) != pb.get(prop):
                    kinds.add(f"{kind}-{prop}")
            ra, rb = na[key]["rel"], nb[key]["rel"]
            for role in set(ra) | set(rb):
                if sorted(ra.get(role, [])) != sorted(rb.get(role, [])):
                    kinds.add(f"{kind}-{role}")
    return sorted(kinds)


# ---------------------------------------------------------------------------------------------
# No-op comparison
# ---------------------------------------------------------------------------------------------


def compare_noop(ref: e3.BuildResult, new: e3.BuildResult, flavour: str, variant: str,
                 touched: tuple = ()) -> list:
    """Deviations of a rebuild with nothing changed: list of (signature, detail)."""
    devs = []
    tag = f"oracle:noop:{flavour}:{variant}"
    if new.error:
        devs.append((f"{tag}:serve-raised", new.error))
    if new.commands:
        devs.append((f"{tag}:command-executed", f"executed {new.executed()}"))
    if new.returncode != ref.returncode:
        devs.append((f"{tag}:returncode-changed", f"{ref.returncode} -> {new.returncode}"))
    if new.graph != ref.graph:
        kinds = graph_diff_kinds(ref.graph, new.graph)
        devs.append((f"{tag}:graph-changed:" + ",".join(kinds), f"graph differs in {kinds}"))
    paths = set(ref.files) | set(new.files)
    created = sorted(p for p in paths if p not in ref.files)
    removed = sorted(p for p in paths if p not in new.files)
    changed = sorted(p for p in paths if p in ref.files and p in new.files and ref.files[p] != new.files[p])
    rewritten = sorted(p for p in paths if p in ref.files and p in new.files and p not in touched
                       and ref.files[p] == new.files[p]
                       and ref.file_meta.get(p, [0, 0])[:2] != new.file_meta.get(p, [0, 0])[:2])
    if created:
        devs.append((f"{tag}:file-created", f"{created}"))
    if removed:
        devs.append((f"{tag}:file-removed", f"{removed}"))
    if changed:
        devs.append((f"{tag}:file-content-changed", f"{changed}"))
    if rewritten:
        devs.append((f"{tag}:file-rewritten", f"same content, new mtime/inode: {rewritten}"))
    return devs


# ---------------------------------------------------------------------------------------------
# Edits for the cone part
# ---------------------------------------------------------------------------------------------


def plan_source_edits(rng: random.Random, proj: e3.Project, graph: dict) -> tuple[list, list]:
    """Choose edits of source files only.  Returns (e3 edits, edited paths)."""
    sources = sorted(p for p in proj.sources if not p.endswith("/"))
    scripts = sorted(p for p in proj.program.get("scripts", {}) if p != "plan.py")
    if not sources:
        return [], []
    edits, edited = [], []
    k = rng.choice([1, 1, 1, 2, 2, 3])
    for p in rng.sample(sources, min(k, len(sources))):
        kind = rng.choices(["change", "change_same_size", "recreate_same", "delete", "touch"],
                           [50, 15, 12, 13, 10])[0]
        old = proj.sources[p]
        if kind == "change":
            edits.append({"op": "write", "path": p, "content": old + "edited for the cone check\n"})
        elif kind == "change_same_size":
            new = old[:-2] + ("X" if old[-2:-1] != "X" else "Y") + "\n" if len(old) >= 2 else "Z"
            edits.append({"op": "write", "path": p, "content": new})
        elif kind == "recreate_same":
            edits.append({"op": "delete", "path": p})
            edits.append({"op": "write", "path": p, "content": old})
        elif kind == "delete":
            edits.append({"op": "delete", "path": p})
        else:
            edits.append({"op": "touch", "path": p})
        edited.append(p)
    # a new file that an existing pattern matches (glob clause of the property)
    patterns = sorted({pat for info in graph.values() for pat in info["nglobs"]})
    if patterns and rng.random() < 0.35:
        pat, subs = parse_nglob_line(rng.choice(patterns))

        def fill(m):
            sub = subs.get(m.group(1), "")
            if rng.random() < 0.3:          # sometimes a value that only ANOTHER registration accepts
                return rng.choice(["5", "k", "Q"])
            return {"[0-9]": rng.choice("3456789"), "[a-z]": rng.choice("cdefgh")}.get(sub, rng.choice(["5", "k"]))
        new = re.sub(r"\$\{\*(\w+)\}", fill, pat)
        new = new.replace("*", f"n{rng.randint(100, 999)}")
        if "*" not in new and "?" not in new and "[" not in new and "$" not in new and new not in proj.sources:
            edits.append({"op": "write", "path": new, "content": f"content of {new} v0\n"})
            edited.append(new)
    # a script is a source file of its step: change its bytes, not its behaviour
    if scripts and rng.random() < 0.15:
        p = rng.choice(scripts)
        edits.append({"op": "rawappend", "path": p})
        edited.append(p)
    return edits, edited


def apply_edits(proj: e3.Project, root: str, edits: list):
    for ed in edits:
        if ed["op"] == "rawappend":
            full = os.path.join(root, ed["path"])
            text = e3._read_text(full)
            if text is not None:
                e3.write_file(full, text + "\n")
        else:
            e3.apply_edit(proj, root, ed)


def same_content_rewrites(rng: random.Random, proj: e3.Project) -> list:
    sources = sorted(p for p in proj.sources if not p.endswith("/"))
    if not sources:
        return []
    out = []
    for p in rng.sample(sources, min(len(sources), rng.randint(1, 3))):
        out.append((p, rng.choice(["touch", "rewrite", "recreate"])))
    return out


def do_same_content(proj: e3.Project, root: str, rewrites: list):
    for p, how in rewrites:
        full = os.path.join(root, p)
        if not os.path.exists(full):
            continue
        if how == "touch":
            e3._bump_mtime(full)
        elif how == "rewrite":
            e3.write_file(full, proj.sources[p])
        else:
            st = os.stat(full)
            os.remove(full)
            e3.write_file(full, proj.sources[p], old_mtime_ns=st.st_mtime_ns)
            os.chmod(full, st.st_mode & 0o7777)


# ---------------------------------------------------------------------------------------------
# Several glob registrations that share one pattern string but differ in their sub-patterns
# ---------------------------------------------------------------------------------------------

SHARED_GLOB_VARIANTS = ("one_plan", "static_and_glob", "two_steps", "one_plan+static_and_glob")


def _glob_unit(pattern: str, subs: dict, prefix: str, static: bool) -> dict:
    return {"op": "glob", "pattern": pattern, "subs": dict(subs), "static": static, "foreach": [
        {"op": "step", "label": "cp {m} " + prefix + "{stem}.out", "inp": ["{m}"], "out": [prefix + "{stem}.out"]}]}


def shared_glob_actions(variant: str) -> tuple[list, dict]:
    """(actions appended to plan.py, extra scripts) for a variant.  Every variant registers one
    pattern string at least twice with genuinely different match sets."""
    main, scripts = [], {}
    for part in variant.split("+"):
        if part == "one_plan":
            pat = "gs/part_${*key}.txt"
            main.append(_glob_unit(pat, {"key": "[0-9]"}, "gsd_", True))
            main.append(_glob_unit(pat, {"key": "[a-z]"}, "gsl_", True))
        elif part == "static_and_glob":
            pat = "gx/x_${*n}.txt"
            main.append({"op": "static", "paths": [pat]})
            main.append(_glob_unit(pat, {"n": "[0-9]"}, "gxd_", False))
        elif part == "two_steps":
            pat = "gt/part_${*key}.txt"
            scripts["q1.py"] = [_glob_unit(pat, {"key": "[0-9]"}, "gtd_", True)]
            scripts["q2.py"] = [_glob_unit(pat, {"key": "[a-z]"}, "gtl_", True)]
            main.append({"op": "static", "paths": ["q1.py", "q2.py"]})
            main.append({"op": "plan", "label": "./q1.py"})
            main.append({"op": "plan", "label": "./q2.py"})
        else:
            raise ValueError(part)
    return main, scripts


def shared_glob_sources(variant: str) -> dict:
    out = {}
    for part in variant.split("+"):
        d, stem = {"one_plan": ("gs/", "part_"), "static_and_glob": ("gx/", "x_"), "two_steps": ("gt/", "part_")}[part]
        for key in ("1", "2", "a", "b", "Z"):
            out[f"{d}{stem}{key}.txt"] = f"content of {d}{stem}{key}.txt v0\n"
    return out


def inject_shared_globs(program: dict, variant: str) -> dict:
    program = copy.deepcopy(program)
    main, scripts = shared_glob_actions(variant)
    program.setdefault("scripts", {}).setdefault("plan.py", [])
    program["scripts"]["plan.py"] = list(program["scripts"]["plan.py"]) + main
    program["scripts"].update(scripts)
    return program


def add_shared_globs(rng: random.Random, project: e3.Project, history: list, variant: str):
    """The same project and history with the shared-pattern registrations in every version of the
    plan, their source files, and a few edits of those files spread over the phases."""
    project = project.clone()
    history = copy.deepcopy(history)
    project.sources.update(shared_glob_sources(variant))
    project.program = inject_shared_globs(project.program, variant)
    for phase in history:
        for edit in phase.get("edits", []):
            if edit["op"] == "program":
                edit["program"] = inject_shared_globs(edit["program"], variant)
    dirs = sorted({p.split("/")[0] + "/" for p in shared_glob_sources(variant)})
    live = dict(shared_glob_sources(variant))
    counter = 3
    for phase in history:
        if rng.random() < 0.5:
            d = rng.choice(dirs)
            stem = "x_" if d == "gx/" else "part_"
            kind = rng.choice(["add_digit", "add_letter", "delete", "change"])
            mine = sorted(p for p in live if p.startswith(d))
            if kind == "add_digit" and counter <= 9:
                p = f"{d}{stem}{counter}.txt"
                counter += 1
                live[p] = f"content of {p} v0\n"
                phase.setdefault("edits", []).append({"op": "write", "path": p, "content": live[p]})
            elif kind == "add_letter":
                p = f"{d}{stem}{rng.choice('cdefgh')}.txt"
                live[p] = f"content of {p} v0\n"
                phase.setdefault("edits", []).append({"op": "write", "path": p, "content": live[p]})
            elif kind == "delete" and len(mine) > 2:
                p = rng.choice(mine)
                del live[p]
                phase.setdefault("edits", []).append({"op": "delete", "path": p})
            elif mine:
                p = rng.choice(mine)
                live[p] = live[p] + "changed\n"
                phase.setdefault("edits", []).append({"op": "write", "path": p, "content": live[p]})
    return project, history


# ---------------------------------------------------------------------------------------------
# One case
# ---------------------------------------------------------------------------------------------


# ---------------------------------------------------------------------------------------------
# Fixed witness (finding C04-optional-upstream, Coq: C04_full_refuted / C04_cone_idle_optional_clause_needed)
# ---------------------------------------------------------------------------------------------
OPTIONAL_UPSTREAM_SIGNATURE = "oracle:cone:optional-step-needed-by-an-edited-plan:executed-outside-cone"


def optional_upstream_item(flavour: str) -> dict:
    """plan.py declares a second plan ./p2.py and an OPTIONAL step tu (-> pu.txt) that nothing needs; the first
    build leaves tu PENDING.  p2.py (a source file) is edited and now declares tx, which consumes pu.txt: the
    rebuild executes tu, which consumes no edited file and no output of an executed step and was declared by
    plan.py, which is not rerun."""
    plan = [{"op": "static", "paths": ["p2.py"]}, {"op": "plan", "label": "./p2.py"},
            {"op": "step", "label": "tu", "inp": [], "out": ["pu.txt"], "need": "OPTIONAL"}]
    project = {"sources": {}, "program": {"scripts": {"plan.py": plan, "p2.py": []}, "commands": {}}, "env": {}}
    newp2 = [{"op": "step", "label": "tx", "inp": ["pu.txt"], "out": ["rx.txt"]}]
    return {"seed": 1, "flavour": flavour, "max_phases": 1, "njob": 1, "project": project, "history": [],
            "cone_edits": [[{"op": "script", "path": "p2.py", "actions": newp2}], ["p2.py"]],
            "cone_schedule": None}


def run_optional_upstream(flavour: str) -> dict:
    """Replay the witness on the real director.  Returns {"reproduced": bool, "report": ...}."""
    rep = run_case(optional_upstream_item(flavour))
    hit = [f for f in rep["failures"] if f["signature"] == f"oracle:cone:{flavour}:executed-outside-cone"
           and f.get("unjustified") == ["tu"]]
    other = [f for f in rep["failures"] if f not in hit]
    return {"reproduced": bool(hit), "other": other, "report": rep}


# ---------------------------------------------------------------------------------------------
# Several tracked environment variables per step, several changed at once, a subset reverted
# ---------------------------------------------------------------------------------------------
ENV_MULTI_NAMES = ["VA", "VB", "VC", "VD"]


def gen_env_multi(rng: random.Random) -> tuple[e3.Project, list]:
    """A project whose steps track 2-4 variables each (declared with the step; one script step may
    amend a further one), and a history of environments: several variables change at once, later a
    proper subset of them goes back to an earlier value while the others keep the new one
    ((A,B) -> (A',B') -> (A,B') and the like)."""
    names = ENV_MULTI_NAMES
    nsteps = rng.randint(1, 3)
    plan = [{"op": "static", "paths": ["src.txt"]}]
    commands, scripts = {}, {}
    used = set()
    for i in range(nsteps):
        env = sorted(rng.sample(names, rng.choice([2, 2, 3, 4]) if i == 0 else rng.choice([1, 2, 3])))
        used.update(env)
        label = f"te{i}"
        plan.append({"op": "step", "label": label, "inp": ["src.txt"] if rng.random() < 0.6 else [],
                     "out": [f"oe{i}.txt"], "env": env})
        commands[label] = [{"op": "getenv", "name": n} for n in env] + [{"op": "auto"}]
    if rng.random() < 0.45:
        decl = sorted(rng.sample(names, rng.choice([1, 2])))
        amend = sorted(rng.sample([n for n in names if n not in decl], rng.choice([1, 2])))
        used.update(decl + amend)
        scripts["we.py"] = ([{"op": "amend", "env": amend}] + [{"op": "getenv", "name": n} for n in decl + amend]
                            + [{"op": "auto"}])
        plan += [{"op": "static", "paths": ["we.py"]},
                 {"op": "run", "label": "./we.py", "inp": [], "out": ["owe.txt"], "env": decl}]
    scripts["plan.py"] = plan
    env0 = {n: (None if rng.random() < 0.15 else f"{n.lower()}0") for n in names}
    project = e3.Project({"src.txt": "source v0\n"}, {"scripts": scripts, "commands": commands}, dict(env0))
    used = sorted(used)
    envs, cur, counter = [], dict(env0), 0
    seen = {n: [env0[n]] for n in names}
    # phase 1: at least two variables change at once
    first = rng.sample(used, min(len(used), rng.choice([2, 2, 3])))
    for n in first:
        counter += 1
        cur[n] = f"{n.lower()}{counter}"
        seen[n].append(cur[n])
    envs.append(dict(cur))
    # phase 2: a proper, non-empty subset of them goes back; the others keep the new value
    back = rng.sample(first, rng.randint(1, max(1, len(first) - 1)))
    for n in back:
        cur[n] = env0[n]
    envs.append(dict(cur))
    for _ in range(rng.randint(0, 2)):
        for n in rng.sample(used, rng.randint(1, min(3, len(used)))):
            if rng.random() < 0.6:
                cur[n] = rng.choice(seen[n])
            else:
                counter += 1
                cur[n] = f"{n.lower()}{counter}"
                seen[n].append(cur[n])
        envs.append(dict(cur))
    return project, envs


def run_env_multi(item: dict) -> dict:
    """item: {"seed", optional "project", "envs"}.  Restart flavour only (a watching director does not see
    the environment of the shell change).  After the start in every environment of the history: return code 0,
    every file equal to a from-scratch build in that environment, and a rebuild with nothing changed does
    nothing."""
    seed = item["seed"]
    rng = random.Random(f"c04-envmulti-{seed}")
    if "project" in item:
        project, envs = e3.Project.from_json(item["project"]), copy.deepcopy(item["envs"])
    else:
        project, envs = gen_env_multi(rng)
    report = {"seed": seed, "flavour": "restart", "kind": "env_multi", "failures": [], "stats": {}, "nbuilds": 0,
              "project": project.to_json(), "envs": envs}
    stats = report["stats"]

    def count(key, n=1):
        stats[key] = stats.get(key, 0) + n

    def fail(sig, detail, extra=None):
        report["failures"].append({"signature": sig, "detail": detail, **(extra or {})})

    kw = build_kw(item)
    proj = project.clone()
    try:
        with tempfile.TemporaryDirectory(prefix="c04-env-") as root:
            proj.materialise(root)

            def build():
                report["nbuilds"] += 1
                return e3.build(root, proj.program, env=dict(proj.env), **kw)

            ref = build()
            if ref.returncode != OK_RC or ref.error:
                count(f"envmulti:first-build-rc:{ref.returncode}")
                return report
            for k, env in enumerate(envs):
                changed = sorted(n for n in env if env[n] != proj.env.get(n))
                proj.env = dict(env)
                inc = build()
                count("envmulti:restarts")
                count(f"envmulti:vars_changed_at_once:{len(changed)}")
                if inc.error or inc.returncode != OK_RC:
                    fail("oracle:env:restart:multi-var-build-failed",
                         f"environment {k} ({changed} changed): rc {inc.returncode} {inc.error}", {"phase": k})
                    return report
                scratch = e3.from_scratch(proj, **kw)
                report["nbuilds"] += 1
                stale = sorted(p for p in set(inc.files) | set(scratch.files) if inc.files.get(p) != scratch.files.get(p))
                if stale:
                    fail("oracle:env:restart:multi-var-output-stale",
                         f"environment {k}: variables changed since the previous start {changed}; files that differ "
                         f"from a from-scratch build in this environment: {stale}; executed {inc.executed()}",
                         {"phase": k, "changed": changed, "stale": stale})
                    return report
                if inc.executed():
                    count("envmulti:nontrivial")
                # A rebuild with nothing changed: after the last environment always, in between only sometimes
                # (it makes the next start compare against freshly recorded values and so hides a start that
                # recorded only part of what it saw).
                if k == len(envs) - 1 or rng.random() < 0.3:
                    again = build()
                    count("noop:restart:envmulti")
                    devs = compare_noop(inc, again, "restart", "nochange")
                    seen_changed = [e[1] for e in again.events if e[0] == "UPDATED"]
                    if seen_changed:
                        devs.append(("oracle:noop:restart:nochange:variable-reported-changed",
                                     f"the start reports changes although nothing changed: {seen_changed}"))
                    for sig, detail in devs:
                        fail(sig, f"after the start in environment {k}: " + detail, {"phase": k})
                    if devs:
                        return report
    except e3.E3Timeout as exc:
        report["timeout"] = f"{exc.args[0]} {exc.args[1] if len(exc.args) > 1 else ''}"
    except e3.E3Error as exc:
        report["timeout"] = f"E3Error: {exc}"
    return report


# ---------------------------------------------------------------------------------------------
# Edits that are absorbed by an identically rebuilt output; steps that track injected variables
# ---------------------------------------------------------------------------------------------
# Variables the director injects into (or overrides in) the environment of every step: their value in
# Executor.base_env differs from os.environ.  (STEPUP_DIRECTOR_SOCKET changes with every start: not used.)
INJECTED_ENV = ["SOURCE_DATE_EPOCH", "STEPUP_ROOT", "STEPUP_BUILD_LOG_LEVEL"]


def gen_absorbed(rng: random.Random) -> tuple[e3.Project, list, list, str]:
    """Project, cone edits, edited paths, variant.
    chain:  sources x<i>.txt; an absorber ta<i> reads x<i>.txt and writes a CONSTANT a<i>.out; behind it a chain
            tb<i>_0 -> tb<i>_1 -> ... of steps that track 0-2 variables out of the injected ones and VA; next to it
            sometimes td (x0.txt -> d.out, content depends on the input) with a consumer te.  The edit changes the
            sources: the absorbers run and reproduce their outputs, everything behind them is checked and skipped.
    nested: the same steps are declared by a sub-plan ./p2.py of plan.py; the edit appends a byte to plan.py: the
            plan is rerun and declares everything as before; ./p2.py and its steps are recycled, checked, skipped."""
    variant = rng.choice(["chain", "chain", "nested"])
    nsrc = rng.randint(1, 2)
    sources = {f"x{i}.txt": f"source {i} v0\n" for i in range(nsrc)}
    pool = INJECTED_ENV + ["VA"]
    decl = [{"op": "static", "paths": sorted(sources)}]
    commands = {}

    def tracked():
        k = rng.choice([0, 1, 1, 2])
        env = sorted(rng.sample(pool, k))
        if rng.random() < 0.7 and not set(env) & set(INJECTED_ENV):
            env = sorted(set(env) | {rng.choice(INJECTED_ENV)})
        return env

    def step(label, inp, out, env):
        a = {"op": "step", "label": label, "inp": inp, "out": out}
        if env:
            a["env"] = env
        decl.append(a)
        commands[label] = [{"op": "getenv", "name": n} for n in env] + [{"op": "auto"}]

    for i in range(nsrc):
        decl.append({"op": "step", "label": f"ta{i}", "inp": [f"x{i}.txt"], "out": [f"a{i}.out"]})
        commands[f"ta{i}"] = [{"op": "read", "paths": [f"x{i}.txt"], "required": True},
                              {"op": "write", "path": f"a{i}.out", "content": f"constant output {i}\n"}]
        prev = f"a{i}.out"
        for j in range(rng.randint(1, 3)):
            out = f"b{i}_{j}.out"
            step(f"tb{i}_{j}", [prev], [out], tracked())
            prev = out
    with_direct = rng.random() < 0.5
    if with_direct:
        step("td", ["x0.txt"], ["d.out"], tracked())
        step("te", ["d.out"], ["e.out"], tracked())
    scripts = {}
    if variant == "nested":
        scripts["p2.py"] = decl
        scripts["plan.py"] = [{"op": "static", "paths": ["p2.py"]}, {"op": "plan", "label": "./p2.py"}]
        edits, edited = [{"op": "rawappend", "path": "plan.py"}], ["plan.py"]
    else:
        scripts["plan.py"] = decl
        edits, edited = [], []
        for p in sorted(sources):
            if not edits or rng.random() < 0.6:
                edits.append({"op": "write", "path": p, "content": sources[p] + "edited\n"})
                edited.append(p)
    env = {"VA": "va0"}
    if rng.random() < 0.25:
        env["SOURCE_DATE_EPOCH"] = "1700000000"        # then the director does not inject its own value
    project = e3.Project(dict(sources), {"scripts": scripts, "commands": commands}, env)
    return project, edits, edited, variant


def run_absorbed(item: dict) -> dict:
    """item: {"seed", "flavour"}.  First build (rc 0), a rebuild with nothing changed, the edit, the rebuild:
    the generic clauses of the property and the skip rule (rerun_without_cause) on the real director."""
    seed, flavour = item["seed"], item["flavour"]
    rng = random.Random(f"c04-absorbed-{seed}-{flavour}")
    if "project" in item:
        project = e3.Project.from_json(item["project"])
        edits, edited = item["cone_edits"]
        variant = item.get("variant", "given")
    else:
        project, edits, edited, variant = gen_absorbed(rng)
    sub = dict(item, project=project.to_json(), history=[], cone_edits=[edits, edited], cone_schedule=None,
               skip_env=True, max_phases=1)
    sub.pop("kind", None)
    rep = run_case(sub)
    rep["kind"], rep["variant"] = "absorbed", variant
    rep["stats"][f"absorbed:{variant}"] = 1
    return rep


def build_kw(item: dict) -> dict:
    return {"resources": "tok:1", "njob": item.get("njob", 1), "timeout": item.get("timeout", 60)}


def run_case(item: dict) -> dict:
    """item: {"seed", "flavour": "restart"|"watch", "max_phases", "njob", optional "project",
    "history", "cone_edits", "skip_noop", "cone_schedule"}.  Returns a JSON-able report."""
    if item.get("kind") == "env_multi":
        return run_env_multi(item)
    if item.get("kind") == "absorbed":
        return run_absorbed(item)
    seed = item["seed"]
    flavour = item["flavour"]
    rng = random.Random(f"c04-e3-{seed}-{flavour}")
    if "project" in item:
        project = e3.Project.from_json(item["project"])
        history = copy.deepcopy(item["history"])
    else:
        project, history = e3_gen.gen_case(seed, max_phases=item.get("max_phases", 3),
                                           watch_safe=(flavour == "watch"))
        if item.get("shared_globs"):
            project, history = add_shared_globs(random.Random(f"c04-sg-{seed}"), project, history,
                                                item["shared_globs"])
    report = {"seed": seed, "flavour": flavour, "failures": [], "stats": {}, "nbuilds": 0,
              "project": project.to_json(), "history": history}
    stats = report["stats"]

    def count(key, n=1):
        stats[key] = stats.get(key, 0) + n

    def fail(sig, detail, extra=None):
        report["failures"].append({"signature": sig, "detail": detail, **(extra or {})})

    kw = build_kw(item)
    proj = project.clone()
    with tempfile.TemporaryDirectory(prefix="c04-") as root:
        proj.materialise(root)
        try:
            if flavour == "restart":
                _run_restart(item, rng, proj, history, root, kw, report, count, fail)
            else:
                _run_watch(item, rng, proj, history, root, kw, report, count, fail)
        except e3.E3Timeout as exc:
            # not a verdict: the caller retries the case alone with a longer timeout
            report["timeout"] = f"{exc.args[0]} {exc.args[1] if len(exc.args) > 1 else ''}"
        except e3.E3Error as exc:
            # the engine itself gave up (e.g. the watching director ended on its own): same handling
            report["timeout"] = f"E3Error: {exc}"
    return report


def _noop_variants(item, rng):
    return [] if item.get("skip_noop") else ["nochange", "samecontent"]


def _cone_check(item, rng, proj, ref, rebuild, flavour, report, count, fail, root):
    pre = graph_relations(ref.graph)
    if "cone_edits" in item:
        edits, edited = item["cone_edits"]
    else:
        edits, edited = plan_source_edits(rng, proj, pre)
    if not edits:
        return
    report["cone_edits"] = [edits, edited]
    schedule = item.get("cone_schedule", {"seed": rng.randint(0, 10 ** 6)} if rng.random() < 0.5 else None)
    report["cone_schedule"] = schedule
    apply_edits(proj, root, edits)
    new = rebuild(schedule)
    report["nbuilds"] += 1
    post = graph_relations(new.graph)
    executed = new.executed()
    count("cone:rebuilds")
    count("cone:executed", len(executed))
    count(f"cone:rc:{e3.rc_class(new.returncode)}")
    if new.error:
        fail(f"oracle:cone:{flavour}:serve-raised", new.error)
    bad = unjustified(executed, edited, pre, post)
    if executed:
        count("cone:nontrivial")
    key = (tuple(sorted(set(executed))), tuple(sorted(edited)))
    report.setdefault("cone_keys", []).append([list(key[0]), list(key[1])])
    if bad:
        fail(f"oracle:cone:{flavour}:executed-outside-cone",
             f"edited {edited}; executed {executed}; not justified by any clause: {bad}",
             {"edited": edited, "executed": executed, "unjustified": bad})
    if new.returncode == OK_RC and not new.error:
        causeless = rerun_without_cause(executed, edited, pre, post, ref.files, new.files)
        count("cone:skip_rule_checked", len(set(executed)))
        if causeless:
            fail(f"oracle:cone:{flavour}:executed-with-unchanged-inputs",
                 f"edited {edited}; executed {executed}; steps declared as before whose inputs have the same content "
                 f"as before the rebuild and that consume no edited path: {causeless}",
                 {"edited": edited, "executed": executed, "causeless": causeless})


def _env_aba_check(item, rng, proj, ref, build, report, count, fail):
    """A tracked variable goes A -> B -> A over two restarts: the outputs must be those built with
    A again (commands are functions of their inputs and environment).  Returns the last result."""
    names = sorted({v for node in e3.parse_graph(ref.graph).values() for v in node["props"].get("using_env", [])})
    if not names:
        return ref
    name = rng.choice(names)
    a = proj.env.get(name)
    proj.env[name] = "c04_b"
    mid = build()
    proj.env[name] = a
    if mid.returncode != OK_RC or mid.error:
        return build()
    back = build()
    count("env:aba")
    if back.returncode != OK_RC or back.error:
        return back
    stale = sorted(p for p in set(ref.files) | set(back.files) if ref.files.get(p) != back.files.get(p))
    if stale:
        fail("oracle:env:restart:aba-output-stale",
             f"{name}: {a!r} -> 'c04_b' -> {a!r}; files that differ from the build with {a!r}: {stale}; "
             f"executed on the way back: {back.executed()}", {"variable": name})
    elif mid.executed():
        count("env:aba:nontrivial")
    return back


def _run_restart(item, rng, proj, history, root, kw, report, count, fail):
    def build(schedule=None):
        report["nbuilds"] += 1
        return e3.build(root, proj.program, env=dict(proj.env), schedule=schedule, **kw)

    ref = build()
    phases = list(history) + [None]
    for phase in phases:
        count(f"rc:{e3.rc_class(ref.returncode)}:{ref.returncode}")
        if ref.returncode == OK_RC and not ref.error:
            for variant in _noop_variants(item, rng):
                touched = ()
                if variant == "samecontent":
                    rewrites = same_content_rewrites(rng, proj)
                    if not rewrites:
                        continue
                    do_same_content(proj, root, rewrites)
                    touched = tuple(p for p, _ in rewrites)
                new = build()
                count(f"noop:restart:{variant}")
                devs = compare_noop(ref, new, "restart", variant, touched)
                for sig, detail in devs:
                    fail(sig, detail, {"after_phase": phases.index(phase)})
                if devs:
                    return
                ref = new
        if phase is None:
            break
        for edit in phase.get("edits", []):
            e3.apply_edit(proj, root, edit)
        ref = build()
    if ref.returncode == OK_RC and not ref.error and not item.get("skip_env") and not report["failures"]:
        ref = _env_aba_check(item, rng, proj, ref, build, report, count, fail)
    if ref.returncode == OK_RC and not ref.error and not item.get("skip_cone"):
        _cone_check(item, rng, proj, ref, build, "restart", report, count, fail, root)


def _run_watch(item, rng, proj, history, root, kw, report, count, fail):
    with e3.WatchSession(root, proj.program, env=dict(proj.env), **kw) as ws:
        report["nbuilds"] += 1
        ref = ws.first()
        phases = list(history) + [None]

        def rebuild(schedule=None):
            report["nbuilds"] += 1
            ws.program = proj.program
            ws.sync()
            return ws.rebuild()

        for phase in phases:
            count(f"rc:{e3.rc_class(ref.returncode)}:{ref.returncode}")
            if ref.returncode == OK_RC and not ref.error:
                for variant in _noop_variants(item, rng):
                    touched = ()
                    if variant == "samecontent":
                        rewrites = same_content_rewrites(rng, proj)
                        if not rewrites:
                            continue
                        do_same_content(proj, root, rewrites)
                        touched = tuple(p for p, _ in rewrites)
                    new = rebuild()
                    count(f"noop:watch:{variant}")
                    devs = compare_noop(ref, new, "watch", variant, touched)
                    for sig, detail in devs:
                        fail(sig, detail, {"after_phase": phases.index(phase)})
                    if devs:
                        return
                    ref = new
            if phase is None:
                break
            for edit in phase.get("edits", []):
                if edit["op"] == "setenv":
                    continue
                e3.apply_edit(proj, root, edit)
            ref = rebuild()
        if ref.returncode == OK_RC and not ref.error and not item.get("skip_cone"):
            _cone_check(item, rng, proj, ref, rebuild, "watch", report, count, fail, root)


# ---------------------------------------------------------------------------------------------
# Minimisation of a failing case
# ---------------------------------------------------------------------------------------------


def minimise(item: dict, report: dict, signature: str, budget: int = 24) -> tuple[dict, dict]:
    """Greedy reduction of the history (drop phases, then single edits) keeping the signature."""
    best = dict(item, project=report["project"], history=copy.deepcopy(report["history"]))
    for key in ("cone_edits", "cone_schedule"):
        if key in report:
            best[key] = report[key]
    best_report = report
    tries = 0

    def still_fails(cand):
        nonlocal tries
        tries += 1
        rep = run_case(cand)
        return rep if any(f["signature"] == signature for f in rep["failures"]) else None

    changed = True
    while changed and tries < budget:
        changed = False
        hist = best["history"]
        for i in range(len(hist) - 1, -1, -1):
            if tries >= budget:
                break
            cand = dict(best, history=hist[:i] + hist[i + 1:])
            rep = still_fails(cand)
            if rep is not None:
                best, best_report, changed = cand, rep, True
                break
        if changed:
            continue
        for i, phase in enumerate(hist):
            edits = phase.get("edits", [])
            for j in range(len(edits)):
                if tries >= budget or len(edits) <= 1:
                    break
                new_hist = copy.deepcopy(hist)
                del new_hist[i]["edits"][j]
                cand = dict(best, history=new_hist)
                rep = still_fails(cand)
                if rep is not None:
                    best, best_report, changed = cand, rep, True
                    break
            if changed:
                break
    return best, best_report
