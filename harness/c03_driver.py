"""C03 driver: one consumer step `c` run by the REAL Scheduler / Executor / DirectorHandler /
Workflow (wired by stepup.core.director._wire_director on an in-memory database, real files in a
temporary directory), with everything other actors do applied through the real Workflow / Step /
Scheduler methods by a script.  `launch_command` is replaced by an interpreter of the script part
that happens while c's command runs, `time.monotonic_ns` of scheduler.py by a scripted clock, so a
case is fully deterministic (no threads racing, no sleeps): all other actors act from inside c's
own command coroutine.

A case produces (a) the model trace (events + what the implementation showed after every event of
c) for Fresh.check_trace and (b) an independent log (event order of producer stops, contents on
disk over time) for the property oracle.
"""
from __future__ import annotations

import asyncio
import contextlib
import json
import os
import tempfile

from path import Path

FILE_KINDS = ("conf", "unconf", "unconf_absent", "missing", "built", "planned", "outdated", "tree", "tree_absent",
              "undeclared", "det_static", "det_output", "volatile")


class Clock:
    def __init__(self):
        self.now = 100

    def monotonic_ns(self):
        return self.now

    def __getattr__(self, name):  # anything else scheduler.py may use from `time`
        import time as _t
        return getattr(_t, name)


class _Rep:
    """Reporter stand-in (async callable + progress hooks)."""

    def __init__(self):
        self.events = []

    async def __call__(self, tag, label=None, pages=None):
        self.events.append((tag, label))

    def job_started(self, *a):
        pass

    def job_stopped(self, *a):
        pass

    async def update_progress(self, *a):
        pass


class Case:
    """Holds the wired director of one case and the logs."""

    def __init__(self, spec):
        self.spec = spec
        self.trace = []          # model events: (kind, payload, expectation or None)
        self.codes = {}          # (digest, mode, size) -> small int
        self.order = 0           # event counter for the oracle log
        self.log = []            # oracle log entries (dicts)
        self.contents = {}       # path -> list of (order, code) writes
        self.runs = []           # per run of c: dict(start, end, initial, amended, verdicts...)
        self.defer_calls = []

    def code(self, fh):
        if fh.is_unknown:
            return 0
        key = (bytes(fh.digest), fh.mode, fh.size)
        if key not in self.codes:
            self.codes[key] = len(self.codes) + 1
        return self.codes[key]


def fid(path, paths):
    return paths.index(path) + 1


async def run_case(spec):
    """Run one case. `spec` is a JSON-able dict (see p_c03.gen_case). Returns the Case."""
    import stepup.core.executor as ex_mod
    import stepup.core.scheduler as sched_mod
    from stepup.core.director import ServeConfig, _wire_director
    from stepup.core.enums import FileState, HashUpdateCause, Need, StepState
    from stepup.core.exceptions import GraphError
    from stepup.core.executor import Executor
    from stepup.core.file import File
    from stepup.core.hash import FileHash, StepHash
    from stepup.core.outcome import ChildOutcome
    from stepup.core.sqlite3 import DBSession
    from stepup.core.step import Step

    case = Case(spec)
    paths = sorted(spec["files"])            # file ids follow path order
    kinds = spec["files"]
    clock = Clock()
    old_cwd = os.getcwd()
    old_launch = ex_mod.launch_command
    old_time = sched_mod.time
    old_defer = Executor.defer

    def rec_defer(self, job_i, *, unavailable=None, unfresh=None):
        case.defer_calls.append((sorted(unavailable or ()), sorted(unfresh or ())))
        return old_defer(self, job_i, unavailable=unavailable, unfresh=unfresh)

    with contextlib.ExitStack() as stack:
        tmp = stack.enter_context(tempfile.TemporaryDirectory(prefix="verif-c03-"))
        os.chdir(tmp)
        stack.callback(os.chdir, old_cwd)
        sched_mod.time = clock
        stack.callback(setattr, sched_mod, "time", old_time)
        Executor.defer = rec_defer
        stack.callback(setattr, Executor, "defer", old_defer)
        db = stack.enter_context(DBSession.open(":memory:"))
        rep = _Rep()
        cfg = ServeConfig(njob=4, use_duration=False, defer_cap=spec["cap"], keep_going=spec["keep_going"],
                          do_watch=False)
        h = await _wire_director(db=db, reporter=rep, config=cfg, infra_env={}, mp_ctx=None)
        wf, sched, execu = h.workflow, h.scheduler, h.executor

        version = {}

        def write(path, variant):
            """variant 0 deletes; otherwise a never-before-used content (no A-B-A by construction)
            unless spec says `restore`."""
            p = Path(path)
            if variant == 0:
                if p.exists():
                    p.remove()
            else:
                if str(p.parent):
                    p.parent.makedirs_p()
                p.write_text(f"{path}:{variant}:" + "x" * (variant % 7))
                if variant % 5 == 0:
                    p.chmod(0o755)
            c = disk_code(path)
            case.order += 1
            case.contents.setdefault(path, []).append((case.order, c))
            return c

        def disk_code(path):
            return case.code(FileHash.unknown().refreshed(path))

        def real_hash(path):
            return FileHash.unknown().refreshed(path)

        # ---------------- setup through the real workflow API ----------------
        producers = {}    # path -> Step
        async with db:
            wf.declare_static_files(wf.root, ["plan.py"])
            Path("plan.py").write_text("#!/usr/bin/env python3\n")
            wf.update_file_hashes({"plan.py": real_hash("plan.py")}, cause=HashUpdateCause.CONFIRMED)
            wf.define_step(wf.root, "./plan.py", inp_paths=["plan.py"], need=Need.PLAN, _safe=True)
            plan = wf.find(Step, "./plan.py")
            plan.set_state(StepState.RUNNING)
            # a sub-plan that owns the static declarations that can be withdrawn
            wf.define_step(plan, "q", inp_paths=["blk_q.txt"])
            q = wf.find(Step, "q")
            q.set_state(StepState.RUNNING)
            Path("tree").makedirs_p()
            wf.register_static_tree(plan, "tree/")
            k = 0
            for path in paths:
                kind = kinds[path]
                k += 1
                if kind in ("conf", "unconf", "unconf_absent", "missing", "det_static"):
                    if kind not in ("unconf_absent", "missing"):
                        write(path, 1)
                    owner = q if kind == "det_static" or spec.get("static_owner", {}).get(path) == "q" else plan
                    wf.declare_static_files(owner, [path])
                    if kind in ("conf", "missing", "det_static"):
                        wf.update_file_hashes({path: real_hash(path)}, cause=HashUpdateCause.CONFIRMED)
                elif kind in ("built", "planned", "outdated", "det_output", "volatile"):
                    creator = q if kind == "det_output" else plan
                    if kind == "volatile":
                        wf.define_step(creator, f"p{k}", inp_paths=[f"blk_{k}.txt"], vol_paths=[path])
                    else:
                        wf.define_step(creator, f"p{k}", inp_paths=[f"blk_{k}.txt"], out_paths=[path])
                    p = wf.find(Step, f"p{k}")
                    producers[path] = p
                elif kind in ("tree", "tree_absent"):
                    if kind == "tree":
                        write(path, 1)
                # undeclared: nothing
        keys = []

        def bk(e):
            case.trace.append(("EBk", e, None))

        async def produce(path, ok=True, variant=None, fresh_start=True):
            """One complete run of the producer of `path` through the real methods."""
            p = producers[path]
            async with db:
                if fresh_start:
                    if p.get_state() in (StepState.SUCCEEDED, StepState.FAILED):
                        wf.mark_step_pending(p)
                    p.set_state(StepState.RUNNING)
                    sched.record_run_started(p.i)
                    bk(("BStart", p.i, clock.now))
            await sync_rows()
            if variant is not None:
                c = write(path, variant)
                case.trace.append(("EWrite", (fid(path, paths), c), None))
            async with db:
                fh = real_hash(path)
                if ok:
                    wf.update_file_hashes({path: fh}, cause=HashUpdateCause.SUCCEEDED)
                    p.mark_completed(StepHash.from_inp(p.label, {}, {}, explained=False), False)
                else:
                    if Path(path).exists():
                        st = wf.find(File, path).get_state()
                        if st in (FileState.PLANNED, FileState.OUTDATED, FileState.BUILT):
                            wf.update_file_hashes({path: fh}, cause=HashUpdateCause.FAILED)
                    p.mark_completed(None, False)
                sched.record_run_stopped(p.i, succeeded=ok)
                bk(("BStop", p.i, clock.now, ok))
                case.order += 1
                case.log.append({"what": "producer-stop", "order": case.order, "producer": p.i, "path": path, "ok": ok})
            await sync_rows()

        rows_seen = {}
        crow_seen = [None]

        def read_row(path):
            row = db.execute(
                "SELECT node.i, node.detached, node.creator, "
                "(SELECT kind FROM node AS cn WHERE cn.i = node.creator), file.state, file.hash "
                "FROM node JOIN file ON file.node = node.i WHERE node.kind = 'file' AND node.label = ?",
                (path,)).fetchone()
            try:
                tree = wf._find_owning_static_tree(path) is not None
            except GraphError:
                tree = True
            if row is None:
                return (False, 11, 0, True, False, None, tree)
            i, det, creator, ckind, state, hj = row
            return (True, state, case.code(FileHash.from_json(hj)), bool(det), creator is not None,
                    creator if ckind == "step" else None, tree)

        def read_crow():
            return db.execute("SELECT state, deferred, defer_count FROM step WHERE node = ?", (cstep.i,)).fetchone()

        async def sync_rows(force_c=True):
            """Emit ERow / ECRow events for rows another actor changed."""
            async with db:
                for path in paths:
                    r = read_row(path)
                    if rows_seen.get(path) != r:
                        rows_seen[path] = r
                        case.trace.append(("ERow", (fid(path, paths), r), None))
                if cstep is not None and force_c:
                    cr = tuple(read_crow())
                    if crow_seen[0] != cr:
                        crow_seen[0] = cr
                        case.trace.append(("ECRow", cr, None))

        cstep = None
        # bring producers into their initial state
        for path in paths:
            kind = kinds[path]
            if kind in ("built", "outdated", "det_output"):
                await produce(path, ok=True, variant=1)
            if kind == "outdated":
                async with db:
                    wf.mark_step_pending(producers[path])
        async with db:
            for path in paths:
                if kinds[path] == "volatile":
                    Path(path).write_text("vol")
            # q withdraws: detaches its static declarations and the steps it created
            if any(kinds[p] in ("det_static", "det_output") for p in paths):
                q.reset_for_rerun()
        # define c
        async with db:
            wf.define_step(plan, "c", inp_paths=spec["initial"], out_paths=["c_out.txt"])
            cstep = wf.find(Step, "c")
        keys = [cstep.i, q.i, plan.i] + [p.i for p in producers.values()]
        case.keys = keys
        case.cid = cstep.i
        for path in paths:   # initial disk contents for the model
            case.trace.append(("EWrite", (fid(path, paths), disk_code(path)), None))
        await sync_rows()

        def observe():
            st, df, dc = read_crow()
            dyn = [fid(r[0], paths) for r in db.execute(
                "SELECT node.label FROM dependency JOIN dynamic_dep ON dynamic_dep.i = dependency.i "
                "JOIN node ON node.i = dependency.source WHERE dependency.sink = ?", (cstep.i,)) if r[0] in paths]
            crow_seen[0] = (st, df, dc)
            return {"state": st, "deferred": bool(df), "dc": dc, "draining": bool(sched.draining),
                    "starts": dict(sched.start_times), "stops": dict(sched.stop_times), "dyn": sorted(dyn)}

        # ---------------- environment actions ----------------
        async def env_action(a):
            kind = a[0]
            if kind == "tick":
                clock.now += a[1]
            elif kind == "write":
                c = write(a[1], a[2])
                case.trace.append(("EWrite", (fid(a[1], paths), c), None))
                case.log.append({"what": "external-write", "order": case.order, "path": a[1]})
            elif kind == "produce":
                await produce(a[1], ok=a[2], variant=a[3])
            elif kind == "pstart":
                p = producers[a[1]]
                async with db:
                    if p.get_state() in (StepState.SUCCEEDED, StepState.FAILED):
                        wf.mark_step_pending(p)
                    p.set_state(StepState.RUNNING)
                    sched.record_run_started(p.i)
                    bk(("BStart", p.i, clock.now))
                await sync_rows()
            elif kind == "pfinish":
                p = producers[a[1]]
                async with db:
                    running = p.get_state() == StepState.RUNNING
                if running:
                    await produce(a[1], ok=a[2], variant=a[3], fresh_start=False)
            elif kind == "confirm":
                async with db:
                    f = wf.find(File, a[1])
                    if f is not None and f.get_state() in (FileState.UNCONFIRMED, FileState.CONFIRMED, FileState.MISSING):
                        wf.update_file_hashes({a[1]: real_hash(a[1])}, cause=HashUpdateCause.CONFIRMED)
                        case.order += 1
                        case.log.append({"what": "confirm", "order": case.order, "path": a[1]})
                await sync_rows()
            elif kind == "withdraw":      # q reruns: its static declarations are detached
                async with db:
                    q.reset_for_rerun()
                await sync_rows()
            elif kind == "redeclare":     # q declares the static file again (UNCONFIRMED)
                async with db:
                    try:
                        wf.declare_static_files(q, [a[1]])
                    except GraphError:
                        pass
                await sync_rows()
            elif kind == "newphase":      # end of a build phase, then a new one is started
                await sched.build_completed()
                bk(("BClear",))
                async with db:
                    if cstep.get_state() == StepState.FAILED:
                        wf.mark_step_pending(cstep)
                sched.draining = False
                case.trace.append(("EDrain", False, None))
                await sync_rows()
            else:
                raise ValueError(a)

        # ---------------- the command of c ----------------
        current = {}

        async def fake_launch(command, *, shell, env, cwd, mp_ctx, run):
            if command != "c":
                raise AssertionError(f"unexpected command {command}")
            script = current["script"]
            async with db:
                obs = observe()
            case.order += 1
            current["run"] = {"start": case.order, "initial": list(spec["initial"]), "amended": [],
                              "amend_verdicts": [], "job_i": run.job_i}
            case.trace.append(("ETry", current["t_start"], ("RTry", True, obs)))
            for a in script["during"]:
                if a[0] == "amend":
                    ps = sorted(set(a[1]))
                    n0 = len(case.defer_calls)
                    # the property's own view of each input, before the call
                    async with db:
                        pre = {p: read_row(p) for p in ps}
                    pre_disk = {p: disk_code(p) for p in ps}
                    rejected = False
                    carry = False
                    try:
                        carry = await h.amend_step(run.job_i, ps, set(), [], [])
                    except GraphError:
                        rejected = True
                    unav, unfr = ([], [])
                    if len(case.defer_calls) > n0:
                        unav, unfr = case.defer_calls[-1]
                    changed_rows = []
                    async with db:
                        obs = observe()
                        for p in paths:
                            rr = read_row(p)
                            if rows_seen.get(p) != rr:
                                rows_seen[p] = rr
                                changed_rows.append(p)
                    case.order += 1
                    if not rejected:
                        current["run"]["amended"] += [p for p in ps if p not in current["run"]["amended"]]
                    current["run"]["amend_verdicts"].append(
                        {"order": case.order, "paths": ps, "pre": pre, "pre_disk": pre_disk, "carry_on": bool(carry),
                         "rejected": rejected, "unavailable": list(unav), "unfresh": list(unfr)})
                    case.trace.append(("EAmend", [fid(p, paths) for p in ps],
                                       ("RAmend", rejected, [fid(p, paths) for p in unav],
                                        [fid(p, paths) for p in unfr], bool(carry), obs)))
                    # rows the request itself changed are resynchronised (observed), see design.d
                    for p in changed_rows:
                        case.trace.append(("ERow", (fid(p, paths), rows_seen[p]), None))
                else:
                    await env_action(a)
            if script["write_out"]:
                Path("c_out.txt").write_text(f"out{case.order}")
            current["t_end"] = clock.now
            current["out_exists"] = Path("c_out.txt").exists()
            async with db:   # what is recorded for the inputs when the command returns
                current["run"]["end_inputs"] = [(rec.path, rec.state.value, case.code(rec.hash), rec.dynamic)
                                                for rec in cstep.inp_paths()]
            case.order += 1
            current["run"]["end"] = case.order
            return ChildOutcome(script["rc"], "", "")

        ex_mod.launch_command = fake_launch
        stack.callback(setattr, ex_mod, "launch_command", old_launch)

        for script in spec["runs"]:
            for a in script["before"]:
                await env_action(a)
            current["script"] = script
            current["run"] = None
            current["t_start"] = clock.now
            job = await sched.pop_next_job()
            if job is None:
                async with db:
                    obs = observe()
                case.trace.append(("ETry", clock.now, ("RTry", False, obs)))
                case.runs.append({"dispatched": False})
                continue
            if job.step.i != cstep.i:
                raise AssertionError(f"another step was dispatched: {job.step.label}")
            ntrace = len(case.trace)
            await asyncio.wait_for(job.coro(execu), 60)
            sched.record_job_completed(job)
            changed_rows = []
            async with db:
                obs = observe()
                for p in paths:
                    rr = read_row(p)
                    if rows_seen.get(p) != rr:
                        rows_seen[p] = rr
                        changed_rows.append(p)
                final_inputs = [(rec.path, rec.state.value, case.code(rec.hash), rec.dynamic)
                                for rec in cstep.inp_paths()]
            if current["run"] is None:
                # the command never started (pre-run check failed)
                case.trace.append(("ETry", current["t_start"], ("RTry", False, obs)))
                case.runs.append({"dispatched": True, "started": False, "state": obs["state"],
                                  "draining": obs["draining"]})
            else:
                case.trace.append(("EEnd", (current["t_end"], script["rc"] == 0 and current["out_exists"]),
                                   ("REnd", obs)))
                r = current["run"]
                r.update({"dispatched": True, "started": True, "state": obs["state"], "deferred": obs["deferred"],
                          "dc": obs["dc"], "draining": obs["draining"], "final_inputs": final_inputs,
                          "rc": script["rc"], "write_out": script["write_out"]})
                case.runs.append(r)
            for p in changed_rows:
                case.trace.append(("ERow", (fid(p, paths), rows_seen[p]), None))
            if obs["state"] == StepState.SUCCEEDED.value:
                break   # a stored step hash would make the next dispatch a CHECKING job (not modelled)
        case.paths = paths
        case.events = rep.events
    return case
