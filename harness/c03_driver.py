"""C03 driver: one consumer step `c` run by the REAL Scheduler / Executor / DirectorHandler /
Workflow (wired by stepup.core.director._wire_director on an in-memory database, real files in a
temporary directory), with everything other actors do applied through the real Workflow / Step /
Scheduler methods by a script.  `launch_command` is replaced by an interpreter of the script part
that happens while c's command runs, `time.monotonic_ns` of scheduler.py by a scripted clock, so a
case is fully deterministic (no threads racing, no sleeps): all other actors act from inside c's
own command coroutine.

A case continues after c has SUCCEEDED: the next dispatch of a step that holds a stored hash is a
CHECKING job (Executor.try_skip_job or validate_dynamic_job, model/FreshSkip.v).  The await of the
output hashing inside try_skip_job is wrapped (Executor._compute_out_step_hash), so that other actors
can act inside that window as well; hash cancellation is injected by setting the real cancel event
of the ThreadWorker right before hash.compute_*_hashes runs.

A case produces (a) the model trace (events + what the implementation showed after every event of
c) for Fresh.check_trace and (b) an independent log (event order of producer stops, contents on
disk over time) for the property oracle.
"""
from __future__ import annotations

import asyncio
import contextlib
import json
import os
import tempfile

from path import Path

FILE_KINDS = ("conf", "unconf", "unconf_absent", "missing", "built", "planned", "outdated", "tree", "tree_absent",
              "undeclared", "det_static", "det_output", "volatile")


class Clock:
    def __init__(self):
        self.now = 100

    def monotonic_ns(self):
        return self.now

    def __getattr__(self, name):  # anything else scheduler.py may use from `time`
        import time as _t
        return getattr(_t, name)


class _Rep:
    """Reporter stand-in (async callable + progress hooks)."""

    def __init__(self):
        self.events = []

    async def __call__(self, tag, label=None, pages=None):
        self.events.append((tag, label))

    def job_started(self, *a):
        pass

    def job_stopped(self, *a):
        pass

    async def update_progress(self, *a):
        pass


class Case:
    """Holds the wired director of one case and the logs."""

    def __init__(self, spec):
        self.spec = spec
        self.trace = []          # model events: (kind, payload, expectation or None)
        self.codes = {}          # (digest, mode, size) -> small int
        self.order = 0           # event counter for the oracle log
        self.log = []            # oracle log entries (dicts)
        self.contents = {}       # path -> list of (order, code) writes
        self.runs = []           # per run of c: dict(start, end, initial, amended, verdicts...)
        self.defer_calls = []
        self.envcodes = {}       # value of the tracked environment variable -> small int
        self.how = {}            # (path, order) -> the way that write reached the file system
        self.inodes = {}         # path -> inode numbers the path had so far (see replace_file)

    def envcode(self, value):
        if value not in self.envcodes:
            self.envcodes[value] = len(self.envcodes) + 1
        return self.envcodes[value]

    def code(self, fh):
        if fh.is_unknown:
            return 0
        key = (bytes(fh.digest), fh.mode, fh.size)
        if key not in self.codes:
            self.codes[key] = len(self.codes) + 1
        return self.codes[key]


ENV_VAR = "VERIF_C03_ENV"
OUT = "c_out.txt"

# The ways a file system lets somebody put other (or the same) bytes under a path while a command
# runs; `changes` = whether content, size or mode (what FileHash equality is about) is different
# afterwards.  Which stat fields survive is what FileHash.refreshed's shortcut is about:
#   inplace       open(O_TRUNC) + write: same inode, the kernel stamps a new mtime, size may change
#   rename        a new file is renamed over the path: new inode, new mtime
#   rename_keep   a new file with OTHER bytes of the SAME size, the same mode and the same mtime is
#                 renamed over the path (rsync -t, cp -p + mv, an editor that saves atomically and
#                 restores the time stamp): only the inode number (and the digest) differ
#   chmod_keep    the same, but the bytes are the same and the mode differs
#   same_newino   the SAME bytes, mode and mtime in a new inode renamed over the path (nothing changed)
#   touch         utime only (nothing changed)
# Not produced: other bytes of the same size written in place with the old mtime restored by utime
# (no stat field differs; no scheme short of re-reading every file can see it: assumption
# no_stat_forgery, props/C03.v C03_refreshed_forgery_is_not_noticed).
REPLACE_KINDS = {"inplace": True, "rename": True, "rename_keep": True, "chmod_keep": True,
                 "same_newino": False, "touch": False}


def replace_file(path, variant, how, seen_inodes=None):
    """Apply one of the stat-preserving REPLACE_KINDS to the existing regular file `path`.

    `seen_inodes` (a set, updated): inode numbers the path had earlier in this history.  ext4 hands a
    freed inode number out again at once, so two successive replacements can bring back the very
    number a FileHash was recorded with -- with mtime, size and mode preserved no stat field differs
    then.  That is outside the world assumption of props/C03.v (FreshStat.op_honest: the recorded
    inode number is not given to another file that is moved to the path), so the harness does not
    produce it: the new file is created while place holders keep the seen numbers busy."""
    import stat as stat_mod
    old = os.stat(path)
    if seen_inodes is not None:
        seen_inodes.add(old.st_ino)
    data = open(path, "rb").read()
    if how == "touch":
        os.utime(path, ns=(old.st_atime_ns, old.st_mtime_ns + 1_000_000_000 * (1 + variant % 3)))
        return
    tmp = path + ".new~"
    mode = stat_mod.S_IMODE(old.st_mode)
    if how == "rename_keep":
        head = f"K{variant:05d}".encode()
        new = head + data[len(head):] if len(data) >= len(head) else bytes((b + 1) % 256 for b in data)
        assert len(new) == len(data) and new != data
        data = new
    elif how == "chmod_keep":
        mode ^= 0o111
    elif how != "same_newino":
        raise ValueError(how)
    holders = []
    try:
        while True:
            with open(tmp, "wb") as fh:
                fh.write(data)
            if seen_inodes is None or os.stat(tmp).st_ino not in seen_inodes:
                break
            holders.append(f"{tmp}.hold{len(holders)}")      # keeps that inode number busy
            os.rename(tmp, holders[-1])
            if len(holders) > 64:
                raise RuntimeError("no unused inode number")
    finally:
        for h in holders:
            os.remove(h)
    os.chmod(tmp, mode)
    os.utime(tmp, ns=(old.st_atime_ns, old.st_mtime_ns))
    os.replace(tmp, path)
    new = os.stat(path)
    assert new.st_ino != old.st_ino and new.st_mtime_ns == old.st_mtime_ns and new.st_size == old.st_size, (old, new)
    if seen_inodes is not None:
        seen_inodes.add(new.st_ino)


def fid(path, paths):
    if path == OUT:
        return len(paths) + 1
    return paths.index(path) + 1


async def run_case(spec):
    """Run one case. `spec` is a JSON-able dict (see p_c03.gen_case). Returns the Case."""
    import stepup.core.executor as ex_mod
    import stepup.core.scheduler as sched_mod
    from stepup.core.director import ServeConfig, _wire_director
    from stepup.core.enums import FileState, HashUpdateCause, Need, StepState
    from stepup.core.exceptions import GraphError
    from stepup.core.executor import Executor
    from stepup.core.file import File
    from stepup.core.hash import FileHash, StepHash
    from stepup.core.job import ValidateDynamicJob
    from stepup.core.outcome import ChildOutcome
    from stepup.core.sqlite3 import DBSession
    from stepup.core.step import Step

    case = Case(spec)
    paths = sorted(spec["files"])            # file ids follow path order
    kinds = spec["files"]
    clock = Clock()
    old_cwd = os.getcwd()
    old_launch = ex_mod.launch_command
    old_time = sched_mod.time
    old_defer = Executor.defer
    old_out_hash = Executor._compute_out_step_hash
    old_compute = {n: getattr(ex_mod, n) for n in ("compute_inp_hashes", "compute_out_hashes", "compute_both_hashes")}
    old_env = os.environ.get(ENV_VAR)

    def rec_defer(self, job_i, *, unavailable=None, unfresh=None):
        case.defer_calls.append((sorted(unavailable or ()), sorted(unfresh or ())))
        return old_defer(self, job_i, unavailable=unavailable, unfresh=unfresh)

    with contextlib.ExitStack() as stack:
        tmp = stack.enter_context(tempfile.TemporaryDirectory(prefix="verif-c03-"))
        os.chdir(tmp)
        stack.callback(os.chdir, old_cwd)
        sched_mod.time = clock
        stack.callback(setattr, sched_mod, "time", old_time)
        Executor.defer = rec_defer
        stack.callback(setattr, Executor, "defer", old_defer)

        def restore_env():
            if old_env is None:
                os.environ.pop(ENV_VAR, None)
            else:
                os.environ[ENV_VAR] = old_env
        os.environ[ENV_VAR] = "e0"
        stack.callback(restore_env)
        db = stack.enter_context(DBSession.open(":memory:"))
        rep = _Rep()
        cfg = ServeConfig(njob=4, use_duration=False, defer_cap=spec["cap"], keep_going=spec["keep_going"],
                          do_watch=False, explain_rerun=bool(spec.get("explain", False)))
        h = await _wire_director(db=db, reporter=rep, config=cfg, infra_env={}, mp_ctx=None)
        wf, sched, execu = h.workflow, h.scheduler, h.executor

        version = {}

        def write(path, variant, how="inplace"):
            """variant 0 deletes; otherwise a never-before-used content (no A-B-A by construction).
            `how` = the way the file system is told (see REPLACE_KINDS): only `inplace` keeps the inode and
            lets the kernel stamp a new mtime; the `*_keep` / `same_newino` kinds preserve mtime (and mode,
            and for rename_keep the size) across a rename(2), `touch` changes nothing but the mtime."""
            p = Path(path)
            how = how if (p.is_file() or how in ("inplace", "rename")) else "inplace"
            if variant == 0:
                if p.exists():
                    p.remove()
            elif how in ("inplace", "rename"):
                if str(p.parent):
                    p.parent.makedirs_p()
                target = p if how == "inplace" else Path(path + ".new~")
                target.write_text(f"{path}:{variant}:" + "x" * (variant % 7))
                if variant % 5 == 0:
                    target.chmod(0o755)
                if how == "rename":
                    os.replace(target, p)
                case.inodes.setdefault(path, set()).add(os.stat(path).st_ino)
            else:
                replace_file(path, variant, how, case.inodes.setdefault(path, set()))
            c = disk_code(path)
            case.order += 1
            case.contents.setdefault(path, []).append((case.order, c))
            case.how[(path, case.order)] = how if variant else "delete"
            return c

        def disk_code(path):
            return case.code(FileHash.unknown().refreshed(path))

        def real_hash(path):
            return FileHash.unknown().refreshed(path)

        # ---------------- setup through the real workflow API ----------------
        producers = {}    # path -> Step
        async with db:
            wf.declare_static_files(wf.root, ["plan.py"])
            Path("plan.py").write_text("#!/usr/bin/env python3\n")
            wf.update_file_hashes({"plan.py": real_hash("plan.py")}, cause=HashUpdateCause.CONFIRMED)
            wf.define_step(wf.root, "./plan.py", inp_paths=["plan.py"], need=Need.PLAN, _safe=True)
            plan = wf.find(Step, "./plan.py")
            plan.set_state(StepState.RUNNING)
            # a sub-plan that owns the static declarations that can be withdrawn
            wf.define_step(plan, "q", inp_paths=["blk_q.txt"])
            q = wf.find(Step, "q")
            q.set_state(StepState.RUNNING)
            Path("tree").makedirs_p()
            wf.register_static_tree(plan, "tree/")
            k = 0
            for path in paths:
                kind = kinds[path]
                k += 1
                if kind in ("conf", "unconf", "unconf_absent", "missing", "det_static"):
                    if kind not in ("unconf_absent", "missing"):
                        write(path, 1)
                    owner = q if kind == "det_static" or spec.get("static_owner", {}).get(path) == "q" else plan
                    wf.declare_static_files(owner, [path])
                    if kind in ("conf", "missing", "det_static"):
                        wf.update_file_hashes({path: real_hash(path)}, cause=HashUpdateCause.CONFIRMED)
                elif kind in ("built", "planned", "outdated", "det_output", "volatile"):
                    creator = q if kind == "det_output" else plan
                    if kind == "volatile":
                        wf.define_step(creator, f"p{k}", inp_paths=[f"blk_{k}.txt"], vol_paths=[path])
                    else:
                        wf.define_step(creator, f"p{k}", inp_paths=[f"blk_{k}.txt"], out_paths=[path])
                    p = wf.find(Step, f"p{k}")
                    producers[path] = p
                elif kind in ("tree", "tree_absent"):
                    if kind == "tree":
                        write(path, 1)
                # undeclared: nothing
        keys = []

        def bk(e):
            case.trace.append(("EBk", e, None))

        async def produce(path, ok=True, variant=None, fresh_start=True):
            """One complete run of the producer of `path` through the real methods."""
            p = producers[path]
            async with db:
                if fresh_start:
                    if p.get_state() in (StepState.SUCCEEDED, StepState.FAILED):
                        wf.mark_step_pending(p)
                    p.set_state(StepState.RUNNING)
                    sched.record_run_started(p.i)
                    bk(("BStart", p.i, clock.now))
            await sync_rows()
            if variant is not None:
                c = write(path, variant)
                case.trace.append(("EWrite", (fid(path, paths), c), None))
            async with db:
                fh = real_hash(path)
                if ok:
                    wf.update_file_hashes({path: fh}, cause=HashUpdateCause.SUCCEEDED)
                    p.mark_completed(StepHash.from_inp(p.label, {}, {}, explained=False), False)
                else:
                    if Path(path).exists():
                        st = wf.find(File, path).get_state()
                        if st in (FileState.PLANNED, FileState.OUTDATED, FileState.BUILT):
                            wf.update_file_hashes({path: fh}, cause=HashUpdateCause.FAILED)
                    p.mark_completed(None, False)
                sched.record_run_stopped(p.i, succeeded=ok)
                bk(("BStop", p.i, clock.now, ok))
                case.order += 1
                case.log.append({"what": "producer-stop", "order": case.order, "producer": p.i, "path": path, "ok": ok})
            await sync_rows()

        rows_seen = {}
        crow_seen = [None]

        def read_row(path):
            row = db.execute(
                "SELECT node.i, node.detached, node.creator, "
                "(SELECT kind FROM node AS cn WHERE cn.i = node.creator), file.state, file.hash "
                "FROM node JOIN file ON file.node = node.i WHERE node.kind = 'file' AND node.label = ?",
                (path,)).fetchone()
            try:
                tree = wf._find_owning_static_tree(path) is not None
            except GraphError:
                tree = True
            if row is None:
                return (False, 11, 0, True, False, None, tree)
            i, det, creator, ckind, state, hj = row
            return (True, state, case.code(FileHash.from_json(hj)), bool(det), creator is not None,
                    creator if ckind == "step" else None, tree)

        def read_crow():
            return db.execute("SELECT state, deferred, defer_count FROM step WHERE node = ?", (cstep.i,)).fetchone()

        async def sync_rows(force_c=True):
            """Emit ERow / ECRow events for rows another actor changed."""
            async with db:
                for path in paths:
                    r = read_row(path)
                    if rows_seen.get(path) != r:
                        rows_seen[path] = r
                        case.trace.append(("ERow", (fid(path, paths), r), None))
                if cstep is not None and force_c:
                    cr = tuple(read_crow())
                    if crow_seen[0] != cr:
                        crow_seen[0] = cr
                        case.trace.append(("ECRow", cr, None))

        cstep = None
        # bring producers into their initial state
        for path in paths:
            kind = kinds[path]
            if kind in ("built", "outdated", "det_output"):
                await produce(path, ok=True, variant=1)
            if kind == "outdated":
                async with db:
                    wf.mark_step_pending(producers[path])
        async with db:
            for path in paths:
                if kinds[path] == "volatile":
                    Path(path).write_text("vol")
            # q withdraws: detaches its static declarations and the steps it created
            if any(kinds[p] in ("det_static", "det_output") for p in paths):
                q.reset_for_rerun()
        # define c
        async with db:
            wf.define_step(plan, "c", inp_paths=spec["initial"], out_paths=[OUT], env_deps=[ENV_VAR])
            cstep = wf.find(Step, "c")
        keys = [cstep.i, q.i, plan.i] + [p.i for p in producers.values()]
        case.keys = keys
        case.cid = cstep.i
        for path in paths:   # initial disk contents for the model
            case.trace.append(("EWrite", (fid(path, paths), disk_code(path)), None))
        case.env0 = case.envcode(os.environ.get(ENV_VAR))
        await sync_rows()

        def hash_info(sh):
            """(has_hash, ingredient lists of an explained hash or None)."""
            if sh is None:
                return False, None
            if sh.inp_info is None or sh.out_info is None:
                return True, None
            inp = sorted((fid(p_, paths), case.code(fh)) for p_, fh in sh.inp_info.inp_hashes.items())
            out = sorted((fid(p_, paths), case.code(fh)) for p_, fh in sh.out_info.out_hashes.items())
            return True, {"env": case.envcode(sh.inp_info.env_values.get(ENV_VAR)), "inp": inp, "out": out}

        def observe():
            st, df, dc = read_crow()
            dyn = [fid(r[0], paths) for r in db.execute(
                "SELECT node.label FROM dependency JOIN dynamic_dep ON dynamic_dep.i = dependency.i "
                "JOIN node ON node.i = dependency.source WHERE dependency.sink = ?", (cstep.i,)) if r[0] in paths]
            crow_seen[0] = (st, df, dc)
            hh, hinfo = hash_info(cstep.get_hash())
            return {"state": st, "deferred": bool(df), "dc": dc, "draining": bool(sched.draining),
                    "starts": dict(sched.start_times), "stops": dict(sched.stop_times), "dyn": sorted(dyn),
                    "has_hash": hh, "hash": hinfo}

        def write_out(variant):
            """c's output is written (by c's command or by an external writer) or deleted (0)."""
            p = Path(OUT)
            if variant == 0:
                if p.exists():
                    p.remove()
            else:
                p.write_text(f"out:{variant}")
            c = disk_code(OUT)
            case.order += 1
            case.contents.setdefault(OUT, []).append((case.order, c))
            case.trace.append(("EWrite", (fid(OUT, paths), c), None))
            return c

        # ---------------- environment actions ----------------
        async def env_action(a):
            kind = a[0]
            if kind == "tick":
                clock.now += a[1]
            elif kind == "write":
                c = write(a[1], a[2], a[3] if len(a) > 3 else "inplace")
                case.trace.append(("EWrite", (fid(a[1], paths), c), None))
                case.log.append({"what": "external-write", "order": case.order, "path": a[1],
                                 "how": case.how[(a[1], case.order)]})
            elif kind == "produce":
                await produce(a[1], ok=a[2], variant=a[3])
            elif kind == "pstart":
                p = producers[a[1]]
                async with db:
                    if p.get_state() in (StepState.SUCCEEDED, StepState.FAILED):
                        wf.mark_step_pending(p)
                    p.set_state(StepState.RUNNING)
                    sched.record_run_started(p.i)
                    bk(("BStart", p.i, clock.now))
                await sync_rows()
            elif kind == "pfinish":
                p = producers[a[1]]
                async with db:
                    running = p.get_state() == StepState.RUNNING
                if running:
                    await produce(a[1], ok=a[2], variant=a[3], fresh_start=False)
            elif kind == "confirm":
                async with db:
                    f = wf.find(File, a[1])
                    if f is not None and f.get_state() in (FileState.UNCONFIRMED, FileState.CONFIRMED, FileState.MISSING):
                        wf.update_file_hashes({a[1]: real_hash(a[1])}, cause=HashUpdateCause.CONFIRMED)
                        case.order += 1
                        case.log.append({"what": "confirm", "order": case.order, "path": a[1]})
                await sync_rows()
            elif kind == "withdraw":      # q reruns: its static declarations are detached
                async with db:
                    q.reset_for_rerun()
                await sync_rows()
            elif kind == "redeclare":     # q declares the static file again (UNCONFIRMED)
                async with db:
                    try:
                        wf.declare_static_files(q, [a[1]])
                    except GraphError:
                        pass
                await sync_rows()
            elif kind == "repend":        # another transaction makes c pending again (Workflow.mark_step_pending)
                async with db:
                    wf.mark_step_pending(cstep)
                await sync_rows()
            elif kind == "wout":          # an external writer replaces or deletes the output of c
                write_out(a[1])
                case.log.append({"what": "external-write", "order": case.order, "path": OUT})
            elif kind == "outcheck":      # the start-up / watcher check of the outputs (cause EXTERNAL)
                async with db:
                    f = wf.find(File, OUT)
                    if f is not None and f.get_state() in (FileState.BUILT, FileState.OUTDATED):
                        fh = real_hash(OUT)
                        if fh != f.get_hash() or fh.is_unknown:
                            wf.update_file_hashes({OUT: fh}, cause=HashUpdateCause.EXTERNAL)
                await sync_rows()
            elif kind == "setenv":        # a new director process sees another value (startup.rescan_env_vars)
                os.environ[ENV_VAR] = a[1]
                execu._base_env_cache = None
                case.trace.append(("XEnvC", case.envcode(a[1]), None))
                async with db:
                    wf.mark_step_pending(cstep)
                await sync_rows()
            elif kind == "delhash":       # another actor drops the stored hash (nglob change, lost product)
                async with db:
                    cstep.delete_hash()
                case.trace.append(("XHashDel", None, None))
            elif kind == "newphase":      # end of a build phase, then a new one is started
                await sched.build_completed()
                bk(("BClear",))
                async with db:
                    if cstep.get_state() == StepState.FAILED:
                        wf.mark_step_pending(cstep)
                sched.draining = False
                case.trace.append(("EDrain", False, None))
                await sync_rows()
            else:
                raise ValueError(a)

        # ---------------- the command of c ----------------
        current = {}

        async def snapshot_rows():
            changed_rows = []
            async with db:
                obs = observe()
                for p in paths:
                    rr = read_row(p)
                    if rows_seen.get(p) != rr:
                        rows_seen[p] = rr
                        changed_rows.append(p)
            return obs, changed_rows

        async def fake_launch(command, *, shell, env, cwd, mp_ctx, run):
            if command != "c":
                raise AssertionError(f"unexpected command {command}")
            script = current["script"]
            async with db:
                obs = observe()
            case.order += 1
            current["run"] = {"start": case.order, "initial": list(spec["initial"]), "amended": [],
                              "amend_verdicts": [], "job_i": run.job_i}
            case.trace.append(("XTry", (current["t_start"], False), ("XRTry", 1, True, obs)))
            for a in script["during"]:
                if a[0] == "amend":
                    ps = sorted(set(a[1]))
                    n0 = len(case.defer_calls)
                    # the property's own view of each input, before the call
                    async with db:
                        pre = {p: read_row(p) for p in ps}
                    pre_disk = {p: disk_code(p) for p in ps}
                    rejected = False
                    carry = False
                    try:
                        carry = await h.amend_step(run.job_i, ps, set(), [], [])
                    except GraphError:
                        rejected = True
                    unav, unfr = ([], [])
                    if len(case.defer_calls) > n0:
                        unav, unfr = case.defer_calls[-1]
                    obs, changed_rows = await snapshot_rows()
                    case.order += 1
                    if not rejected:
                        current["run"]["amended"] += [p for p in ps if p not in current["run"]["amended"]]
                    current["run"]["amend_verdicts"].append(
                        {"order": case.order, "paths": ps, "pre": pre, "pre_disk": pre_disk, "carry_on": bool(carry),
                         "rejected": rejected, "unavailable": list(unav), "unfresh": list(unfr)})
                    case.trace.append(("EAmend", [fid(p, paths) for p in ps],
                                       ("RAmend", rejected, [fid(p, paths) for p in unav],
                                        [fid(p, paths) for p in unfr], bool(carry), obs)))
                    # rows the request itself changed are resynchronised (observed), see design.d
                    for p in changed_rows:
                        case.trace.append(("ERow", (fid(p, paths), rows_seen[p]), None))
                else:
                    await env_action(a)
            if script["write_out"]:
                write_out(1000 + case.order)
            current["t_end"] = clock.now
            async with db:   # what is recorded for the inputs when the command returns
                current["run"]["end_inputs"] = [(rec.path, rec.state.value, case.code(rec.hash), rec.dynamic)
                                                for rec in cstep.inp_paths()]
            case.order += 1
            current["run"]["end"] = case.order
            return ChildOutcome(script["rc"], "", "")

        ex_mod.launch_command = fake_launch
        stack.callback(setattr, ex_mod, "launch_command", old_launch)

        # try_skip_job: the await of the output hashing is a window in which other actors run
        async def out_hook(self, run, step_hash):
            script = current["script"]
            obs, changed_rows = await snapshot_rows()
            case.trace.append(("XTry", (current["t_start"], False), ("XRTry", 2, False, obs)))
            for p in changed_rows:
                case.trace.append(("ERow", (fid(p, paths), rows_seen[p]), None))
            current["chk_started"] = True
            for a in script.get("chk_during", []):
                if a[0] != "amend":
                    await env_action(a)
            case.order += 1
            current["chk"]["out_order"] = case.order
            current["chk"]["out_now"] = {OUT: real_hash(OUT)}
            return await old_out_hash(self, run, step_hash)

        Executor._compute_out_step_hash = out_hook
        stack.callback(setattr, Executor, "_compute_out_step_hash", old_out_hash)

        # hash cancellation: the real cancel event of the ThreadWorker is set right before the real
        # hash.compute_* function runs in its thread (as Executor.interrupt does during a shutdown)
        def cancelling(orig, site):
            def wrapped(*args):
                if site in current.get("cancel", ()):
                    args[-1].set()
                return orig(*args)
            return wrapped
        for name, site in (("compute_inp_hashes", "new_run"), ("compute_out_hashes", "out"),
                           ("compute_both_hashes", "end")):
            setattr(ex_mod, name, cancelling(old_compute[name], site))
            stack.callback(setattr, ex_mod, name, old_compute[name])

        for script in spec["runs"]:
            for a in script["before"]:
                await env_action(a)
            current.clear()
            current.update({"script": script, "run": None, "t_start": clock.now, "chk_started": False,
                            "cancel": set(script.get("cancel", [])), "chk": {}})
            cancel = current["cancel"]
            job = await sched.pop_next_job()
            if job is None:
                async with db:
                    obs = observe()
                case.trace.append(("XTry", (clock.now, "new_run" in cancel), ("XRTry", 0, False, obs)))
                case.runs.append({"dispatched": False})
                continue
            if job.step.i != cstep.i:
                raise AssertionError(f"another step was dispatched: {job.step.label}")
            kind = 3 if isinstance(job, ValidateDynamicJob) else (1 if job.runs_command else 2)
            nev = len(rep.events)
            if kind != 1:
                # the property's own view at the moment the inputs are hashed (implementation only)
                case.order += 1
                async with db:
                    recs = list(cstep.inp_paths())
                    shell, overrides = cstep.uses_shell(), cstep.get_env_overrides()
                current["chk"].update({
                    "inp_order": case.order, "stored": job.step_hash, "label": cstep.label, "shell": shell,
                    "overrides": overrides, "env_deps": list(job.env_deps),
                    "env_now": {name: execu.base_env.get(name) for name in job.env_deps},
                    "inputs": [(r.path, r.state.value, r.dynamic) for r in recs],
                    "inp_now": {r.path: real_hash(r.path) for r in recs},
                    "inp_rec": {r.path: r.hash for r in recs}})
            await asyncio.wait_for(job.coro(execu), 60)
            sched.record_job_completed(job)
            obs, changed_rows = await snapshot_rows()
            async with db:
                final_inputs = [(rec.path, rec.state.value, case.code(rec.hash), rec.dynamic)
                                for rec in cstep.inp_paths()]
            tags = [e[0] for e in rep.events[nev:]]
            if kind == 1:
                if current["run"] is None:
                    # the command never started (pre-run check failed or was cancelled)
                    case.trace.append(("XTry", (current["t_start"], "new_run" in cancel), ("XRTry", 1, False, obs)))
                    case.runs.append({"dispatched": True, "started": False, "state": obs["state"],
                                      "draining": obs["draining"], "kind": 1, "cancel": sorted(cancel),
                                      "has_hash": obs["has_hash"]})
                else:
                    case.trace.append(("XEnd", (current["t_end"], script["rc"] == 0, "end" in cancel),
                                       ("XREnd", obs)))
                    r = current["run"]
                    r.update({"dispatched": True, "started": True, "state": obs["state"], "deferred": obs["deferred"],
                              "dc": obs["dc"], "draining": obs["draining"], "final_inputs": final_inputs,
                              "rc": script["rc"], "write_out": script["write_out"], "kind": 1,
                              "cancel": sorted(cancel), "has_hash": obs["has_hash"]})
                    case.runs.append(r)
            else:
                if current["chk_started"]:
                    case.trace.append(("XChk", (clock.now, "out" in cancel), ("XRChk", "SKIP" in tags, obs)))
                else:
                    case.trace.append(("XTry", (current["t_start"], "new_run" in cancel), ("XRTry", kind, False, obs)))
                case.runs.append({"dispatched": True, "started": False, "kind": kind, "state": obs["state"],
                                  "deferred": obs["deferred"], "draining": obs["draining"], "tags": tags,
                                  "has_hash": obs["has_hash"], "cancel": sorted(cancel), "chk": dict(current["chk"]),
                                  "chk_started": current["chk_started"], "final_inputs": final_inputs,
                                  "n_dyn": len(obs["dyn"])})
            for p in changed_rows:
                case.trace.append(("ERow", (fid(p, paths), rows_seen[p]), None))
        case.paths = paths
        case.events = rep.events
    return case
